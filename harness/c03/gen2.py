"""C03 generator, second catalogue: generic widening of the construct × edit-kind scenarios.

(a) `tp-*`  every type position × class edits: a class `C(Base)` of the defining module {D} is named in ONE type
    position of the intermediate module {M}; the using module {U} relies on an attribute / method that C inherits,
    without naming C's members' owner.  {D} walks through: C loses its base, Base loses the attribute, the method
    signature changes, C becomes an alias / a variable / a function.
(b) `sf-*`  every snapshot field: definition module {D} → {M} (re-exposes or instantiates it) → {U}; the variants of
    {D} are `base, field1, base, field2, …` so that each step of the fixed walk changes exactly one field.
(c) `kc-*`  kind changes of a name with users in every syntactic form, each form in its own target of an unedited
    module.
Same dict format as gen.SCENARIOS.
"""
from __future__ import annotations

CLS = "class Base:\n    attr: int = 0\n    def meth(self, a: int) -> int:\n        return a\nclass C(Base):\n    own: int = 0\n"
CLASS_EDITS = [
    CLS,
    "class Base:\n    attr: int = 0\n    def meth(self, a: int) -> int:\n        return a\nclass C:\n    own: int = 0\n",          # base removed
    CLS,
    "class Base:\n    def meth(self, a: int) -> int:\n        return a\nclass C(Base):\n    own: int = 0\n",                        # attribute removed
    "class Base:\n    attr: str = ''\n    def meth(self, a: int) -> int:\n        return a\nclass C(Base):\n    own: int = 0\n",     # attribute type
    "class Base:\n    attr: int = 0\n    def meth(self, a: str) -> str:\n        return a\nclass C(Base):\n    own: int = 0\n",     # method signature
    CLS,
    "class Base:\n    attr: int = 0\n    def meth(self, a: int) -> int:\n        return a\nC = Base\n",                              # class -> alias
    "class Base:\n    attr: int = 0\n    def meth(self, a: int) -> int:\n        return a\nC: int = 0\n",                            # -> variable
    "class Base:\n    attr: int = 0\n    def meth(self, a: int) -> int:\n        return a\ndef C() -> Base:\n    return Base()\n",   # -> function
    "class Mixin:\n    attr: int = 0\nclass Base:\n    def meth(self, a: int) -> int:\n        return a\nclass C(Base, Mixin):\n    own: int = 0\n",  # attribute moves to another base
]

# position name -> (M text, U text); {D}/{M} are replaced by module names
POSITIONS = {
    "return": ("from {D} import C\ndef make() -> C:\n    return C()\n",
               "from {M} import make\nx: int = make().attr\ndef f() -> int:\n    return make().meth(1)\n"),
    "param-callback": ("from typing import Callable\nfrom {D} import C\ndef apply(f: Callable[[C], int]) -> int:\n    return f(C())\n",
                       "from {M} import apply\ndef f() -> int:\n    return apply(lambda c: c.attr)\n"),
    "variable": ("from {D} import C\nvar: C = C()\n",
                 "from {M} import var\nx: int = var.attr\ndef f() -> int:\n    return var.meth(1)\n"),
    "base-class": ("from {D} import C\nclass Sub(C):\n    pass\n",
                   "from {M} import Sub\nx: int = Sub().attr\ndef f(s: Sub) -> int:\n    return s.meth(1)\n"),
    "typevar-bound": ("from typing import TypeVar\nfrom {D} import C\nT = TypeVar('T', bound=C)\n",
                      "from {M} import T\ndef f(x: T) -> int:\n    return x.attr\ndef g(x: T) -> T:\n    x.meth(1)\n    return x\n"),
    "typevar-values": ("from typing import TypeVar\nfrom {D} import C\nT = TypeVar('T', C, int)\n",
                       "from {M} import T\ndef f(x: T) -> int:\n    if isinstance(x, int):\n        return x\n    return x.attr\n"),
    "typevar-default": ("from typing import Generic\nfrom typing_extensions import TypeVar\nfrom {D} import C\nT = TypeVar('T', default=C)\n"
                        "class Box(Generic[T]):\n    def get(self) -> T: ...\n",
                        "from {M} import Box\ndef f(b: Box) -> int:\n    return b.get().attr\n"),
    "typeguard": ("from typing_extensions import TypeGuard\nfrom {D} import C\ndef is_c(x: object) -> TypeGuard[C]:\n    return isinstance(x, C)\n",
                  "from {M} import is_c\ndef f(x: object) -> int:\n    if is_c(x):\n        return x.attr\n    return 0\n"),
    "typeis": ("from typing_extensions import TypeIs\nfrom {D} import C\ndef is_c(x: object) -> TypeIs[C]:\n    return isinstance(x, C)\n",
               "from {M} import is_c\ndef f(x: object) -> int:\n    if is_c(x):\n        return x.meth(1)\n    return 0\n"),
    "callable-return": ("from typing import Callable\nfrom {D} import C\nhandler: Callable[[], C] = C\n",
                        "from {M} import handler\nx: int = handler().attr\n"),
    "cast": ("from {D} import C as C\n",
             "from typing import cast\nfrom {M} import C\ndef f(o: object) -> int:\n    return cast(C, o).attr\n"),
    "isinstance": ("from {D} import C as C\n",
                   "from {M} import C\ndef f(o: object) -> int:\n    if isinstance(o, C):\n        return o.attr\n    return 0\n"),
    "generic-arg": ("from {D} import C\nitems: list[C] = []\nmapping: dict[str, C] = {}\n",
                    "from {M} import items, mapping\nx: int = items[0].attr\ndef f() -> int:\n    return mapping['k'].meth(1)\n"),
    "alias-target": ("from typing import Optional\nfrom {D} import C\nAlias = C\nOpt = Optional[C]\n",
                     "from {M} import Alias, Opt\ndef f(a: Alias) -> int:\n    return a.attr\ndef g(o: Opt) -> int:\n    return o.attr if o else 0\n"),
    "newtype": ("from typing import NewType\nfrom {D} import C\nN = NewType('N', C)\n",
                "from {M} import N\ndef f(n: N) -> int:\n    return n.attr\n"),
    "namedtuple-field": ("from typing import NamedTuple\nfrom {D} import C\nclass NT(NamedTuple):\n    c: C\n",
                         "from {M} import NT\ndef f(n: NT) -> int:\n    return n.c.attr\n"),
    "typeddict-field": ("from typing import TypedDict\nfrom {D} import C\nclass TD(TypedDict):\n    c: C\n",
                        "from {M} import TD\ndef f(t: TD) -> int:\n    return t['c'].attr\n"),
    "type-of": ("from {D} import C\nfactory: type[C] = C\n",
                "from {M} import factory\nx: int = factory().attr\n"),
    "tuple-item": ("from {D} import C\npair: tuple[C, int] = (C(), 1)\n",
                   "from {M} import pair\nx: int = pair[0].attr\n"),
    "protocol-member": ("from typing import Protocol\nfrom {D} import C\nclass HasC(Protocol):\n    def c(self) -> C: ...\n",
                        "from {M} import HasC\ndef f(h: HasC) -> int:\n    return h.c().attr\n"),
}

TYPE_POSITION_SCENARIOS = [
    {"name": "tp-" + pos, "construct": f"class from another module in type position '{pos}' (TypeTriggersVisitor / snapshot of that position)",
     "D": CLASS_EDITS, "M": [m], "U": [u]}
    for pos, (m, u) in POSITIONS.items()
]


def toggles(base: str, fields: list[str]) -> list[str]:
    out = [base]
    for f in fields:
        out += [f, base]
    return out[:-1] if len(out) > 1 else out


BOX = ("from typing import Generic\nfrom {D} import T\nclass Box(Generic[T]):\n    def __init__(self, v: T) -> None:\n        self.v = v\n"
       "    def get(self) -> T:\n        return self.v\n")
TV = "from typing_extensions import TypeVar\n"
SNAPSHOT_FIELD_SCENARIOS = [
    {"name": "sf-typevar", "construct": "TypeVarExpr snapshot: variance, bound, values, default",
     "D": [TV + "T = TypeVar('T')\n", TV + "T = TypeVar('T', covariant=True)\n", TV + "T = TypeVar('T')\n",
           TV + "T = TypeVar('T', bound=int)\n", TV + "T = TypeVar('T')\n", TV + "T = TypeVar('T', int, str)\n",
           TV + "T = TypeVar('T')\n", TV + "T = TypeVar('T', default=int)\n", TV + "T = TypeVar('T', default=str)\n",
           TV + "T = TypeVar('T', bound=object, default=str)\n", TV + "T = TypeVar('T', contravariant=True)\n"],
     "M": [BOX],
     "U": ["from {M} import Box\ndef f(b: Box) -> int:\n    return b.get()\nx: Box[str] = Box('')\ndef g(b: Box[int]) -> Box[object]:\n    return b\n"]},
    {"name": "sf-paramspec", "construct": "ParamSpecExpr snapshot: default",
     "D": ["from typing_extensions import ParamSpec\nP = ParamSpec('P')\n", "from typing_extensions import ParamSpec\nP = ParamSpec('P', default=[int])\n",
           "from typing_extensions import ParamSpec\nP = ParamSpec('P', default=[str])\n", "from typing_extensions import ParamSpec\nP = ParamSpec('P', default=[int, int])\n"],
     "M": ["from typing import Generic\nfrom {D} import P\nclass Cb(Generic[P]):\n    def call(self, *a: P.args, **k: P.kwargs) -> None: ...\n"],
     "U": ["from {M} import Cb\ndef f(c: Cb) -> None:\n    c.call(1)\n"]},
    {"name": "sf-typevartuple", "construct": "TypeVarTupleExpr snapshot: default",
     "D": ["from typing_extensions import TypeVarTuple, Unpack\nTs = TypeVarTuple('Ts')\n",
           "from typing_extensions import TypeVarTuple, Unpack\nTs = TypeVarTuple('Ts', default=Unpack[tuple[int]])\n",
           "from typing_extensions import TypeVarTuple, Unpack\nTs = TypeVarTuple('Ts', default=Unpack[tuple[str]])\n"],
     "M": ["from typing import Generic\nfrom typing_extensions import Unpack\nfrom {D} import Ts\nclass Tup(Generic[Unpack[Ts]]):\n    def get(self) -> tuple[Unpack[Ts]]: ...\n"],
     "U": ["from {M} import Tup\ndef f(t: Tup) -> tuple[int]:\n    return t.get()\n"]},
    {"name": "sf-alias", "construct": "TypeAlias snapshot: target, type parameters, no_args",
     "D": toggles("from typing import TypeVar\nT = TypeVar('T')\nA = list[int]\n",
                  ["from typing import TypeVar\nT = TypeVar('T')\nA = list[T]\n", "from typing import TypeVar\nT = TypeVar('T')\nA = dict[str, T]\n",
                   "from typing import TypeVar\nT = TypeVar('T')\nA = list\n", "from typing import TypeVar, Union\nT = TypeVar('T')\nA = Union[int, list[T]]\n"]),
     "M": ["from {D} import A as A\n"],
     "U": ["from {M} import A\ndef f(x: A) -> int:\n    return x[0]\ndef g(x: A[int]) -> int:\n    return x[0]\n"]},
    {"name": "sf-function", "construct": "function snapshot: async, default presence, kinds, names, varargs, decorators",
     "D": toggles("def fn(a: int, b: int = 0) -> int:\n    return a\n",
                  ["async def fn(a: int, b: int = 0) -> int:\n    return a\n", "def fn(a: int, b: int) -> int:\n    return a\n",
                   "def fn(a: int, *, b: int = 0) -> int:\n    return a\n", "def fn(a: int, /, b: int = 0) -> int:\n    return a\n",
                   "def fn(c: int, b: int = 0) -> int:\n    return c\n", "def fn(a: int, *b: int) -> int:\n    return a\n",
                   "from typing_extensions import deprecated\n@deprecated('x')\ndef fn(a: int, b: int = 0) -> int:\n    return a\n",
                   "import functools\n@functools.lru_cache()\ndef fn(a: int, b: int = 0) -> int:\n    return a\n"]),
     "M": ["from {D} import fn as fn\n"],
     "U": ["from {M} import fn\nx: int = fn(1)\ny: int = fn(1, 2)\ndef g() -> int:\n    return fn(a=1, b=2)\n"]},
    {"name": "sf-method", "construct": "method snapshot: static / class / property / abstract / final / overload flags",
     "D": toggles("class K:\n    def m(self) -> int:\n        return 0\n",
                  ["class K:\n    @staticmethod\n    def m() -> int:\n        return 0\n", "class K:\n    @classmethod\n    def m(cls) -> int:\n        return 0\n",
                   "class K:\n    @property\n    def m(self) -> int:\n        return 0\n",
                   "from abc import abstractmethod\nclass K:\n    @abstractmethod\n    def m(self) -> int: ...\n",
                   "from typing import final\nclass K:\n    @final\n    def m(self) -> int:\n        return 0\n",
                   "class K:\n    m: int = 0\n"]),
     "M": ["from {D} import K as K\n"],
     "U": ["from {M} import K\nx: int = K().m()\ny: int = K.m(K())\nclass Sub(K):\n    def m(self) -> int:\n        return 1\n"]},
    {"name": "sf-variable", "construct": "Var snapshot: Final, ClassVar, inferred vs declared, property-ness",
     "D": toggles("X: int = 1\nclass K:\n    v: int = 0\n",
                  ["from typing import Final\nX: Final = 1\nclass K:\n    v: int = 0\n", "from typing import Final\nX: Final[int] = 1\nclass K:\n    v: int = 0\n",
                   "from typing import ClassVar\nX: int = 1\nclass K:\n    v: ClassVar[int] = 0\n", "from typing import Final\nX: int = 1\nclass K:\n    v: Final = 0\n",
                   "X = 1\nclass K:\n    v = 0\n", "X: int\nclass K:\n    v: int\n"]),
     "M": ["import {D} as dd\nfrom {D} import K as K\n"],
     "U": ["import {M}\nfrom {M} import K\n{M}.dd.X = 2\ndef f(k: K) -> None:\n    k.v = 1\nclass Sub(K):\n    v = 2\n"]},
    {"name": "sf-class", "construct": "TypeInfo snapshot: metaclass, slots, match_args, protocol, final, abstract, dataclass, enum",
     "D": toggles("class K:\n    x: int = 0\n    def m(self) -> int:\n        return 0\n",
                  ["from abc import ABCMeta\nclass K(metaclass=ABCMeta):\n    x: int = 0\n    def m(self) -> int:\n        return 0\n",
                   "class K:\n    __slots__ = ('x',)\n    def __init__(self) -> None:\n        self.x = 0\n    def m(self) -> int:\n        return 0\n",
                   "class K:\n    __match_args__ = ('x',)\n    x: int = 0\n    def m(self) -> int:\n        return 0\n",
                   "from typing import Protocol\nclass K(Protocol):\n    x: int = 0\n    def m(self) -> int:\n        return 0\n",
                   "from typing import final\n@final\nclass K:\n    x: int = 0\n    def m(self) -> int:\n        return 0\n",
                   "from abc import ABC, abstractmethod\nclass K(ABC):\n    x: int = 0\n    @abstractmethod\n    def m(self) -> int: ...\n",
                   "class Meta(type):\n    def make(cls) -> int:\n        return 1\nclass K(metaclass=Meta):\n    x: int = 0\n    def m(self) -> int:\n        return 0\n",
                   "from typing import Generic, TypeVar\nT = TypeVar('T')\nclass K(Generic[T]):\n    x: int = 0\n    def m(self) -> int:\n        return 0\n"]),
     "M": ["from {D} import K as K\n"],
     "U": ["from {M} import K\nclass Sub(K):\n    def set(self) -> None:\n        self.y = 1\nk = K()\ndef f(v: K) -> int:\n    match v:\n        case K(a):\n            return a\n    return 0\nn: int = K.make()\n"]},
]

GEN = ("from typing import Generic, TypeVar\nT = TypeVar('T')\nclass R(Generic[T]):\n    attr: int = 0\n    def __enter__(self) -> int:\n        return 1\n"
       "    def __exit__(self, *a: object) -> None: ...\n    def __iter__(self) -> 'R[T]':\n        return self\n    def __next__(self) -> int:\n        return 1\n")
KIND_VARIANTS = [
    GEN,
    "from typing import Callable, Dict\nR: Dict[str, Callable[[], object]] = {}\n",
    GEN,
    "def R() -> int:\n    return 1\n",
    "class R:\n    attr: int = 0\n",
    "R: int = 0\n",
    GEN,
    "from typing import Dict\nR = Dict[str, int]\n",
    "from typing import Any\nR: Any = None\n",
    "import os as R\n",
]
FORMS_QUAL = ("import {D}\ndef f1() -> None:\n    r = {D}.R[int]()\ndef f2() -> None:\n    v = {D}.R['k']\ndef f3() -> None:\n    v = {D}.R()\n"
              "def f4() -> int:\n    return {D}.R.attr\ndef f6() -> None:\n    with {D}.R() as w:\n        pass\ndef f7() -> None:\n    for i in {D}.R():\n        pass\n"
              "def f8(x: {D}.R) -> None: ...\ndef f9() -> None:\n    {D}.R = 1\n")
FORMS_FROM = ("from {D} import R\ndef f1() -> None:\n    r = R[int]()\ndef f2() -> None:\n    v = R['k']\ndef f3() -> None:\n    v = R()\n"
              "def f4() -> int:\n    return R.attr\ndef f6() -> None:\n    with R() as w:\n        pass\ndef f7() -> None:\n    for i in R():\n        pass\n"
              "def f8(x: R) -> None: ...\n")
KIND_CHANGE_SCENARIOS = [
    {"name": "kc-forms-qualified", "construct": "kind change of m.R (generic class / dict variable / function / class / alias / Any / module) used as m.R[int](), m.R[k], m.R(), m.R.attr, with, for, annotation, assignment — each in its own target",
     "D": KIND_VARIANTS, "U": [FORMS_QUAL]},
    {"name": "kc-forms-imported", "construct": "the same through `from m import R`",
     "D": KIND_VARIANTS, "U": [FORMS_FROM]},
    {"name": "kc-toplevel-forms", "construct": "kind change of a name used as decorator and as base class at module top level",
     "D": ["from typing import Callable, TypeVar\nF = TypeVar('F')\ndef R(f: F) -> F:\n    return f\nclass B:\n    a: int = 0\n",
           "class R:\n    def __init__(self, f: object) -> None: ...\nclass B:\n    a: int = 0\n",
           "R: int = 0\nclass B:\n    a: int = 0\n",
           "from typing import Callable, TypeVar\nF = TypeVar('F')\ndef R(f: F) -> F:\n    return f\nB: int = 0\n",
           "from typing import Callable, TypeVar\nF = TypeVar('F')\ndef R(f: F) -> F:\n    return f\ndef B() -> int:\n    return 0\n",
           "from typing import Any, Callable, TypeVar\nF = TypeVar('F')\ndef R(f: F) -> F:\n    return f\nB: Any = None\n"],
     "U": ["import {D}\n@{D}.R\ndef g(x: int) -> int:\n    return x\nclass S({D}.B):\n    pass\ndef h() -> int:\n    return g(1) + S().a\n"]},
]

WIDE_SCENARIOS = TYPE_POSITION_SCENARIOS + SNAPSHOT_FIELD_SCENARIOS + KIND_CHANGE_SCENARIOS
