"""C06 — compiled code is memory safe: balanced reference counts, no undefined reads.

1. Lean: `Props/C06.lean` — `checkFunc_sound` (the verified ownership checker), its corollaries, the refuted
   witnesses, and the kernel-evaluated sample of real IR (`Gen/C06Sample.lean`, regenerated first).
2. Tie (translator, every run): the final IR of every function of (a sample of / all) the mypyc test corpus and of
   generated programs is regenerated from the checked tree's mypyc (`translate/ir_export.py`), flattened into
   ownership micro-ops (`translate/c06_micro.py`) and `checkFunc` is evaluated on all of it by the Lean driver.
   Functions outside the modelled fragment are counted as `skipped:<reason>`, never accepted.
3. Search: every rejected function gets a concrete path of the ownership semantics (re-checked by the Lean
   driver's `replayFrom`); the rejection is then concretised — the module is compiled for real and run on tracked
   objects (live-instance counts, `sys.getrefcount` of the arguments, process signals).  Found ⇒ `ctx.report`
   with program + arguments; not found ⇒ `ctx.violation(..., found_input=False)`.
"""
from __future__ import annotations

import collections
import json
import os
import shutil
import subprocess
import sys
import time
from concurrent.futures import ThreadPoolExecutor
from multiprocessing import Pool
from typing import Any

from harness.vlib.core import Ctx, PY, REPO, ToolFailure, repo_env
from harness.c06 import gen as G

MODEL_FILES = ["MypyVerif/Model/IR.lean", "MypyVerif/Model/Ownership.lean", "MypyVerif/Proofs/Ownership.lean",
               "MypyVerif/Gen/C06Sample.lean"]
NPROC = 6


# ------------------------------------------------------------------------------------- export workers
def _size_bucket(n: int) -> str:
    for b in (10, 30, 100, 300, 1000, 3000):
        if n <= b:
            return f"<={b}"
    return ">3000"


def _work(job: tuple) -> dict:
    """Compile one program to IR with the checked tree and flatten every function (runs in a worker process)."""
    from translate import c06_micro as M
    from translate import ir_export as X
    idx, kind, key, payload, root = job
    wd = os.path.join(root, f"p{os.getpid()}", f"c{idx}")
    out: dict[str, Any] = {"key": key, "kind": kind, "error": None, "funcs": []}
    t_start = time.time()
    devnull = os.open(os.devnull, os.O_WRONLY)
    sys.stdout.flush()
    sys.stderr.flush()
    saved, saved1 = os.dup(2), os.dup(1)
    os.dup2(devnull, 2)                       # mypy/mypyc print tracebacks of their own crashes
    os.dup2(devnull, 1)
    try:
        if kind in ("gen", "pinned"):
            cache = os.path.join(root, f"p{os.getpid()}", "cache")
            if not os.path.isdir(cache) and os.path.isdir(os.path.join(root, "cache0")):
                shutil.copytree(os.path.join(root, "cache0"), cache)      # typeshed, warmed once by the parent
            mods, side = X.compile_to_ir({"native.py": payload}, ["native"], wd, fixtures=False, want_pre=False,
                                         cache_dir=cache)
            source = payload
        else:
            mods, side = X.compile_case(payload, wd, want_pre=False)
            source = payload.main
        out["t_compile"] = time.time() - t_start
        for rec in X.export_modules(mods, side):
            fd = rec["final"]
            m = M.flatten(fd)
            classes = collections.Counter()
            nops = 0
            for b in fd.get("blocks", []):
                for op in b["ops"]:
                    classes[op["op"]] += 1
                    nops += 1
            f: dict[str, Any] = {"name": fd.get("fullname", "?"), "short": fd.get("name"), "unmodelled": m.unmodelled,
                                 "idioms": m.idioms, "classes": dict(classes), "nops": nops, "nvars": m.nvars,
                                 "nblocks": len(m.blocks), "line": None, "bad": None}
            if not m.unmodelled:
                f["line"] = M.line_check(m)
                bad = M.check(m)
                if bad is not None:
                    f["bad"] = M.describe_failure(m, fd, bad)
                    w = M.concrete_witness(m)
                    f["witness"] = w
                    f["replay_line"] = M.line_replay(m, w) if w is not None else None
                    f["pretty"] = X.pretty(fd)
                    f["last_writer_block"] = _last_writer(m, w, bad[2]) if w is not None else None
                    f["source"] = source
                    f["files"] = dict(payload.files) if kind not in ("gen", "pinned") else {}
            out["funcs"].append(f)
    except X.CompileFailure as e:
        out["error"] = str(e)[:200]
    finally:
        sys.stdout.flush()
        sys.stderr.flush()
        os.dup2(saved, 2)
        os.dup2(saved1, 1)
        os.close(saved)
        os.close(saved1)
        os.close(devnull)
        shutil.rmtree(wd, ignore_errors=True)
    out["t_total"] = time.time() - t_start
    return out


def _last_writer(m: Any, w: dict, var: int) -> int | None:
    """Index (into the witness path) of the last block before the failure that writes `var`."""
    from translate import c06_micro as M
    last = None
    for pos, l in enumerate(w["labels"][:-1]):
        blk = m.blocks[l]
        ops = list(blk["ops"])
        if blk["term"][0] == "br":
            for e in blk["term"][1]:
                ops += e[0]
        if any((op[0] in (M.DEFINE, M.MOVE) and op[1] == var) for op in ops):
            last = pos
    return last


# ------------------------------------------------------------------------------------- real builds (search)
def real_build(ctx: Ctx, name: str, files: dict[str, str], modules: list[str]) -> tuple[str | None, str]:
    """`python -m mypyc` of the checked tree in a scratch dir.  (dir or None, log)"""
    d = os.path.join(ctx.tmp, "real", name)
    os.makedirs(d, exist_ok=True)
    for rel, text in files.items():
        p = os.path.join(d, rel)
        os.makedirs(os.path.dirname(p), exist_ok=True)
        with open(p, "w") as f:
            f.write(text)
    try:
        p = subprocess.run([PY, "-m", "mypyc"] + [m.replace(".", "/") + ".py" for m in modules], cwd=d,
                           env=repo_env(), capture_output=True, text=True, timeout=600)
    except subprocess.TimeoutExpired:
        return None, "mypyc build timed out"
    if p.returncode != 0:
        return None, (p.stdout + p.stderr)[-1500:]
    return d, ""


class Build:
    """A `python -m mypyc` of the checked tree running in the background (started early, collected when needed)."""

    def __init__(self, ctx: Ctx, name: str, files: dict[str, str], modules: list[str]):
        self.dir = os.path.join(ctx.tmp, "real", name)
        os.makedirs(self.dir, exist_ok=True)
        for rel, text in files.items():
            p = os.path.join(self.dir, rel)
            os.makedirs(os.path.dirname(p), exist_ok=True)
            with open(p, "w") as f:
                f.write(text)
        self.log = open(os.path.join(self.dir, "_build.log"), "w")
        self.proc = subprocess.Popen([PY, "-m", "mypyc"] + [m.replace(".", "/") + ".py" for m in modules], cwd=self.dir,
                                     env=repo_env(), stdout=self.log, stderr=subprocess.STDOUT)
        self.result: tuple[str | None, str] | None = None

    def wait(self, timeout: int = 600) -> tuple[str | None, str]:
        if self.result is None:
            try:
                rc = self.proc.wait(timeout=timeout)
            except subprocess.TimeoutExpired:
                self.proc.kill()
                rc = -9
            self.log.close()
            text = open(os.path.join(self.dir, "_build.log")).read()[-1500:]
            self.result = (self.dir, "") if rc == 0 else (None, text)
        return self.result


def run_py(d: str, script: str, args: list[str], timeout: int = 120, name: str = "_drv.py") -> tuple[int, str]:
    """Run a driver next to a compiled module, with CPython's debug allocator (freed memory is poisoned, so a use
    after free is a deterministic crash instead of a silent read of stale memory)."""
    with open(os.path.join(d, name), "w") as f:
        f.write(script)
    try:
        p = subprocess.run([PY, name] + args, cwd=d, env=repo_env({"PYTHONMALLOC": "debug"}), capture_output=True,
                           text=True, timeout=timeout)
    except subprocess.TimeoutExpired:
        return 0, "TIMEOUT"            # inconclusive, never counted as a crash
    return p.returncode, p.stdout + p.stderr[-800:]


KNOWN_MODULE = '''
import asyncio
from typing import Any, List

# F-C06b: the result of the first await lives in an unspilled Register across the second await
async def one(x: Any) -> Any:
    await asyncio.sleep(0)
    return x

async def both(a: Any, b: Any) -> Any:
    return await one(a) + await one(b)

# F-C06f: a sequence pattern reads items with PySequence_GetItem (declared never-failing)
def first_of_pair(x: Any) -> Any:
    match x:
        case [a, b]:
            return a
        case _:
            return None

# F-C06c: the target object of a nested augmented assignment is borrowed across the right operand
class Inner:
    def __init__(self, n: int) -> None:
        self.n = n

class Outer:
    def __init__(self, inner: Inner) -> None:
        self.inner = inner

def swap(o: Outer, new: int) -> int:
    o.inner = Inner(new)
    return 1

def bump(o: Outer, new: int) -> int:
    o.inner.n += swap(o, new)
    return o.inner.n

# F-C06d: two initialising stores to one slot in Derived.__mypyc_defaults_setup
def make() -> object:
    return [1]

class Base:
    tag: object = make()

class Derived(Base):
    tag = make()

# F-C06e: CPyList_SetItem is declared as stealing but keeps the reference when it fails
def set_item(lst: List[object], i: int, v: object) -> bool:
    try:
        lst[i] = v
    except IndexError:
        return False
    return True
'''

# class -> (driver, what a reproduction looks like)
KNOWN_DRIVERS = {
    "temp-register-lost-across-yield": "import asyncio, native\nprint(asyncio.run(native.both(1, 2)))\n",
    "heap-borrow-used-after-rebinding-op": (
        "import native\nBIG = 1 << 80\nfor i in range(1000):\n    o = native.Outer(native.Inner(BIG + i))\n"
        "    native.bump(o, 5)\nprint('survived')\n"),
    "init-store-overwrites-initialised-slot": (
        "import native, gc, sys\nfor i in range(200): native.Derived()\ngc.collect(); b = sys.getallocatedblocks()\n"
        "for i in range(2000): native.Derived()\ngc.collect(); d = sys.getallocatedblocks() - b\nprint('blocks', d)\n"
        "sys.exit(3 if d >= 2000 else 0)\n"),
    "never-failing-primitive-can-return-null": (
        "import native\nfrom collections.abc import Sequence\nclass Bad(Sequence):\n    def __len__(self): return 2\n"
        "    def __getitem__(self, i): raise RuntimeError('boom')\ntry:\n    native.first_of_pair(Bad())\n"
        "except RuntimeError:\n    print('raised')\n"),
    "stealing-primitive-leaks-on-error": (
        "import native, sys\nclass T: pass\nv = T(); l = [1]\nb = sys.getrefcount(v)\n"
        "for i in range(1000): native.set_item(l, 5, v)\nd = sys.getrefcount(v) - b\nprint('refs', d)\n"
        "sys.exit(3 if d >= 1000 else 0)\n"),
}


def run_known_recipe(build: "Build", cls: str) -> dict:
    d, log = build.wait()
    drv = KNOWN_DRIVERS[cls]
    if d is None:       # e.g. the C compiler rejects what a broken tree emits: no dynamic witness, not a tool failure
        return {"program": KNOWN_MODULE, "driver": drv, "exit_code": None, "signal": None, "output": "", "build_failed": log[-400:],
                "result": "witness-build-failed"}
    rc, out = run_py(d, drv, [], name="_drv_" + cls.replace("-", "_") + ".py")
    res = "SIGSEGV" if rc in (-11, 139) else ("leak" if rc == 3 else ("not-reproduced" if rc == 0 else f"exit {rc}"))
    return {"program": KNOWN_MODULE, "driver": drv, "exit_code": rc, "signal": -rc if rc < 0 else None, "output": out[-300:],
            "result": res}


def dynamic_generated(ctx: Ctx, tag: str, source: str, fnames: list[str], reps: int, build: "Build | None" = None) -> dict:
    """Compile a generated module for real, call the functions on tracked objects (compiled and interpreted)."""
    if build is None:
        build = Build(ctx, tag, {"native.py": source, "interp.py": source}, ["native"])
    d, log = build.wait()
    if d is None:
        return {"built": False, "log": log}
    res: dict[str, Any] = {"built": True, "failures": [], "calls": 0}
    rc, out = run_py(d, G.DRIVER, ["native", ",".join(fnames), str(reps)], timeout=300)
    rows = [json.loads(l) for l in out.splitlines() if l.startswith("{")]
    res["calls"] = len(rows)
    if rc < 0 or rc in (134, 139):
        last = rows[-1] if rows else None
        res["failures"].append({"class": "crash", "exit_code": rc, "signal": -rc if rc < 0 else rc - 128,
                                "after_call": last, "tail": out[-300:]})
    elif rc != 0:
        res["driver_error"] = out[-400:]
    for r in rows:
        if "leaked" in r:
            res["failures"].append(dict(r, **{"class": "refcount-imbalance"}))
    rc2, out2 = run_py(d, G.DRIVER, ["interp", ",".join(fnames), "1"], timeout=300)
    irows = {(r["fn"], r["n"], r["flag"], r["o"]): r["kind"] for r in (json.loads(l) for l in out2.splitlines() if l.startswith("{"))}
    for r in rows:
        k = irows.get((r["fn"], r["n"], r["flag"], r["o"]))
        und = ("UnboundLocalError", "AttributeError")
        # CPython raises for an unassigned local / attribute but the compiled code carried on (or failed differently).
        # (The converse — compiled raises AttributeError after `del` of an attribute with a class-level default, CPython
        # falls back to the class attribute — is a documented mypyc difference and memory safe.)
        # A different exception (e.g. AttributeError from an earlier deleted-attribute read) is not a memory problem.
        if k in und and r["kind"] == "ok":
            res["failures"].append(dict(r, **{"class": "undefined-read-differs", "interpreted": k}))
    return res


def dynamic_pinned(ctx: Ctx, tag: str, source: str, driver: str) -> dict:
    """A pinned program with its own driver (exit status 0 = fine)."""
    d, log = Build(ctx, tag, {"native.py": source}, ["native"]).wait()
    if d is None:
        return {"built": False, "log": log}
    rc, out = run_py(d, driver, [], timeout=300)
    res: dict[str, Any] = {"built": True, "failures": [], "output": out[-300:], "driver": driver}
    if rc < 0 or rc in (134, 139):
        res["failures"].append({"class": "crash", "exit_code": rc, "signal": -rc if rc < 0 else rc - 128})
    elif rc != 0 and "PROBLEM" in out:
        res["failures"].append({"class": "refcount-imbalance-or-wrong-result", "exit_code": rc, "message": out.strip()[-200:]})
    return res


LEAK_LOOP = r'''
import gc, sys, importlib
mod = importlib.import_module("native")
tests = [getattr(mod, n) for n in sorted(dir(mod)) if n.startswith("test_") and callable(getattr(mod, n))]
def run_all():
    for t in tests:
        try:
            t()
        except BaseException:
            pass
for _ in range(3):
    run_all()
gc.collect()
sizes = []
for batch in range(4):
    for _ in range(50):
        run_all()
    gc.collect()
    sizes.append(sys.getallocatedblocks())
print("TESTS", len(tests), "BLOCKS", sizes)
'''


def dynamic_corpus(ctx: Ctx, tag: str, source: str, files: dict[str, str]) -> dict:
    """A run-*.test program: compile, run its test_* functions repeatedly, watch allocated blocks and signals."""
    fs = {"native.py": source}
    for fn, text in files.items():
        fn = fn[4:] if fn.startswith("tmp/") else fn
        if fn.endswith(".py") and fn != "driver.py":
            fs[fn] = text
    tu = os.path.join(REPO, "mypyc", "test-data", "fixtures", "testutil.py")
    if os.path.exists(tu):
        fs.setdefault("testutil.py", open(tu).read())
    d, log = real_build(ctx, tag, fs, ["native"])
    if d is None:
        return {"built": False, "log": log}
    rc, out = run_py(d, LEAK_LOOP, [], timeout=120)
    res: dict[str, Any] = {"built": True, "failures": [], "output": out[-300:]}
    if rc < 0 or rc in (134, 139):
        res["failures"].append({"class": "crash", "exit_code": rc, "signal": -rc if rc < 0 else None})
    for line in out.splitlines():
        if line.startswith("TESTS"):
            sizes = json.loads(line.split("BLOCKS", 1)[1])
            ntests = int(line.split()[1])
            d1, d2, d3 = sizes[1] - sizes[0], sizes[2] - sizes[1], sizes[3] - sizes[2]
            if ntests and min(d1, d2, d3) >= 50:        # ≥ 1 block per iteration, in every batch
                res["failures"].append({"class": "refcount-imbalance", "allocated_blocks_after_each_50_runs": sizes})
    return res


# ------------------------------------------------------------------------------------- classification
def classify(f: dict) -> dict:
    """`observed` dict of a rejection, from its raw description (nothing is filtered)."""
    b = f["bad"]
    obs: dict[str, Any] = {"class": "ownership-check-rejects", "micro_op": b.get("micro_kind"), "ir_op": b.get("ir_op"),
                           "value": b.get("value")}
    vd = b.get("var_def") or {}
    if f["short"] == "close" and b.get("value") == "N" and vd.get("op") == "CallC" and vd.get("function") == "CPyObject_GetAttr" \
            and vd.get("args") == ["static:module:builtins", "literal:'GeneratorExit'"]:
        obs.update({"class": "generator-close-null-GeneratorExit", "function": "close",
                    "value_def": "CPyObject_GetAttr(builtins, 'GeneratorExit')"})
    elif f["short"] == "__mypyc_generator_helper__" and b.get("value") == "N" and b.get("var_kind") == "reg" \
            and not b.get("var_named") and f.get("last_writer_block") == 0 and b.get("micro_kind") in ("use", "steal", "incref", "decref"):
        obs.update({"class": "temp-register-lost-across-yield", "function": "__mypyc_generator_helper__",
                    "origin": "entry-block re-initialisation to the error value"})
    elif b.get("var_kind") == "init-slot":
        # two initialising stores (no release of the old value) to one attribute slot on one path
        obs = {"class": "init-store-overwrites-initialised-slot", "function": f["short"], "value": b.get("value")}
    elif b.get("value") == "(0, False)" and b.get("micro_kind") in ("use", "steal", "incref") and vd.get("borrowed"):
        # borrow safety: a value borrowed from the heap is used after an op that may have rebound its owner
        obs = {"class": "heap-borrow-used-after-rebinding-op", "borrow_def": vd.get("op"), "use_op": b.get("ir_op"),
               "use_function": b.get("ir_function")}
    elif b.get("value") == "N" and vd.get("op") == "CallC" and vd.get("error_kind") == 0 and vd.get("c_can_return_null"):
        # error contract: the primitive is declared error_kind=ERR_NEVER (no error branch) but its C code can return NULL
        obs = {"class": "never-failing-primitive-can-return-null", "primitive": vd.get("function"),
               "c_reason": vd.get("c_can_return_null")}
    elif b.get("value") == "N" and vd.get("op") == "GetAttr" and vd.get("error_kind") == 0 \
            and not (vd.get("attr_always_initialized") and not vd.get("attr_deletable")):
        # side condition: a GetAttr without an error branch whose slot the ClassIR does not guarantee to be filled
        obs = {"class": "getattr-nonfailing-but-attribute-may-be-undefined", "use_op": b.get("ir_op"),
               "always_initialized": vd.get("attr_always_initialized"), "deletable": vd.get("attr_deletable"),
               "has_default": vd.get("attr_has_default")}
    return obs


# ------------------------------------------------------------------------------------- main
def pinned_programs() -> list[tuple[str, str, str | None]]:
    """(name, module source, driver source or None) of corpus/c06"""
    cdir = os.path.join(os.path.dirname(os.path.dirname(os.path.dirname(os.path.abspath(__file__)))), "corpus", "c06")
    out = []
    for fn in sorted(os.listdir(cdir)) if os.path.isdir(cdir) else []:
        if fn.endswith(".py") and not fn.endswith(".driver.py"):
            drv = os.path.join(cdir, fn[:-3] + ".driver.py")
            out.append((fn, open(os.path.join(cdir, fn)).read(), open(drv).read() if os.path.exists(drv) else None))
    return out


def export_all(ctx: Ctx, gen_progs: list[tuple[str, list[str], list[str]]]) -> list[dict]:
    from translate import ir_export as X
    rng = ctx.rng
    cases = X.corpus_cases(REPO)
    ctx.coverage["corpus_cases_total"] = len(cases)
    if ctx.quick():
        # stratified sample: every file contributes
        by_file: dict[str, list] = collections.defaultdict(list)
        for c in cases:
            by_file[c.file].append(c)
        want = 170
        picked = []
        files = sorted(by_file)
        for fl in files:
            cs = by_file[fl]
            k = max(1, round(want * len(cs) / len(cases)))
            picked += rng.sample(cs, min(k, len(cs)))
        cases = picked
    root = os.path.join(ctx.tmp, "ir")
    os.makedirs(root, exist_ok=True)
    X.fixture_lib_dir(root)
    jobs: list[tuple] = []
    for i, c in enumerate(cases):
        jobs.append((i, c.kind, c.key, c, root))
    # pinned programs (minimised past findings + must-accept shapes): always checked, real typeshed
    for j, (fn, src, _) in enumerate(pinned_programs()):
        jobs.append((100000 + j, "pinned", "pinned:" + fn, src, root))
    try:        # warm a typeshed cache for the generated programs (real typeshed, not the fixtures)
        X.compile_to_ir({"native.py": G.HEADER}, ["native"], os.path.join(root, "warm"), fixtures=False, want_pre=False,
                        cache_dir=os.path.join(root, "cache0"))
    except X.CompileFailure as e:
        raise ToolFailure("the fixed header of the generated programs does not compile: " + str(e))
    for j, (src, names, constructs) in enumerate(gen_progs):
        for cn in constructs:
            ctx.dist("generated_construct", cn)
        jobs.append((len(cases) + j, "gen", f"generated:{ctx.seed}:{j}", src, root))
    with Pool(NPROC) as pool:
        results = pool.map(_work, jobs, chunksize=3)
    return results


def lean_verdicts(ctx: Ctx, lines: list[str]) -> list[str]:
    if not lines:
        return []
    k = min(NPROC, max(1, len(lines) // 200))
    # balance by size
    order = sorted(range(len(lines)), key=lambda i: -len(lines[i]))
    chunks: list[list[int]] = [[] for _ in range(k)]
    load = [0] * k
    for i in order:
        j = load.index(min(load))
        chunks[j].append(i)
        load[j] += len(lines[i])
    with ThreadPoolExecutor(max_workers=k) as ex:
        outs = list(ex.map(lambda ch: ctx.lean_driver("Driver/C06.lean", [lines[i] for i in ch]), chunks))
    res = [""] * len(lines)
    for ch, out in zip(chunks, outs):
        if len(out) != len(ch):
            raise ToolFailure(f"Lean driver returned {len(out)} answers for {len(ch)} functions")
        for i, o in zip(ch, out):
            res[i] = o
    return res


def main(ctx: Ctx) -> None:
    ctx.level = "proof"
    ctx.coverage["rule"] = ("one evaluation = `checkFunc` (Lean driver) on the final IR of one function, regenerated from the "
                            "checked tree; distinct by (program, function); non-trivial = at least one refcounted value and "
                            "more than one basic block. Corpus: mypyc/test-data run-*/irbuild-*/refcount/exceptions "
                            "(quick: stratified sample, thorough: all) + generated programs on tracked objects.")
    # 1. translators + proofs
    from translate import c06_micro, ir_export
    timing: dict[str, float] = {}
    ctx.coverage["timing_s"] = timing
    t0 = time.time()

    def lap(name: str) -> None:
        nonlocal t0
        timing[name] = round(time.time() - t0, 1)
        t0 = time.time()
    if ir_export.main() != 0:
        raise ToolFailure("ir_export self-test failed")
    c06_micro.main()
    lap("translators")
    proved = ctx.prove("MypyVerif.Props.C06", MODEL_FILES)
    lap("lean_build_and_audit")
    ctx.trusted("translators translate/ir_export.py (dump of FuncIR) and translate/c06_micro.py (flattening into micro-ops; "
                "ownership metadata stolen()/is_borrowed/error_kind/is_xdec/returns_null taken from mypyc/ir/ops.py as exported — "
                "their agreement with the emitted C in emitfunc.py and lib-rt is modelled, not verified)",
                "C contracts used by the flattening: out-parameters of CPy_YieldFromErrorHandle and of the generator helper's "
                "stop_iter_ptr; NULL-tolerant arguments of CPyType_FromTemplate / CPySingledispatch_RegisterFunction; spill-slot "
                "read-back is non-NULL; vec_set_item slot takeover; KeepAlive(steal) taken from the pre-refcount IR",
                "heap contents (attributes, containers, the validity of borrowed references while `kept`) are outside the model",
                "Lean interpreter for running the verified checker on the exported IR (kernel-evaluated only on Gen/C06Sample)",
                "dynamic claims (no crash of the interpreter, no leak at run time) are searched, not proved")

    # 2. tie: export + verify.  The real builds needed later (witness module of the known findings, the generated
    #    programs of the dynamic stream) are started now and run beside the export.
    rng = ctx.rng
    gen_progs = [G.gen_program(rng, rng.randint(3, 5)) for _ in range(ctx.pick(24, 400))]
    known_build = Build(ctx, "known", {"native.py": KNOWN_MODULE}, ["native"])
    ndyn = ctx.pick(3, 8)
    dyn_builds = {f"generated:{ctx.seed}:{j}": Build(ctx, f"gen{j}", {"native.py": gen_progs[j][0], "interp.py": gen_progs[j][0]}, ["native"])
                  for j in range(min(ndyn, len(gen_progs)))}
    always = {"pinned:" + fn: (src, drv, Build(ctx, "always-" + fn[:-3], {"native.py": src}, ["native"]))
              for fn, src, drv in pinned_programs() if fn.startswith("dyn_") and drv}
    results = export_all(ctx, gen_progs)
    lap("export_ir")
    funcs: list[tuple[dict, dict]] = []
    for r in results:
        ctx.dist("program_kind", r["kind"])
        if r["error"] is not None:
            ctx.dist("program_outcome", "does-not-compile")
            continue
        ctx.dist("program_outcome", "compiled")
        for f in r["funcs"]:
            funcs.append((r, f))
    if not funcs:
        raise ToolFailure("no function could be exported")
    lines = [f["line"] for _, f in funcs if f["line"] is not None]
    verdicts = iter(lean_verdicts(ctx, lines))
    lap("lean_checkFunc")
    rejected: list[tuple[dict, dict]] = []
    nacc = nskip = 0
    disagreements = []
    for r, f in funcs:
        ctx.case((r["key"], f["name"]), nontrivial=f["nvars"] > 0 and f["nblocks"] > 1)
        ctx.dist("function_ir_ops", _size_bucket(f["nops"]))
        for c, n in f["classes"].items():
            ctx.dist("ir_op_class", c, n)
        for c, n in f["idioms"].items():
            ctx.dist("trusted_idiom", c, n)
        if f["line"] is None:
            nskip += 1
            ctx.dist("verdict", "skipped: " + str(f["unmodelled"]))
            continue
        v = next(verdicts)
        if v not in ("ok", "bad"):
            raise ToolFailure(f"Lean driver answered {v!r} for {r['key']} {f['name']}")
        if (v == "bad") != (f["bad"] is not None):
            disagreements.append((r["key"], f["name"], v))
            continue
        if v == "ok":
            nacc += 1
            ctx.dist("verdict", "accepted")
        else:
            ctx.dist("verdict", "rejected")
            rejected.append((r, f))
    if disagreements:
        raise ToolFailure("Lean checkFunc and the Python diagnostics mirror disagree on " + json.dumps(disagreements[:5]))
    ctx.count("traces_validated_against_impl", nacc + len(rejected))
    ctx.coverage["functions"] = {"accepted": nacc, "rejected": len(rejected), "skipped": nskip}
    ok_sample = next(((r, f) for r, f in funcs if f["line"] and not f["bad"] and 20 < f["nops"] < 60), None)
    if ok_sample:
        ctx.sample({"function": ok_sample[1]["name"], "program": ok_sample[0]["key"], "driver_line": ok_sample[1]["line"][:400],
                    "verdict": "ok"})

    gen_sample = next((j for j in results if j["kind"] == "gen" and j["error"] is None), None)
    if gen_sample:
        ctx.sample({"generated_program": gen_sample["key"], "functions": [f["name"] for f in gen_sample["funcs"]][:12]})

    # 3. every rejection: Lean-replayed path, classification, search
    replays = [f["replay_line"] for _, f in rejected if f.get("replay_line")]
    rep_out = iter(lean_verdicts(ctx, replays)) if replays else iter([])
    groups: dict[str, list[tuple[dict, dict]]] = collections.defaultdict(list)
    for r, f in rejected:
        f["lean_replay"] = next(rep_out) if f.get("replay_line") else "no-witness-found"
        if f["lean_replay"] not in ("replay-ok", "no-witness-found"):
            raise ToolFailure(f"witness path of {f['name']} is not accepted by replayFrom: {f['lean_replay']}")
        f["observed"] = classify(f)
        ctx.dist("rejection_class", f["observed"]["class"])
        groups[json.dumps(f["observed"], sort_keys=True)].append((r, f))
    ctx.count("disagreements_checked", len(rejected))
    n_unknown_reported = 0
    dyn_cache: dict[str, dict] = {}
    reported_programs: set[str] = set()
    pinned_drivers = {"pinned:" + fn: drv for fn, _, drv in pinned_programs()}
    for key, members in sorted(groups.items(), key=lambda kv: -len(kv[1])):
        obs = json.loads(key)
        members.sort(key=lambda rf: (rf[0]["kind"] != "gen", rf[0]["kind"] != "pinned", rf[0]["kind"] != "run", rf[1]["nops"]))
        r, f = members[0]
        detail = {"program": r["key"], "function": f["name"], "failure": f["bad"], "abstract_path_blocks": (f.get("witness") or {}).get("labels"),
                  "witness": f.get("witness"), "lean_replay": f["lean_replay"], "ir": f["pretty"], "source": f["source"],
                  "files": f.get("files", {}), "program_kind": r["kind"], "driver_line": f["line"],
                  "same_class_functions": len(members), "other_members": [m[1]["name"] for m in members[1:6]]}
        what = (f"checkFunc rejects {f['name']} ({r['key']}): {f['bad'].get('micro_op')} with value {f['bad'].get('value')} "
                f"at block {f['bad']['where'][0]} ({f['bad'].get('ir_op')} {f['bad'].get('ir_function') or ''}); "
                f"{len(members)} function(s) in this class")
        if obs["class"] in KNOWN_DRIVERS and ctx.match_known(obs) is not None:
            dyn = run_known_recipe(known_build, obs["class"])
            detail["dynamic"] = dyn
            obs2 = dict(obs, dynamic=dyn["result"])
            ctx.report(obs2, what + f"; witness program: {dyn['result']}", detail)
            continue
        if n_unknown_reported >= 4:
            continue
        n_unknown_reported += 1
        found = None
        cands, seen_prog = [], set()
        for rr, ff in members:
            if rr["key"] in seen_prog:
                continue
            if rr["kind"] in ("gen", "run") or (rr["kind"] == "pinned" and pinned_drivers.get(rr["key"])):
                seen_prog.add(rr["key"])
                cands.append((rr, ff))
            if len(cands) >= 2:
                break
        for rr, ff in cands:
            tag = f"dyn{n_unknown_reported}-{len(detail.get('tried', []))}"
            if rr["key"] in dyn_cache:
                dyn = dyn_cache[rr["key"]]
            elif rr["kind"] == "gen":
                # the driver calls every generated entry point f<i>; helpers are reached through them
                entry = [g["short"] for g in rr["funcs"] if g["short"] and g["short"][0] == "f" and g["short"][1:].isdigit()]
                dyn = dynamic_generated(ctx, tag, ff["source"], entry, reps=ctx.pick(30, 300), build=dyn_builds.get(rr["key"]))
            elif rr["kind"] == "pinned":
                dyn = dynamic_pinned(ctx, tag, ff["source"], pinned_drivers[rr["key"]])
            else:
                dyn = dynamic_corpus(ctx, tag, ff["source"], ff.get("files", {}))
            dyn_cache[rr["key"]] = dyn
            detail.setdefault("tried", []).append({"program": rr["key"], "function": ff["name"], "result": dyn})
            if dyn.get("failures"):
                found = (rr, ff, dyn)
                break
        if found:
            rr, ff, dyn = found
            fail = dyn["failures"][0]
            reported_programs.add(rr["key"])
            detail.update({"program": rr["key"], "function": ff["name"], "source": ff["source"], "dynamic": dyn,
                           "program_kind": rr["kind"], "ir": ff["pretty"], "failure": ff["bad"], "witness": ff.get("witness")})
            ctx.report(dict(obs, dynamic=fail["class"]),
                       what + f"; compiled for real: {fail['class']} {json.dumps({k: v for k, v in fail.items() if k != 'class'})[:200]}",
                       detail)
        elif f["lean_replay"] == "replay-ok":
            # the failing input is the function's final IR together with a path of the ownership semantics on which
            # it gets stuck (re-checked by the Lean driver's replayFrom); no run-time misbehaviour was provoked
            ctx.report(dict(obs, dynamic="not-reproduced"),
                       what + f"; failing input = final IR + path through blocks {(f.get('witness') or {}).get('labels')} "
                       "(replayed in the Lean semantics); the compiled module did not misbehave on the inputs tried", detail)
        else:
            ctx.violation(what + "; no concrete path found and the compiled module did not misbehave on the inputs tried",
                          dict(detail, broken="checkFunc (Driver/C06) on the regenerated final IR", observed=obs), found_input=False)

    # known finding that only shows at run time (C runtime, outside the IR): checked on every run
    dyn = run_known_recipe(known_build, "stealing-primitive-leaks-on-error")
    ctx.dist("known_dynamic_recipe", "stealing-primitive-leaks-on-error: " + dyn["result"])
    if dyn["result"] == "leak":
        ctx.report({"class": "stealing-primitive-leaks-on-error", "primitive": "CPyList_SetItem", "dynamic": "leak"},
                   "`lst[i] = v` with an index out of range keeps one reference to v per failure (" + dyn["output"].strip()[-40:] + ")",
                   {"dynamic": dyn, "program_kind": "known-dynamic"})
    lap("rejections_and_search")
    # 4. dynamic stream: generated programs compiled for real (started before the export), run on tracked objects
    #    under the debug allocator, compared with the interpreter on unassigned-local / attribute errors
    def _dyn(item: tuple[str, Build]) -> tuple[str, dict]:
        key, b = item
        if key in dyn_cache:
            return key, dyn_cache[key]
        j = int(key.rsplit(":", 1)[1])
        return key, dynamic_generated(ctx, "gen%d" % j, gen_progs[j][0], gen_progs[j][1], ctx.pick(20, 60), build=b)
    with ThreadPoolExecutor(max_workers=3) as ex:
        dyn_res = list(ex.map(_dyn, dyn_builds.items()))
    for key, dyn in dyn_res:
        ctx.dist("dynamic_stream", "built" if dyn.get("built") else "build-failed")
        ctx.count("dynamic_calls", dyn.get("calls", 0))
        j = int(key.rsplit(":", 1)[1])
        if dyn.get("failures") and key not in reported_programs:
            fail = dyn["failures"][0]
            ctx.report({"class": "dynamic-" + fail["class"]},
                       f"generated program {key} misbehaves when compiled: {json.dumps(fail)[:300]}",
                       {"source": gen_progs[j][0], "failure": fail, "program_kind": "gen-dynamic", "functions": gen_progs[j][1],
                        "dynamic": dyn})
    for key, (src, drv, b) in always.items():
        d, log = b.wait()
        if d is None:
            ctx.dist("dynamic_stream", "always-run program: build-failed")
            if key not in reported_programs and ctx.violations:
                continue
            raise ToolFailure(f"the always-run program {key} does not build: {log[-300:]}")
        rc, out = run_py(d, drv, [], timeout=300)
        ctx.dist("dynamic_stream", "always-run program: " + ("ok" if rc == 0 else "failed"))
        if rc < 0 or rc in (134, 139) or (rc != 0 and "PROBLEM" in out):
            ctx.report({"class": "dynamic-object-lifecycle", "program": key},
                       f"{key}: " + (out.strip().splitlines()[-1][:200] if out.strip() else f"exit {rc}") + f" (exit {rc})",
                       {"source": src, "program_kind": "pinned", "dynamic": {"program": src, "driver": drv, "exit_code": rc, "output": out[-400:]}})
        elif rc != 0:
            raise ToolFailure(f"driver of {key} failed: {out[-300:]}")
    lap("dynamic_stream")

    if not proved and not ctx.violations:
        ctx.violation("Lean development for C06 no longer builds (Props/C06 over the regenerated Gen/C06Sample)",
                      {"broken": ctx.broken_ties}, found_input=False)


# ------------------------------------------------------------------------------------- replay
def replay(ctx: Ctx, path: str) -> int:
    """Recompile the recorded program with the checked tree, re-evaluate checkFunc and the witness on the recorded
    function, and re-run the dynamic witness if there is one."""
    from translate import c06_micro as M
    from translate import ir_export as X
    body = json.load(open(path))
    det = body["replay"].get("detail", body["replay"])
    src = det.get("source")
    if src is None:
        print(json.dumps(det, indent=1)[:3000])
        return 0
    kind = det.get("program_kind")
    wd = os.path.join(ctx.tmp, "replay")
    try:
        if kind in ("gen", "gen-dynamic", "pinned"):
            mods, side = X.compile_to_ir({"native.py": src}, ["native"], wd, fixtures=False, want_pre=False)
        else:
            case = X.Case("<replay>", det.get("program", "replay"), src, det.get("files", {}), kind or "run")
            mods, side = X.compile_case(case, wd, want_pre=False)
    except X.CompileFailure as e:
        print("program no longer compiles:", e)
        return 2
    rc = 0
    for rec in X.export_modules(mods, side):
        if rec["fullname"] != det.get("function"):
            continue
        m = M.flatten(rec["final"])
        print(X.pretty(rec["final"]))
        if m.unmodelled:
            print("unmodelled:", m.unmodelled)
            continue
        v = ctx.lean_driver("Driver/C06.lean", [M.line_check(m)])[0]
        print("checkFunc:", v)
        if v == "bad":
            rc = 1
            bad = M.check(m)
            if bad:
                print("failure:", json.dumps(M.describe_failure(m, rec["final"], bad)))
            w = M.concrete_witness(m)
            if w:
                print("witness path (blocks):", w["labels"], "replayFrom:",
                      ctx.lean_driver("Driver/C06.lean", [M.line_replay(m, w)])[0])
    dyn = det.get("dynamic")
    if isinstance(dyn, dict) and "driver" in dyn:
        d, log = real_build(ctx, "replay-dyn", {"native.py": dyn.get("program", src)}, ["native"])
        if d:
            code, out = run_py(d, dyn["driver"], [])
            print("dynamic witness exit code:", code, out[-200:])
            if code < 0:
                rc = 1
    elif kind in ("gen", "gen-dynamic") and isinstance(dyn, dict):
        fn = det.get("function", "").split(".")[-1]
        names = det.get("functions") or [fn]
        res = dynamic_generated(ctx, "replay-dyn", src, names, 30)
        print("dynamic:", json.dumps(res.get("failures"))[:1500])
        if res.get("failures"):
            rc = 1
    return rc
