"""C06 — compiled code is memory safe: balanced reference counts, no undefined reads.

1. Lean: `Props/C06.lean` — `checkFunc_sound` (the verified ownership checker), its corollaries, the refuted
   witnesses, and the kernel-evaluated sample of real IR (`Gen/C06Sample.lean`, regenerated first).
2. Tie (translator, every run): the final IR of every function of (a sample of / all) the mypyc test corpus and of
   generated programs is regenerated from the checked tree's mypyc (`translate/ir_export.py`), flattened into
   ownership micro-ops (`translate/c06_micro.py`) and `checkFunc` is evaluated on all of it by the Lean driver.
   Functions outside the modelled fragment are counted as `skipped:<reason>`, never accepted.
3. Search: every rejected function gets a concrete path of the ownership semantics (re-checked by the Lean
   driver's `replayFrom`); the rejection is then concretised — the module is compiled for real and run on tracked
   objects (live-instance counts, `sys.getrefcount` of the arguments, process signals).  Found ⇒ `ctx.report`
   with program + arguments; not found ⇒ `ctx.violation(..., found_input=False)`.
"""
from __future__ import annotations

import collections
import json
import os
import shutil
import subprocess
import sys
import time
from concurrent.futures import ThreadPoolExecutor
from multiprocessing import Pool
from typing import Any

from harness.vlib.core import Ctx, PY, REPO, ToolFailure, repo_env
from harness.c06 import gen as G

MODEL_FILES = ["MypyVerif/Model/IR.lean", "MypyVerif/Model/Ownership.lean", "MypyVerif/Proofs/Ownership.lean",
               "MypyVerif/Gen/C06Sample.lean"]
NPROC = 6


# ------------------------------------------------------------------------------------- export workers
def _size_bucket(n: int) -> str:
    for b in (10, 30, 100, 300, 1000, 3000):
        if n <= b:
            return f"<={b}"
    return ">3000"


def _work(job: tuple) -> dict:
    """Compile one program to IR with the checked tree and flatten every function (runs in a worker process)."""
    from translate import c06_micro as M
    from translate import ir_export as X
    idx, kind, key, payload, root = job
    wd = os.path.join(root, f"p{os.getpid()}", f"c{idx}")
    out: dict[str, Any] = {"key": key, "kind": kind, "error": None, "funcs": []}
    t_start = time.time()
    devnull = os.open(os.devnull, os.O_WRONLY)
    sys.stdout.flush()
    sys.stderr.flush()
    saved, saved1 = os.dup(2), os.dup(1)
    os.dup2(devnull, 2)                       # mypy/mypyc print tracebacks of their own crashes
    os.dup2(devnull, 1)
    try:
        if kind in ("gen", "pinned"):
            cache = os.path.join(root, f"p{os.getpid()}", "cache")
            if not os.path.isdir(cache) and os.path.isdir(os.path.join(root, "cache0")):
                shutil.copytree(os.path.join(root, "cache0"), cache)      # typeshed, warmed once by the parent
            mods, side = X.compile_to_ir({"native.py": payload}, ["native"], wd, fixtures=False, want_pre=False,
                                         cache_dir=cache)
            source = payload
        else:
            mods, side = X.compile_case(payload, wd, want_pre=False)
            source = payload.main
        out["t_compile"] = time.time() - t_start
        for rec in X.export_modules(mods, side):
            fd = rec["final"]
            m = M.flatten(fd)
            classes = collections.Counter()
            nops = 0
            for b in fd.get("blocks", []):
                for op in b["ops"]:
                    classes[op["op"]] += 1
                    nops += 1
            f: dict[str, Any] = {"name": fd.get("fullname", "?"), "short": fd.get("name"), "unmodelled": m.unmodelled,
                                 "idioms": m.idioms, "classes": dict(classes), "nops": nops, "nvars": m.nvars,
                                 "nblocks": len(m.blocks), "line": None, "bad": None}
            if not m.unmodelled:
                f["line"] = M.line_check(m)
                bad = M.check(m)
                if bad is not None:
                    f["bad"] = M.describe_failure(m, fd, bad)
                    w = M.concrete_witness(m)
                    f["witness"] = w
                    f["replay_line"] = M.line_replay(m, w) if w is not None else None
                    f["pretty"] = X.pretty(fd)
                    f["last_writer_block"] = _last_writer(m, w, bad[2]) if w is not None else None
                    f["source"] = source
                    f["files"] = dict(payload.files) if kind not in ("gen", "pinned") else {}
            out["funcs"].append(f)
    except X.CompileFailure as e:
        out["error"] = str(e)[:200]
    finally:
        sys.stdout.flush()
        sys.stderr.flush()
        os.dup2(saved, 2)
        os.dup2(saved1, 1)
        os.close(saved)
        os.close(saved1)
        os.close(devnull)
        shutil.rmtree(wd, ignore_errors=True)
    out["t_total"] = time.time() - t_start
    return out


def _last_writer(m: Any, w: dict, var: int) -> int | None:
    """Index (into the witness path) of the last block before the failure that writes `var`."""
    from translate import c06_micro as M
    last = None
    for pos, l in enumerate(w["labels"][:-1]):
        blk = m.blocks[l]
        ops = list(blk["ops"])
        if blk["term"][0] == "br":
            for e in blk["term"][1]:
                ops += e[0]
        if any((op[0] in (M.DEFINE, M.MOVE) and op[1] == var) for op in ops):
            last = pos
    return last


# ------------------------------------------------------------------------------------- real builds (search)
def real_build(ctx: Ctx, name: str, files: dict[str, str], modules: list[str]) -> tuple[str | None, str]:
    """`python -m mypyc` of the checked tree in a scratch dir.  (dir or None, log)"""
    d = os.path.join(ctx.tmp, "real", name)
    os.makedirs(d, exist_ok=True)
    for rel, text in files.items():
        p = os.path.join(d, rel)
        os.makedirs(os.path.dirname(p), exist_ok=True)
        with open(p, "w") as f:
            f.write(text)
    try:
        p = subprocess.run([PY, "-m", "mypyc"] + [m.replace(".", "/") + ".py" for m in modules], cwd=d,
                           env=repo_env(), capture_output=True, text=True, timeout=600)
    except subprocess.TimeoutExpired:
        return None, "mypyc build timed out"
    if p.returncode != 0:
        return None, (p.stdout + p.stderr)[-1500:]
    return d, ""


def run_py(d: str, script: str, args: list[str], timeout: int = 120) -> tuple[int, str]:
    with open(os.path.join(d, "_drv.py"), "w") as f:
        f.write(script)
    try:
        p = subprocess.run([PY, "_drv.py"] + args, cwd=d, env=repo_env(), capture_output=True, text=True, timeout=timeout)
    except subprocess.TimeoutExpired:
        return 0, "TIMEOUT"            # inconclusive, never counted as a crash
    return p.returncode, p.stdout + p.stderr[-800:]


KNOWN_RECIPES = {
    "generator-close-null-GeneratorExit": (
        "from typing import Iterator\ndef gen(n: int) -> Iterator[int]:\n    for i in range(n):\n        yield i\n",
        "import native, builtins\ng = native.gen(3)\nnext(g)\ndel builtins.GeneratorExit\ndel builtins.StopIteration\n"
        "g.close()\nprint('survived')\n"),
    "temp-register-lost-across-yield": (
        "import asyncio\nfrom typing import Any\nasync def one(x: Any) -> Any:\n    await asyncio.sleep(0)\n    return x\n"
        "async def both(a: Any, b: Any) -> Any:\n    return await one(a) + await one(b)\n",
        "import asyncio, native\nprint(asyncio.run(native.both(1, 2)))\n"),
}


def run_known_recipe(ctx: Ctx, cls: str) -> dict:
    src, drv = KNOWN_RECIPES[cls]
    d, log = real_build(ctx, "known-" + cls, {"native.py": src}, ["native"])
    if d is None:       # e.g. the C compiler rejects what a broken tree emits: no dynamic witness, not a tool failure
        return {"program": src, "driver": drv, "exit_code": None, "signal": None, "output": "", "build_failed": log[-400:]}
    rc, out = run_py(d, drv, [])
    return {"program": src, "driver": drv, "exit_code": rc, "signal": -rc if rc < 0 else None, "output": out[-300:]}


def dynamic_generated(ctx: Ctx, tag: str, source: str, fnames: list[str], reps: int) -> dict:
    """Compile a generated module for real, call the functions on tracked objects (compiled and interpreted)."""
    d, log = real_build(ctx, tag, {"native.py": source, "interp.py": source}, ["native"])
    if d is None:
        return {"built": False, "log": log}
    res: dict[str, Any] = {"built": True, "failures": [], "calls": 0}
    rc, out = run_py(d, G.DRIVER, ["native", ",".join(fnames), str(reps)], timeout=300)
    rows = [json.loads(l) for l in out.splitlines() if l.startswith("{")]
    res["calls"] = len(rows)
    if rc < 0 or rc in (134, 139):
        last = rows[-1] if rows else None
        res["failures"].append({"class": "crash", "exit_code": rc, "signal": -rc if rc < 0 else rc - 128,
                                "after_call": last, "tail": out[-300:]})
    elif rc != 0:
        res["driver_error"] = out[-400:]
    for r in rows:
        if "leaked" in r:
            res["failures"].append(dict(r, **{"class": "refcount-imbalance"}))
    rc2, out2 = run_py(d, G.DRIVER, ["interp", ",".join(fnames), "1"], timeout=300)
    irows = {(r["fn"], r["n"], r["flag"], r["o"]): r["kind"] for r in (json.loads(l) for l in out2.splitlines() if l.startswith("{"))}
    for r in rows:
        k = irows.get((r["fn"], r["n"], r["flag"], r["o"]))
        und = ("UnboundLocalError", "AttributeError")
        if k is not None and (k in und or r["kind"] in und) and k != r["kind"]:
            res["failures"].append(dict(r, **{"class": "undefined-read-differs", "interpreted": k}))
    return res


LEAK_LOOP = r'''
import gc, sys, importlib
mod = importlib.import_module("native")
tests = [getattr(mod, n) for n in sorted(dir(mod)) if n.startswith("test_") and callable(getattr(mod, n))]
def run_all():
    for t in tests:
        try:
            t()
        except BaseException:
            pass
for _ in range(3):
    run_all()
gc.collect()
sizes = []
for batch in range(4):
    for _ in range(50):
        run_all()
    gc.collect()
    sizes.append(sys.getallocatedblocks())
print("TESTS", len(tests), "BLOCKS", sizes)
'''


def dynamic_corpus(ctx: Ctx, tag: str, source: str, files: dict[str, str]) -> dict:
    """A run-*.test program: compile, run its test_* functions repeatedly, watch allocated blocks and signals."""
    fs = {"native.py": source}
    for fn, text in files.items():
        fn = fn[4:] if fn.startswith("tmp/") else fn
        if fn.endswith(".py") and fn != "driver.py":
            fs[fn] = text
    tu = os.path.join(REPO, "mypyc", "test-data", "fixtures", "testutil.py")
    if os.path.exists(tu):
        fs.setdefault("testutil.py", open(tu).read())
    d, log = real_build(ctx, tag, fs, ["native"])
    if d is None:
        return {"built": False, "log": log}
    rc, out = run_py(d, LEAK_LOOP, [], timeout=120)
    res: dict[str, Any] = {"built": True, "failures": [], "output": out[-300:]}
    if rc < 0 or rc in (134, 139):
        res["failures"].append({"class": "crash", "exit_code": rc, "signal": -rc if rc < 0 else None})
    for line in out.splitlines():
        if line.startswith("TESTS"):
            sizes = json.loads(line.split("BLOCKS", 1)[1])
            ntests = int(line.split()[1])
            d1, d2, d3 = sizes[1] - sizes[0], sizes[2] - sizes[1], sizes[3] - sizes[2]
            if ntests and min(d1, d2, d3) >= 50:        # ≥ 1 block per iteration, in every batch
                res["failures"].append({"class": "refcount-imbalance", "allocated_blocks_after_each_50_runs": sizes})
    return res


# ------------------------------------------------------------------------------------- classification
def classify(f: dict) -> dict:
    """`observed` dict of a rejection, from its raw description (nothing is filtered)."""
    b = f["bad"]
    obs: dict[str, Any] = {"class": "ownership-check-rejects", "micro_op": b.get("micro_kind"), "ir_op": b.get("ir_op"),
                           "value": b.get("value")}
    vd = b.get("var_def") or {}
    if f["short"] == "close" and b.get("value") == "N" and vd.get("op") == "CallC" and vd.get("function") == "CPyObject_GetAttr" \
            and vd.get("args") == ["static:module:builtins", "literal:'GeneratorExit'"]:
        obs.update({"class": "generator-close-null-GeneratorExit", "function": "close",
                    "value_def": "CPyObject_GetAttr(builtins, 'GeneratorExit')"})
    elif f["short"] == "__mypyc_generator_helper__" and b.get("value") == "N" and b.get("var_kind") == "reg" \
            and not b.get("var_named") and f.get("last_writer_block") == 0 and b.get("micro_kind") in ("use", "steal", "incref", "decref"):
        obs.update({"class": "temp-register-lost-across-yield", "function": "__mypyc_generator_helper__",
                    "origin": "entry-block re-initialisation to the error value"})
    return obs


# ------------------------------------------------------------------------------------- main
def export_all(ctx: Ctx) -> list[dict]:
    from translate import ir_export as X
    rng = ctx.rng
    cases = X.corpus_cases(REPO)
    ctx.coverage["corpus_cases_total"] = len(cases)
    if ctx.quick():
        # stratified sample: every file contributes
        by_file: dict[str, list] = collections.defaultdict(list)
        for c in cases:
            by_file[c.file].append(c)
        want = 170
        picked = []
        files = sorted(by_file)
        for fl in files:
            cs = by_file[fl]
            k = max(1, round(want * len(cs) / len(cases)))
            picked += rng.sample(cs, min(k, len(cs)))
        cases = picked
    root = os.path.join(ctx.tmp, "ir")
    os.makedirs(root, exist_ok=True)
    X.fixture_lib_dir(root)
    jobs: list[tuple] = []
    for i, c in enumerate(cases):
        jobs.append((i, c.kind, c.key, c, root))
    # pinned programs (minimised past findings + must-accept shapes): always checked, real typeshed
    cdir = os.path.join(os.path.dirname(os.path.dirname(os.path.dirname(os.path.abspath(__file__)))), "corpus", "c06")
    pinned = sorted(f for f in os.listdir(cdir) if f.endswith(".py")) if os.path.isdir(cdir) else []
    for j, fn in enumerate(pinned):
        jobs.append((100000 + j, "pinned", "pinned:" + fn, open(os.path.join(cdir, fn)).read(), root))
    nprog = ctx.pick(20, 400)
    try:        # warm a typeshed cache for the generated programs (real typeshed, not the fixtures)
        X.compile_to_ir({"native.py": G.HEADER}, ["native"], os.path.join(root, "warm"), fixtures=False, want_pre=False,
                        cache_dir=os.path.join(root, "cache0"))
    except X.CompileFailure as e:
        raise ToolFailure("the fixed header of the generated programs does not compile: " + str(e))
    for j in range(nprog):
        src, names, constructs = G.gen_program(rng, rng.randint(3, 5))
        for cn in constructs:
            ctx.dist("generated_construct", cn)
        jobs.append((len(cases) + j, "gen", f"generated:{ctx.seed}:{j}", src, root))
    with Pool(NPROC) as pool:
        results = pool.map(_work, jobs, chunksize=3)
    return results


def lean_verdicts(ctx: Ctx, lines: list[str]) -> list[str]:
    if not lines:
        return []
    k = min(NPROC, max(1, len(lines) // 200))
    # balance by size
    order = sorted(range(len(lines)), key=lambda i: -len(lines[i]))
    chunks: list[list[int]] = [[] for _ in range(k)]
    load = [0] * k
    for i in order:
        j = load.index(min(load))
        chunks[j].append(i)
        load[j] += len(lines[i])
    with ThreadPoolExecutor(max_workers=k) as ex:
        outs = list(ex.map(lambda ch: ctx.lean_driver("Driver/C06.lean", [lines[i] for i in ch]), chunks))
    res = [""] * len(lines)
    for ch, out in zip(chunks, outs):
        if len(out) != len(ch):
            raise ToolFailure(f"Lean driver returned {len(out)} answers for {len(ch)} functions")
        for i, o in zip(ch, out):
            res[i] = o
    return res


def main(ctx: Ctx) -> None:
    ctx.level = "proof"
    ctx.coverage["rule"] = ("one evaluation = `checkFunc` (Lean driver) on the final IR of one function, regenerated from the "
                            "checked tree; distinct by (program, function); non-trivial = at least one refcounted value and "
                            "more than one basic block. Corpus: mypyc/test-data run-*/irbuild-*/refcount/exceptions "
                            "(quick: stratified sample, thorough: all) + generated programs on tracked objects.")
    # 1. translators + proofs
    from translate import c06_micro, ir_export
    timing: dict[str, float] = {}
    ctx.coverage["timing_s"] = timing
    t0 = time.time()

    def lap(name: str) -> None:
        nonlocal t0
        timing[name] = round(time.time() - t0, 1)
        t0 = time.time()
    if ir_export.main() != 0:
        raise ToolFailure("ir_export self-test failed")
    c06_micro.main()
    lap("translators")
    proved = ctx.prove("MypyVerif.Props.C06", MODEL_FILES)
    lap("lean_build_and_audit")
    ctx.trusted("translators translate/ir_export.py (dump of FuncIR) and translate/c06_micro.py (flattening into micro-ops; "
                "ownership metadata stolen()/is_borrowed/error_kind/is_xdec/returns_null taken from mypyc/ir/ops.py as exported — "
                "their agreement with the emitted C in emitfunc.py and lib-rt is modelled, not verified)",
                "C contracts used by the flattening: out-parameters of CPy_YieldFromErrorHandle and of the generator helper's "
                "stop_iter_ptr; NULL-tolerant arguments of CPyType_FromTemplate / CPySingledispatch_RegisterFunction; spill-slot "
                "read-back is non-NULL; vec_set_item slot takeover; KeepAlive(steal) taken from the pre-refcount IR",
                "heap contents (attributes, containers, the validity of borrowed references while `kept`) are outside the model",
                "Lean interpreter for running the verified checker on the exported IR (kernel-evaluated only on Gen/C06Sample)",
                "dynamic claims (no crash of the interpreter, no leak at run time) are searched, not proved")

    # 2. tie: export + verify
    results = export_all(ctx)
    lap("export_ir")
    funcs: list[tuple[dict, dict]] = []
    for r in results:
        ctx.dist("program_kind", r["kind"])
        if r["error"] is not None:
            ctx.dist("program_outcome", "does-not-compile")
            continue
        ctx.dist("program_outcome", "compiled")
        for f in r["funcs"]:
            funcs.append((r, f))
    if not funcs:
        raise ToolFailure("no function could be exported")
    lines = [f["line"] for _, f in funcs if f["line"] is not None]
    verdicts = iter(lean_verdicts(ctx, lines))
    lap("lean_checkFunc")
    rejected: list[tuple[dict, dict]] = []
    nacc = nskip = 0
    disagreements = []
    for r, f in funcs:
        ctx.case((r["key"], f["name"]), nontrivial=f["nvars"] > 0 and f["nblocks"] > 1)
        ctx.dist("function_ir_ops", _size_bucket(f["nops"]))
        for c, n in f["classes"].items():
            ctx.dist("ir_op_class", c, n)
        for c, n in f["idioms"].items():
            ctx.dist("trusted_idiom", c, n)
        if f["line"] is None:
            nskip += 1
            ctx.dist("verdict", "skipped: " + str(f["unmodelled"]))
            continue
        v = next(verdicts)
        if v not in ("ok", "bad"):
            raise ToolFailure(f"Lean driver answered {v!r} for {r['key']} {f['name']}")
        if (v == "bad") != (f["bad"] is not None):
            disagreements.append((r["key"], f["name"], v))
            continue
        if v == "ok":
            nacc += 1
            ctx.dist("verdict", "accepted")
        else:
            ctx.dist("verdict", "rejected")
            rejected.append((r, f))
    if disagreements:
        raise ToolFailure("Lean checkFunc and the Python diagnostics mirror disagree on " + json.dumps(disagreements[:5]))
    ctx.count("traces_validated_against_impl", nacc + len(rejected))
    ctx.coverage["functions"] = {"accepted": nacc, "rejected": len(rejected), "skipped": nskip}
    ok_sample = next(((r, f) for r, f in funcs if f["line"] and not f["bad"] and 20 < f["nops"] < 60), None)
    if ok_sample:
        ctx.sample({"function": ok_sample[1]["name"], "program": ok_sample[0]["key"], "driver_line": ok_sample[1]["line"][:400],
                    "verdict": "ok"})

    gen_sample = next((j for j in results if j["kind"] == "gen" and j["error"] is None), None)
    if gen_sample:
        ctx.sample({"generated_program": gen_sample["key"], "functions": [f["name"] for f in gen_sample["funcs"]][:12]})

    # 3. every rejection: Lean-replayed path, classification, search
    replays = [f["replay_line"] for _, f in rejected if f.get("replay_line")]
    rep_out = iter(lean_verdicts(ctx, replays)) if replays else iter([])
    groups: dict[str, list[tuple[dict, dict]]] = collections.defaultdict(list)
    for r, f in rejected:
        f["lean_replay"] = next(rep_out) if f.get("replay_line") else "no-witness-found"
        if f["lean_replay"] not in ("replay-ok", "no-witness-found"):
            raise ToolFailure(f"witness path of {f['name']} is not accepted by replayFrom: {f['lean_replay']}")
        f["observed"] = classify(f)
        ctx.dist("rejection_class", f["observed"]["class"])
        groups[json.dumps(f["observed"], sort_keys=True)].append((r, f))
    ctx.count("disagreements_checked", len(rejected))
    n_unknown_reported = 0
    dyn_cache: dict[str, dict] = {}
    for key, members in sorted(groups.items(), key=lambda kv: -len(kv[1])):
        obs = json.loads(key)
        members.sort(key=lambda rf: (rf[0]["kind"] != "gen", rf[0]["kind"] != "pinned", rf[0]["kind"] != "run", rf[1]["nops"]))
        r, f = members[0]
        detail = {"program": r["key"], "function": f["name"], "failure": f["bad"], "abstract_path_blocks": (f.get("witness") or {}).get("labels"),
                  "witness": f.get("witness"), "lean_replay": f["lean_replay"], "ir": f["pretty"], "source": f["source"],
                  "files": f.get("files", {}), "program_kind": r["kind"], "driver_line": f["line"],
                  "same_class_functions": len(members), "other_members": [m[1]["name"] for m in members[1:6]]}
        what = (f"checkFunc rejects {f['name']} ({r['key']}): {f['bad'].get('micro_op')} with value {f['bad'].get('value')} "
                f"at block {f['bad']['where'][0]} ({f['bad'].get('ir_op')} {f['bad'].get('ir_function') or ''}); "
                f"{len(members)} function(s) in this class")
        if obs["class"] in KNOWN_RECIPES:
            dyn = run_known_recipe(ctx, obs["class"])
            detail["dynamic"] = dyn
            obs2 = dict(obs, dynamic="SIGSEGV" if dyn["signal"] == 11 else
                        ("witness-build-failed" if dyn.get("build_failed") else f"exit {dyn['exit_code']}"))
            ctx.report(obs2, what + f"; witness program ends with {obs2['dynamic']}", detail)
            continue
        if n_unknown_reported >= 3:
            continue
        n_unknown_reported += 1
        found = None
        cands, seen_prog = [], set()
        for rr, ff in members:
            if rr["key"] not in seen_prog and rr["kind"] in ("gen", "run"):
                seen_prog.add(rr["key"])
                cands.append((rr, ff))
            if len(cands) >= 2:
                break
        for rr, ff in cands:
            tag = f"dyn{n_unknown_reported}-{len(detail.get('tried', []))}"
            if rr["key"] in dyn_cache:
                dyn = dyn_cache[rr["key"]]
            elif rr["kind"] == "gen":
                # the driver calls every generated entry point f<i>; helpers are reached through them
                entry = [g["short"] for g in rr["funcs"] if g["short"] and g["short"][0] == "f" and g["short"][1:].isdigit()]
                dyn = dynamic_generated(ctx, tag, ff["source"], entry, reps=ctx.pick(30, 300))
            else:
                dyn = dynamic_corpus(ctx, tag, ff["source"], ff.get("files", {}))
            dyn_cache[rr["key"]] = dyn
            detail.setdefault("tried", []).append({"program": rr["key"], "function": ff["name"], "result": dyn})
            if dyn.get("failures"):
                found = (rr, ff, dyn)
                break
        if found:
            rr, ff, dyn = found
            fail = dyn["failures"][0]
            detail.update({"program": rr["key"], "function": ff["name"], "source": ff["source"], "dynamic": dyn})
            ctx.report(dict(obs, dynamic=fail["class"]),
                       what + f"; compiled for real: {fail['class']} {json.dumps({k: v for k, v in fail.items() if k != 'class'})[:200]}",
                       detail)
        else:
            ctx.violation(what + "; the compiled module did not misbehave on the inputs tried",
                          dict(detail, broken="checkFunc (Driver/C06) on the regenerated final IR", observed=obs), found_input=False)

    lap("rejections_and_search")
    # 4. thorough: pure search on generated programs (dynamic part of the property)
    if not ctx.quick():
        import random
        rng2 = random.Random(f"C06-dyn:{ctx.seed}")
        progs = [G.gen_program(rng2, 4) for _ in range(6)]
        with ThreadPoolExecutor(max_workers=3) as ex:
            dyn_res = list(ex.map(lambda a: dynamic_generated(ctx, f"search{a[0]}", a[1][0], a[1][1], 40), enumerate(progs)))
        for (src, names, _), dyn in zip(progs, dyn_res):
            ctx.dist("dynamic_search", "built" if dyn.get("built") else "build-failed")
            ctx.count("dynamic_calls", dyn.get("calls", 0))
            for fail in dyn.get("failures", []):
                ctx.report({"class": "dynamic-" + fail["class"]},
                           f"generated program misbehaves when compiled: {json.dumps(fail)[:300]}",
                           {"source": src, "failure": fail, "program_kind": "gen-dynamic", "functions": names, "dynamic": dyn})
                break
        lap("dynamic_search")

    if not proved and not ctx.violations:
        ctx.violation("Lean development for C06 no longer builds (Props/C06 over the regenerated Gen/C06Sample)",
                      {"broken": ctx.broken_ties}, found_input=False)


# ------------------------------------------------------------------------------------- replay
def replay(ctx: Ctx, path: str) -> int:
    """Recompile the recorded program with the checked tree, re-evaluate checkFunc and the witness on the recorded
    function, and re-run the dynamic witness if there is one."""
    from translate import c06_micro as M
    from translate import ir_export as X
    body = json.load(open(path))
    det = body["replay"].get("detail", body["replay"])
    src = det.get("source")
    if src is None:
        print(json.dumps(det, indent=1)[:3000])
        return 0
    kind = det.get("program_kind")
    wd = os.path.join(ctx.tmp, "replay")
    try:
        if kind in ("gen", "gen-dynamic", "pinned"):
            mods, side = X.compile_to_ir({"native.py": src}, ["native"], wd, fixtures=False, want_pre=False)
        else:
            case = X.Case("<replay>", det.get("program", "replay"), src, det.get("files", {}), kind or "run")
            mods, side = X.compile_case(case, wd, want_pre=False)
    except X.CompileFailure as e:
        print("program no longer compiles:", e)
        return 2
    rc = 0
    for rec in X.export_modules(mods, side):
        if rec["fullname"] != det.get("function"):
            continue
        m = M.flatten(rec["final"])
        print(X.pretty(rec["final"]))
        if m.unmodelled:
            print("unmodelled:", m.unmodelled)
            continue
        v = ctx.lean_driver("Driver/C06.lean", [M.line_check(m)])[0]
        print("checkFunc:", v)
        if v == "bad":
            rc = 1
            bad = M.check(m)
            if bad:
                print("failure:", json.dumps(M.describe_failure(m, rec["final"], bad)))
            w = M.concrete_witness(m)
            if w:
                print("witness path (blocks):", w["labels"], "replayFrom:",
                      ctx.lean_driver("Driver/C06.lean", [M.line_replay(m, w)])[0])
    dyn = det.get("dynamic")
    if isinstance(dyn, dict) and "driver" in dyn:
        d, log = real_build(ctx, "replay-dyn", {"native.py": dyn["program"]}, ["native"])
        if d:
            code, out = run_py(d, dyn["driver"], [])
            print("dynamic witness exit code:", code, out[-200:])
            if code < 0:
                rc = 1
    elif kind in ("gen", "gen-dynamic") and isinstance(dyn, dict):
        fn = det.get("function", "").split(".")[-1]
        names = det.get("functions") or [fn]
        res = dynamic_generated(ctx, "replay-dyn", src, names, 30)
        print("dynamic:", json.dumps(res.get("failures"))[:1500])
        if res.get("failures"):
            rc = 1
    return rc
