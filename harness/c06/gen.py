"""C06 program generator: mypyc-compilable modules that exercise reference counting on *tracked* objects.

Every function has the signature
    f(a: object, b: object, n: int, flag: bool, xs: List[object], o: Optional[object] = None) -> object
so one driver can call all of them with boundary arguments.  The tracked objects are created by the (interpreted)
driver; compiled code only moves references around: locals, lists, tuples, dicts, attributes of a native class,
reassigned (borrowed) parameters, loops, try/finally, raise across frames, conditionally defined locals, generators.
Statements are type-correct by construction; everything derives from the rng passed in.
"""
from __future__ import annotations

import random

HEADER = '''from typing import List, Optional, Tuple, Dict, Iterator, Any, Final

BIG: Final = 1267650600228229401496703205376

class Box:
    def __init__(self, item: object) -> None:
        self.item = item
        self.other: Optional[object] = None
        self.count = 0

class Err(Exception):
    pass

class Slot:
    __deletable__ = ["item"]
    item: object = None
    count: int = 0

class Acct:
    def __init__(self, total: int, box: Box, owner: object) -> None:
        self.total = total
        self.box = box
        self.owner = owner

class Node:
    def __init__(self, payload: object, weight: int) -> None:
        self.payload = payload
        self.weight = weight

def make_pair(p: object, n: int) -> Tuple[Node, int]:
    return Node(p, n), n

def make_nested(p: object, n: int) -> Tuple[Tuple[Node, object], int]:
    return (Node(p, n), p), n

class Holder:
    def __init__(self, item: object, n: int) -> None:
        self.item = item
        self.extra = [item]
        if n == 2:
            raise Err(item)
        self.n = n

def try_hold(x: object, n: int) -> object:
    try:
        return Holder(x, n)
    except Err:
        return None

def set_total(ac: Acct, v: int) -> int:
    ac.total = v
    return 1

def set_box(ac: Acct, x: object) -> int:
    ac.box = Box(x)
    return 1

def set_slot(sl: Slot, x: object) -> int:
    sl.item = x
    return 1

def raiser(x: object, do: bool) -> object:
    if do:
        raise Err(x)
    return x

def ident(x: object) -> object:
    return x

def pair(x: object, y: object) -> Tuple[object, object]:
    return (y, x)

def pick(x: object, y: object, c: bool) -> object:
    if c:
        return x
    return y

def gen_items(xs: List[object], k: int) -> Iterator[object]:
    i = 0
    for x in xs:
        if i >= k:
            return
        yield x
        i += 1
'''

SIG = "(a: object, b: object, n: int, flag: bool, xs: List[object], o: Optional[object] = None) -> object"


class FnGen:
    def __init__(self, rng: random.Random, idx: int, callees: list[str]):
        self.rng = rng
        self.idx = idx
        self.callees = callees
        self.objs = ["a", "b"]          # object-typed names that are definitely assigned
        self.lists = ["xs"]
        self.boxes: list[str] = []
        self.ints = ["n"]
        self.nloc = 0
        self.constructs: list[str] = []
        self.depth = 0
        self.in_finally = 0
        self.iterating: list[str] = []   # lists being iterated: never appended to (the loop would not end)
        self.tuples: list[str] = []      # unboxed Tuple[object, int] locals
        self.has_ac = False              # `ac = Acct(...)` / `sl = Slot()` created in the prologue
        self.has_sl = False

    def fresh(self, p: str) -> str:
        self.nloc += 1
        return f"{p}{self.nloc}"

    def obj(self) -> str:
        return self.rng.choice(self.objs)

    def cond(self) -> str:
        r = self.rng
        x, y = self.obj(), self.obj()
        same = f"{x} is {y}" if x != y else "flag"      # `a is a` trips gcc's -Werror=tautological-compare
        return r.choice(["flag", "not flag", "n > 0", "n % 2 == 0", "n > 2", f"len({r.choice(self.lists)}) > 0",
                         "o is None", "o is not None", same])

    def obj_expr(self) -> str:
        r = self.rng
        k = r.randrange(9)
        if k == 0 and self.boxes:
            return f"{r.choice(self.boxes)}.item"
        if k == 1:
            return f"ident({self.obj()})"
        if k == 2:
            return f"pick({self.obj()}, {self.obj()}, {self.cond()})"
        if k == 3 and self.callees and self.depth < 3:
            c = r.choice(self.callees)
            return f"{c}({self.obj()}, {self.obj()}, n - 1, {self.cond()}, {r.choice(self.lists)})"
        if k == 4:
            return f"pair({self.obj()}, {self.obj()})[{r.randrange(2)}]"
        if k == 5:
            return f"raiser({self.obj()}, n == {r.randrange(4)})"
        return self.obj()

    def stmts(self, ind: str, budget: int) -> list[str]:
        out: list[str] = []
        r = self.rng
        tries = 0
        while budget > 0 and tries < 60:
            tries += 1
            before = len(out)
            k = r.randrange(27)
            if k == 17 and self.depth < 2:
                # try × conditional assignment × raising calls on both sides of the join
                self.depth += 1
                u = self.fresh("u")
                out.append(f"{ind}try:")
                out.append(f"{ind}    if {self.cond()}:")
                out.append(f"{ind}        {u}: object = " + r.choice([f"[{self.obj()}]", self.obj_expr(), f"Box({self.obj()})"]))
                out.append(f"{ind}        raiser({self.obj()}, n == {r.randrange(4)})")
                if r.random() < 0.5:
                    out.append(f"{ind}    else:")
                    out.append(f"{ind}        raiser({self.obj()}, n == {r.randrange(4)})")
                out.append(f"{ind}    raiser({self.obj()}, n == {r.randrange(4)})")
                out.append(f"{ind}    a = {u}")
                if r.random() < 0.5:
                    out.append(f"{ind}except Err:")
                    out.append(f"{ind}    b = {self.obj()}")
                else:
                    out.append(f"{ind}finally:")
                    out.append(f"{ind}    b = {self.obj()}")
                self.depth -= 1
                self.constructs.append("try-conditional-assign-raise")
            elif k == 18 and self.has_ac:
                out.append(ind + r.choice([f"ac.total += set_total(ac, BIG * 3 + n)", f"ac.total -= set_total(ac, BIG * 5 + n)",
                                           f"ac.total += set_box(ac, {self.obj()})", "ac.total += n", "ac.total -= len(xs)"]))
                self.constructs.append("augassign-attr")
            elif k == 19 and self.has_ac:
                c = r.randrange(5)
                if c == 0:
                    out.append(f"{ind}ac.box.item = {self.obj_expr()}")
                elif c == 1:
                    v = self.fresh("t")
                    out.append(f"{ind}{v} = " + r.choice(["ac.box.item", "ident(ac.box.item)", "pick(ac.box.item, ac.owner, flag)"]))
                    self.objs.append(v)
                elif c == 2:
                    out.append(f"{ind}ac.box = Box({self.obj()})")
                elif c == 3:
                    out.append(f"{ind}ac.box.count += 1")
                else:
                    out.append(f"{ind}ac.owner = {self.obj_expr()}")
                self.constructs.append("nested-attr")
            elif k == 20 and self.has_sl:
                c = r.randrange(5)
                if c == 0:
                    out.append(f"{ind}sl.item = {self.obj_expr()}")
                elif c in (1, 2):
                    # delete on some paths, then read: AttributeError exactly when the slot is empty
                    v = self.fresh("t")
                    out.append(f"{ind}if {self.cond()}:")
                    out.append(f"{ind}    del sl.item")
                    out.append(f"{ind}{v} = " + r.choice(["ident(sl.item)", "[sl.item]", "pick(sl.item, a, flag)"]))
                    self.objs.append(v)
                elif c == 3:
                    out.append(f"{ind}sl.count += set_slot(sl, {self.obj()})")
                else:
                    v = self.fresh("t")
                    out.append(f"{ind}try:")
                    out.append(f"{ind}    {v} = ident(sl.item)")
                    out.append(f"{ind}except AttributeError:")
                    out.append(f"{ind}    {v} = {self.obj()}")
                    self.objs.append(v)
                self.constructs.append("deletable-default-attr")
            elif k == 21:
                # reassign an existing local / parameter (in loops: a register reassigned on every iteration)
                v = r.choice([x for x in self.objs if not x.startswith("x")] or ["a"])
                out.append(f"{ind}{v} = {self.obj_expr()}")
                self.constructs.append("reassign-local")
            elif k == 22:
                if self.tuples and r.random() < 0.6:
                    tp = r.choice(self.tuples)
                    c = r.randrange(3)
                    if c == 0:
                        out.append(f"{ind}{tp} = ({self.obj_expr()}, n + {r.randrange(3)})")
                    elif c == 1:
                        v = self.fresh("t")
                        out.append(f"{ind}{v} = {tp}[0]")
                        self.objs.append(v)
                    else:
                        out.append(f"{ind}{tp} = ({tp}[0], {tp}[1] + 1)")
                elif self.depth == 0:
                    tp = self.fresh("tp")
                    out.append(f"{ind}{tp}: Tuple[object, int] = ({self.obj()}, n)")
                    self.tuples.append(tp)
                else:
                    continue
                self.constructs.append("unboxed-tuple")
            elif k == 23:
                # an item of a temporary / dead unboxed tuple, read in a borrowing context
                v = self.fresh("t")
                c = r.randrange(5)
                if c == 0:
                    out.append(f"{ind}{v} = make_pair({self.obj()}, n)[0].payload")
                elif c == 1:
                    q = self.fresh("q")
                    out.append(f"{ind}{q} = make_pair({self.obj()}, BIG + n)")
                    out.append(f"{ind}{v} = {q}[0].payload")
                elif c == 2:
                    out.append(f"{ind}{v}: object = make_pair({self.obj()}, BIG + n)[0].weight")
                elif c == 3:
                    out.append(f"{ind}{v} = make_nested({self.obj()}, n)[0][0].payload")
                else:
                    out.append(f"{ind}{v} = make_nested({self.obj()}, n)[0][1]")
                self.objs.append(v)
                self.constructs.append("tuple-item-attr")
            elif k == 24:
                # a native constructor whose __init__ raises for n == 2, after it has stored its arguments
                v = self.fresh("t")
                if r.random() < 0.5:
                    out.append(f"{ind}{v} = try_hold({self.obj()}, n)")
                else:
                    out.append(f"{ind}try:")
                    out.append(f"{ind}    {v}: object = Holder({self.obj()}, n + {r.randrange(3)}).item")
                    out.append(f"{ind}except Err:")
                    out.append(f"{ind}    {v} = {self.obj()}")
                self.objs.append(v)
                self.constructs.append("raising-constructor")
            elif k == 25:
                # dict.get with a key that cannot be hashed (a list behind an object-typed value)
                dd, v = self.fresh("d"), self.fresh("t")
                out.append(f"{ind}{dd}: Dict[object, object] = {{{self.obj()}: {self.obj()}}}")
                key = r.choice([self.obj(), "xs", "xs"])
                if r.random() < 0.5:
                    out.append(f"{ind}{v} = {dd}.get({key})")
                    out.append(f"{ind}if {v} is None:")
                    out.append(f"{ind}    {v} = {self.obj()}")
                else:
                    out.append(f"{ind}try:")
                    out.append(f"{ind}    {v} = {dd}.get({key})")
                    out.append(f"{ind}except TypeError:")
                    out.append(f"{ind}    {v} = {self.obj()}")
                self.objs.append(v)
                self.constructs.append("dict-get-hostile-key")
            elif k >= 26:
                continue
            elif k == 16:
                # results that nobody uses
                out.append(ind + r.choice([f"ident({self.obj()})", f"pair({self.obj()}, {self.obj()})", f"[{self.obj()}, {self.obj()}]",
                                           f"Box({self.obj()})", f"pick({self.obj()}, {self.obj()}, {self.cond()})",
                                           f"({self.obj()}, {self.obj_expr()})"]))
                self.constructs.append("discarded-result")
            elif k == 0:
                v = self.fresh("t")
                out.append(f"{ind}{v} = {self.obj_expr()}")
                self.objs.append(v)
                self.constructs.append("assign")
            elif k == 1:
                # reassign a (borrowed) parameter on one branch
                p = r.choice(["a", "b"])
                out.append(f"{ind}if {self.cond()}:")
                out.append(f"{ind}    {p} = {self.obj_expr()}")
                self.constructs.append("param-reassign")
            elif k == 2:
                l = self.fresh("l")
                out.append(f"{ind}{l}: List[object] = [{self.obj()}, {self.obj()}]")
                self.lists.append(l)
                self.constructs.append("list-new")
            elif k == 3:
                l = r.choice(self.lists)
                if l not in self.iterating and (l != "xs" or r.random() < 0.3):
                    out.append(f"{ind}{l}.append({self.obj_expr()})")
                    self.constructs.append("list-append")
            elif k == 4:
                l = r.choice(self.lists)
                v = self.fresh("t")
                out.append(f"{ind}{v} = {l}[0] if len({l}) > 0 else {self.obj()}")
                self.objs.append(v)
                self.constructs.append("list-get")
            elif k == 5:
                bx = self.fresh("bx")
                out.append(f"{ind}{bx} = Box({self.obj_expr()})")
                self.boxes.append(bx)
                self.constructs.append("box-new")
            elif k == 6 and self.boxes:
                bx = r.choice(self.boxes)
                out.append(f"{ind}{bx}.item = {self.obj_expr()}")
                if r.random() < 0.5:
                    out.append(f"{ind}{bx}.other = {self.obj()}")
                self.constructs.append("attr-set")
            elif k == 7 and self.depth < 2:
                self.depth += 1
                saved = (list(self.objs), list(self.lists), list(self.boxes))
                out.append(f"{ind}if {self.cond()}:")
                out += self.stmts(ind + "    ", r.randint(1, 3))
                self.objs, self.lists, self.boxes = [list(x) for x in saved]
                if r.random() < 0.6:
                    out.append(f"{ind}else:")
                    out += self.stmts(ind + "    ", r.randint(1, 2))
                    self.objs, self.lists, self.boxes = [list(x) for x in saved]
                self.depth -= 1
                self.constructs.append("if")
            elif k == 8 and self.depth < 2:
                self.depth += 1
                saved = (list(self.objs), list(self.lists), list(self.boxes))
                i = self.fresh("i")
                out.append(f"{ind}{i} = 0")
                out.append(f"{ind}while {i} < n and {i} < 3:")
                body = self.stmts(ind + "    ", r.randint(1, 3))
                out += body
                if r.random() < 0.3:
                    out.append(f"{ind}    if {self.cond()}:")
                    out.append(f"{ind}        {r.choice(['break', 'continue' if False else 'break'])}")
                out.append(f"{ind}    {i} += 1")
                self.objs, self.lists, self.boxes = [list(x) for x in saved]
                self.depth -= 1
                self.constructs.append("while")
            elif k == 9 and self.depth < 2:
                self.depth += 1
                saved = (list(self.objs), list(self.lists), list(self.boxes))
                x = self.fresh("x")
                src = r.choice(self.lists)
                it = src if r.random() < 0.7 else f"gen_items({src}, n)"
                out.append(f"{ind}for {x} in {it}:")
                self.objs.append(x)
                self.iterating.append(src)
                out += self.stmts(ind + "    ", r.randint(1, 2))
                self.iterating.pop()
                self.objs, self.lists, self.boxes = [list(y) for y in saved]
                self.depth -= 1
                self.constructs.append("for" if it == src else "for-generator")
            elif k == 10 and self.depth < 2:
                self.depth += 1
                saved = (list(self.objs), list(self.lists), list(self.boxes))
                out.append(f"{ind}try:")
                out += self.stmts(ind + "    ", r.randint(1, 3))
                self.objs, self.lists, self.boxes = [list(y) for y in saved]
                if r.random() < 0.5:
                    out.append(f"{ind}finally:")
                    self.in_finally += 1       # no `return` inside `finally` (mypyc asserts on it: not C06's business)
                    out += self.stmts(ind + "    ", r.randint(1, 2)) or [f"{ind}    pass"]
                    self.in_finally -= 1
                    self.constructs.append("try-finally")
                else:
                    e = self.fresh("e")
                    out.append(f"{ind}except Err as {e}:")
                    v = self.fresh("t")
                    out.append(f"{ind}    {v} = {e}.args[0] if {self.cond()} else {self.obj()}")
                    out.append(f"{ind}    b = {v}")
                    self.constructs.append("try-except")
                self.objs, self.lists, self.boxes = [list(y) for y in saved]
                self.depth -= 1
            elif k == 11:
                v, w = self.fresh("t"), self.fresh("t")
                out.append(f"{ind}{v}, {w} = pair({self.obj()}, {self.obj_expr()})")
                self.objs += [v, w]
                self.constructs.append("tuple-unpack")
            elif k == 12:
                d = self.fresh("d")
                out.append(f"{ind}{d}: Dict[int, object] = {{0: {self.obj()}, n: {self.obj()}}}")
                v = self.fresh("t")
                out.append(f"{ind}{v} = {d}.get(1, {self.obj()})")
                self.objs.append(v)
                self.constructs.append("dict")
            elif k == 13 and self.depth == 0:
                # conditionally defined local, read later (UnboundLocalError when not taken)
                u = self.fresh("u")
                out.append(f"{ind}if {self.cond()}:")
                out.append(f"{ind}    {u} = {self.obj()}")
                out.append(f"{ind}if {self.cond()}:")
                out.append(f"{ind}    a = {u}")
                self.constructs.append("maybe-undefined-local")
            elif k == 14 and self.depth > 0 and not self.in_finally and r.random() < 0.5:
                out.append(f"{ind}return {self.obj_expr()}")
                self.constructs.append("early-return")
                return out
            elif k == 15:
                out.append(f"{ind}if o is not None and {self.cond()}:")
                out.append(f"{ind}    a = o")
                self.constructs.append("optional-arg")
            if len(out) > before:
                budget -= 1
        if not out:
            out.append(f"{ind}pass")
        return out

    def build(self) -> str:
        r = self.rng
        pro = []
        if r.random() < 0.6:
            pro.append("    ac = Acct(BIG + n, Box(a), b)")
            self.has_ac = True
        if r.random() < 0.5:
            pro.append("    sl = Slot()")
            self.has_sl = True
        body = pro + self.stmts("    ", r.randint(3, 8))
        rets = [self.obj(), f"({self.obj()}, {self.obj()})", f"[{self.obj()}, {self.obj()}]",
                r.choice(self.boxes) if self.boxes else self.obj(), r.choice(self.lists)]
        if self.has_ac:
            rets += ["ac.total", "ac.box.item", "ac"]
        ret = r.choice(rets)
        return f"def f{self.idx}{SIG}:\n" + "\n".join(body) + f"\n    return {ret}\n"


def gen_program(rng: random.Random, nfuncs: int = 4) -> tuple[str, list[str], list[str]]:
    """(module source, function names, constructs used)"""
    parts = [HEADER]
    names: list[str] = []
    constructs: list[str] = []
    for i in range(nfuncs):
        g = FnGen(rng, i, list(names))
        parts.append(g.build())
        names.append(f"f{i}")
        constructs += g.constructs
    return "\n".join(parts), names, constructs


DRIVER = r'''
import gc, sys, json, importlib, itertools

class Tracked:
    live = 0
    def __init__(self, tag):
        self.tag = tag
        Tracked.live += 1
    def __del__(self):
        Tracked.live -= 1

def outcome(fn, mk):
    """call fn on fresh tracked objects; return (kind, leaked instances, refcount deltas of the arguments)"""
    gc.collect()
    base = Tracked.live
    a, b, x0, x1, o = mk()
    xs = [x0, x1]
    objs = [a, b, x0, x1] + ([o] if o is not None else [])
    args = ARGS
    before = [sys.getrefcount(t) for t in objs]
    n_xs = len(xs)
    try:
        r = fn(a, b, args["n"], args["flag"], xs, o) if args["o"] else fn(a, b, args["n"], args["flag"], xs)
        kind = "ok"
    except BaseException as e:
        kind = type(e).__name__
        e = None
    r = None
    del xs[n_xs:]
    gc.collect()
    after = [sys.getrefcount(t) for t in objs]
    delta = [y - x for x, y in zip(before, after)]
    del a, b, x0, x1, o, objs
    xs = None
    gc.collect()
    return kind, Tracked.live - base, delta

def mk_with(o_on):
    def mk():
        return Tracked("a"), Tracked("b"), Tracked("x0"), Tracked("x1"), (Tracked("o") if o_on else None)
    return mk

def main():
    global ARGS
    modname, names, reps = sys.argv[1], sys.argv[2].split(","), int(sys.argv[3])
    mod = importlib.import_module(modname)
    out = []
    for name in names:
        fn = getattr(mod, name)
        for n, flag, o_on in itertools.product([0, 1, 2, 3], [False, True], [False, True]):
            ARGS = {"n": n, "flag": flag, "o": o_on}
            worst = None
            for rep in range(reps):
                kind, leaked, delta = outcome(fn, mk_with(o_on))
                if leaked != 0 or any(delta):
                    worst = (kind, leaked, delta, rep)
                    break
            rec = {"fn": name, "n": n, "flag": flag, "o": o_on, "kind": kind}
            if worst:
                rec.update(leaked=worst[1], refcount_delta=worst[2], rep=worst[3])
            out.append(rec)
            print(json.dumps(rec), flush=True)

main()
'''
