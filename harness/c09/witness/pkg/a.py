from pkg.b import hidden_reexport


def exported(x: int) -> str:
    return x
