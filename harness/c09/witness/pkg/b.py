hidden_reexport: int = 1
