def helper(v):
    w: str = 1
    return v
