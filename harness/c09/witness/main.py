import sys
from typing import Any, Optional, cast, List, Callable, TypeVar, Sequence
from typing_extensions import deprecated
import missing_lib
from pkg.a import exported, hidden_reexport
from pkg import untyped_mod


def untyped(x):
    y: int = "s"
    return x


def incomplete(x: int, y):
    return x


def calls() -> None:
    untyped(1)
    untyped_mod.helper(2)


def opt(x: int = None) -> int:
    return x


def ret_any(a: Any) -> int:
    return a


def no_ret(x: int) -> int:
    if x:
        return 1


def unreachable(x: int) -> int:
    if isinstance(x, int):
        return 1
    return 2


def eq(x: int, s: str, n: None) -> bool:
    if x == n:
        return False
    return x == s


def redundant(x: int) -> int:
    return cast(int, x)


z = 1  # type: ignore
zz = 1 + "a"  # type: ignore


def generic_bare(x: List) -> None:
    return None


def any_explicit(x: Any) -> None:
    return None


def deco(f):
    return f


@deco
def decorated() -> None:
    return None


class Sub(missing_lib.Base):
    pass


def unimported(x: missing_lib.Thing) -> None:
    return None


if sys.platform == "win32":
    plat: int = "win"
if sys.version_info >= (3, 11):
    ver: int = "new"
PY2 = False
if PY2:
    py2: int = "x"


def partial_types() -> None:
    x = None
    if int():
        x = 1


class PT:
    attr = None

    def set(self) -> None:
        self.attr = 1


def redefine() -> None:
    a = 1
    a = "s"


def bts(b: bytes) -> None:
    return None


bts(bytearray(b"x"))
bts(memoryview(b"x"))
g = []


def empty_body2() -> int:
    pass


@deprecated("use new")
def old() -> None:
    return None


old()
reveal_type(untyped)
expr_any = ret_any(missing_lib.q)


def concat(f: Callable[..., int]) -> None:
    return None


def ctx_outer() -> None:
    def inner() -> None:
        bad: int = "in nested function"
    inner()


lst = [1, 2, 3]
very_long_name_for_pretty_output_and_columns: int = "this string makes the line long enough to be interesting"


def same_message_twice_on_a_line() -> None:
    both = undefined_name_zz + undefined_name_zz
