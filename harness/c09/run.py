"""C09 — changing options between runs never yields stale results.

1. Lean: Props/C09 — `key_covers` (abstract: S ⊆ K ∪ Partition ∪ Exempt ⇒ runs that agree on the key agree on
   everything the analysis reads), which discharges `Build.KeyCovers`, the hypothesis of C02's
   `warm_eq_cold_partial`; and the *generated* finite obligation `table_ok` over Gen/OptReads.lean
   (every option read in a pre-cache module is in OPTIONS_AFFECTING_CACHE, partitions the cache directory,
   or carries a reviewed exemption).
2. Tie: translator translate/optreads.py (every run) + behaviour-of-the-key correspondence: for every
   command-line option, toggled in both directions on the witness project, the model predicts "every user
   module re-analysed" (key / partition) or "nothing re-analysed" (not in key); the real run's
   rechecked set must match.
3. Search: warm(A→B) vs cold(B) on the witness project for every option, both directions.
"""
from __future__ import annotations

import json
import os
import shutil
from concurrent.futures import ThreadPoolExecutor

from harness.vlib import buildsim as B
from harness.vlib.core import Ctx, LEAN, VERIF, ToolFailure

MODEL_FILES = ["MypyVerif/Model/OptPolicy.lean", "MypyVerif/Model/Build.lean", "MypyVerif/Proofs/Build.lean"]
WITNESS = os.path.join(VERIF, "harness", "c09", "witness")
TARGETS = ["main.py", "pkg"]
WMODS = ["main", "pkg", "pkg.a", "pkg.b", "pkg.untyped_mod", "pkg.stubbed"]

# flags that select a mode / IO / the cache itself rather than a setting of the analysis
SKIP_DESTS = {
    "help", "version", "verbosity", "pdb", "show_traceback", "raise_exceptions", "install_types", "non_interactive",
    "incremental", "sqlite_cache", "sqlite_num_shards", "fixed_format_cache", "skip_version_check", "skip_cache_mtime_checks",
    "cache_fine_grained", "cache_dir", "cache_map", "dump_graph", "dump_deps", "dump_type_stats", "dump_inference_stats",
    "dump_build_stats", "timing_stats", "line_checking_stats", "fast_exit", "bazel", "debug_cache", "debug_serialize",
    "num_workers", "junit_xml", "junit_format", "find_occurrences", "config_file", "shadow_file", "python_executable",
    "special-opts:modules", "special-opts:packages", "special-opts:command", "special-opts:files", "special-opts:no_executable",
    "special-opts:report", "quickstart_file", "custom_typeshed_dir", "mypyc", "mypyc_annotation_file", "mypyc_skip_c_generation",
    "use_fine_grained_cache", "fine_grained_incremental", "export_ref_info", "soft_error_limit", "output", "package_root",
    "transform_source", "scripts_are_modules", "warn_unused_configs", "logical_deps", "enable_incomplete_feature",
    "semantic_analysis_only", "use_builtins_fixtures", "test_env", "inspections", "export_types", "preserve_asts",
    "color_output", "error_summary", "disable_expression_cache", "fast_module_lookup", "native_parser", "exclude_gitignore",
    "dump_deps", "explicit_package_bases", "no_site_packages", "no_silence_site_packages",
}
VALUED = [
    ("python_version", ["--python-version", "3.10"]),
    ("platform", ["--platform", "win32"]),
    ("always_true", ["--always-true", "PY2"]),
    ("always_false", ["--always-false", "PY2"]),
    ("disable_error_code", ["--disable-error-code", "return-value"]),
    ("enable_error_code", ["--enable-error-code", "deprecated"]),
    ("enable_error_code", ["--enable-error-code", "ignore-without-code"]),
    ("enable_error_code", ["--enable-error-code", "redundant-expr"]),
    ("enable_error_code", ["--enable-error-code", "truthy-bool"]),
    ("follow_imports", ["--follow-imports", "silent"]),
    ("follow_imports", ["--follow-imports", "skip"]),
    ("exclude", ["--exclude", "untyped_mod"]),
    ("many_errors_threshold", ["--many-errors-threshold", "1"]),
    ("untyped_calls_exclude", ["--disallow-untyped-calls", "--untyped-calls-exclude", "pkg"]),
    ("deprecated_calls_exclude", ["--enable-error-code", "deprecated", "--deprecated-calls-exclude", "main"]),
    ("report_deprecated_as_note", ["--enable-error-code", "deprecated", "--report-deprecated-as-note"]),
    ("special-opts:strict", ["--strict"]),
    ("custom_typing_module", ["--custom-typing-module", "typing"]),
    ("hide_error_codes", ["--show-error-code-links", "--hide-error-codes"]),
]
# the base valuation some options need to be observable (B = A + flag)
CONTEXT = {
    "untyped_calls_exclude": ["--disallow-untyped-calls"],
    "deprecated_calls_exclude": ["--enable-error-code", "deprecated"],
    "report_deprecated_as_note": ["--enable-error-code", "deprecated"],
    "show_error_code_links": [],
    "hide_error_codes": ["--show-error-code-links"],
}


def option_cases() -> list[dict]:
    import mypy.main as mm
    parser, _, _ = mm.define_options()
    cases, seen = [], set()
    for a in parser._actions:
        t = type(a).__name__
        flags = [o for o in a.option_strings if o.startswith("--")]
        if not flags or a.dest in SKIP_DESTS:
            continue
        if t in ("_StoreTrueAction", "_StoreFalseAction"):
            k = (a.dest, t)
            if k in seen:
                continue
            seen.add(k)
            cases.append({"dest": a.dest, "flags": [flags[0]], "base": []})
    for dest, fl in VALUED:
        ctxf = CONTEXT.get(dest, [])
        rest = [x for x in fl]
        if ctxf and fl[:len(ctxf)] == ctxf:
            rest = fl[len(ctxf):]
        cases.append({"dest": dest, "flags": rest, "base": ctxf})
    return cases


def with_contexts(cases: list[dict], rng, quick: bool) -> list[dict]:
    """The same toggles in two more surroundings that change how the key is computed: (1) a config file with
    per-module sections for the witness modules (the per-module clone of the options is what gets compared),
    (2) --debug-cache (the snapshot is the full option dict instead of a digest)."""
    out = []
    for i, c in enumerate(cases):
        out.append(c)
        variants = [dict(c, base=c["base"] + ["--config-file", "permodule.ini"], ctx="per-module-sections"),
                    dict(c, base=c["base"] + ["--debug-cache"], ctx="debug-cache")]
        if quick:
            out.append(variants[(i + rng.randint(0, 1)) % 2])
        else:
            out += variants
    return out


def changed_options(c: dict) -> list[str]:
    """Names of the options whose value differs between the two valuations (by parsing both command lines
    with the real option parser and comparing every attribute of the resulting Options objects)."""
    import contextlib
    import io
    import mypy.main as mm
    snaps = []
    plain = [a for a in c["base"] if a not in ("--config-file", "permodule.ini")]
    for args in (plain, plain + c["flags"]):
        with contextlib.redirect_stderr(io.StringIO()), contextlib.redirect_stdout(io.StringIO()):
            try:
                _, opts = mm.process_options(list(args) + ["main.py"], require_targets=False)
            except SystemExit:
                return []
            try:        # build_inner derives enabled/disabled_error_codes from the lists
                opts.process_error_codes(error_callback=lambda m: None)
            except Exception:
                pass
        snaps.append({k: repr(v) for k, v in vars(opts).items() if not k.startswith("_")})
    return sorted(k for k in snaps[0] if snaps[0][k] != snaps[1].get(k))


def run(root, cache, args, base):
    r = B.run_mypy(root, cache, B.CONFIGS["sqlite-binary"] + args, targets=TARGETS, scratch=base)
    if r.get("timeout") or r.get("status") not in (0, 1, 2):
        raise ToolFailure(f"mypy failed with args {args}: {r.get('status')} {r.get('stderr', '')[-600:]}")
    return r


def sweep(ctx: Ctx, cases: list[dict]) -> list[dict]:
    base = os.path.join(ctx.tmp, "sweep")
    root = os.path.join(base, "src")
    os.makedirs(base, exist_ok=True)
    shutil.copytree(WITNESS, root)
    with open(os.path.join(root, "permodule.ini"), "w") as f:
        f.write("[mypy]\n\n[mypy-main]\nignore_errors = False\n\n[mypy-pkg.*]\nignore_errors = False\n")
    bases: dict[tuple, dict] = {}

    def base_run(bargs: list[str]) -> dict:
        k = tuple(bargs)
        if k not in bases:
            c = os.path.join(base, "base-" + str(len(bases)))
            bases[k] = {"cache": c, "res": run(root, c, bargs, base)}
        return bases[k]

    for c in cases:
        base_run(c["base"])

    def one(ic):
        i, c = ic
        b = bases[tuple(c["base"])]
        A, F = c["base"], c["base"] + c["flags"]
        cF = os.path.join(base, f"f{i}")
        coldF = run(root, cF, F, base)
        won = os.path.join(base, f"on{i}")
        shutil.copytree(b["cache"], won)
        warm_on = run(root, won, F, base)
        woff = os.path.join(base, f"off{i}")
        if os.path.isdir(cF):
            shutil.copytree(cF, woff)
        warm_off = run(root, woff, A, base)
        for d in (cF, won, woff):
            shutil.rmtree(d, ignore_errors=True)
        cb, cf = B.canon_output(b["res"]), B.canon_output(coldF)
        return {"case": c, "affects": bool(B.diff_outputs(cb, cf)),
                "on_diff": B.diff_outputs(B.canon_output(warm_on), cf), "off_diff": B.diff_outputs(B.canon_output(warm_off), cb),
                "on_rechecked": sorted(m for m in (warm_on.get("rechecked") or []) if m in WMODS),
                "off_rechecked": sorted(m for m in (warm_off.get("rechecked") or []) if m in WMODS),
                "cold_modules": sorted(m for m in (coldF.get("ifaces") or {}) if m in WMODS)}
    with ThreadPoolExecutor(max_workers=14) as ex:
        out = list(ex.map(one, enumerate(cases)))
    shutil.rmtree(base, ignore_errors=True)
    return out


# ---------------------------------------------------------------------------------------------------------
# the hypothesis `henc` of options_sound (the snapshot is an injective encoding of the key options' values),
# checked on the real `select_options_affecting_cache` / `options_snapshot`

def key_injectivity(ctx: Ctx) -> list[dict]:
    """For every option of the key and every kind of value perturbation that fits its current value, the two
    Options objects must have different snapshots.  Returns the pairs that collide."""
    import copy
    from mypy.options import Options, OPTIONS_AFFECTING_CACHE_NO_PLATFORM
    base = Options()
    collisions = []
    for name in sorted(OPTIONS_AFFECTING_CACHE_NO_PLATFORM):
        if name in ("enabled_error_codes", "disabled_error_codes"):
            continue        # derived sets; their source lists are in the key, the derivation is C09-1's subject (table rows)
        v = getattr(base, name)
        alts: list[tuple[str, object, object]] = []
        if isinstance(v, bool):
            alts.append(("flip", v, not v))
        elif isinstance(v, list):
            alts += [("order", ["b_item", "a_item"], ["a_item", "b_item"]), ("multiplicity", ["a_item"], ["a_item", "a_item"]),
                     ("list-vs-joined", ["a_item", "b_item"], ["a_item,b_item"]), ("empty-vs-one", [], ["a_item"])]
        elif isinstance(v, tuple):
            alts += [("component", tuple(v), tuple(v[:-1]) + ((v[-1] + 1) if isinstance(v[-1], int) else v[-1],))]
        elif isinstance(v, str):
            alts += [("text", v, v + "x"), ("case", "abc", "ABC")]
        elif isinstance(v, int):
            alts += [("value", v, v + 1)]
        elif v is None:
            alts += [("none-vs-false", None, False), ("none-vs-empty", None, ""), ("none-vs-value", None, "a_item")]
        elif isinstance(v, dict):
            alts += [("dict-entry", {}, {"k": "v"})]
        for kind, x, y in alts:
            a, b = copy.copy(base), copy.copy(base)
            setattr(a, name, x)
            setattr(b, name, y)
            ctx.case(("key-injective", name, kind))
            ctx.dist("key_injectivity_kind", kind)
            try:
                sa, sb = a.select_options_affecting_cache(), b.select_options_affecting_cache()
            except Exception as e:
                raise ToolFailure(f"select_options_affecting_cache failed for {name}: {e!r}")
            if repr(sa) == repr(sb):
                collisions.append({"option": name, "kind": kind, "a": repr(x), "b": repr(y)})
    return collisions


# ---------------------------------------------------------------------------------------------------------
# configuration pairs that a single command-line flag cannot express: order / multiplicity of list values,
# plugins, per-module sections (concrete, `pkg.*`, unstructured globs) that apply to a *dependency*

PLUGIN_SRC = """from mypy.plugin import Plugin
class P(Plugin):
    def get_function_hook(self, fullname):
        if fullname == "plugtarget.magic":
            return self.hook
        return None
    def hook(self, ctx):
        return ctx.api.named_generic_type("builtins.{typ}", [])
def plugin(version):
    return P
"""
PLUGTARGET = """import pkg.missing_sub
import pkg.untyped_mod
import dupmod
def magic() -> object: ...
reveal_type(magic())
x: int = magic()
y: int = dupmod.value
"""
PAIR_FILES = {"plug_a.py": PLUGIN_SRC.format(typ="int"), "plug_b.py": PLUGIN_SRC.format(typ="str"), "plugtarget.py": PLUGTARGET,
              "d1/dupmod.py": "value: int = 1\n", "d2/dupmod.py": "value: str = ''\n"}
CONFIG_PAIRS = [
    ("plugins-order", "[mypy]\nplugins = plug_a.py, plug_b.py\nmypy_path = d1\n", "[mypy]\nplugins = plug_b.py, plug_a.py\nmypy_path = d1\n"),
    ("plugins-added", "[mypy]\nplugins = plug_b.py\nmypy_path = d1\n", "[mypy]\nplugins = plug_a.py, plug_b.py\nmypy_path = d1\n"),
    ("mypy-path-order", "[mypy]\nmypy_path = d1:d2\n", "[mypy]\nmypy_path = d2:d1\n"),
    ("glob-section-ignore-missing", "[mypy]\nmypy_path = d1\n[mypy-*.missing_sub]\nignore_missing_imports = False\n",
     "[mypy]\nmypy_path = d1\n[mypy-*.missing_sub]\nignore_missing_imports = True\n"),
    ("star-section-ignore-missing", "[mypy]\nmypy_path = d1\n[mypy-pkg.*]\nignore_missing_imports = False\n",
     "[mypy]\nmypy_path = d1\n[mypy-pkg.*]\nignore_missing_imports = True\n"),
    ("concrete-section-ignore-missing", "[mypy]\nmypy_path = d1\n[mypy-pkg.missing_sub]\nignore_missing_imports = False\n",
     "[mypy]\nmypy_path = d1\n[mypy-pkg.missing_sub]\nignore_missing_imports = True\n"),
    ("glob-section-follow-imports", "[mypy]\nmypy_path = d1\n[mypy-*.untyped_mod]\nfollow_imports = normal\n",
     "[mypy]\nmypy_path = d1\n[mypy-*.untyped_mod]\nfollow_imports = skip\n"),
    ("glob-section-of-importer", "[mypy]\nmypy_path = d1\n[mypy-plug*]\ndisallow_untyped_defs = False\n",
     "[mypy]\nmypy_path = d1\n[mypy-plug*]\nwarn_return_any = True\ndisallow_any_expr = True\n"),
    ("always-true-order", "[mypy]\nmypy_path = d1\nalways_true = AA, BB\n", "[mypy]\nmypy_path = d1\nalways_true = BB, AA\n"),
    ("section-order", "[mypy]\nmypy_path = d1\n[mypy-pkg.*]\nignore_errors = True\n[mypy-pkg.a]\nignore_errors = False\n",
     "[mypy]\nmypy_path = d1\n[mypy-pkg.a]\nignore_errors = True\n[mypy-pkg.*]\nignore_errors = False\n"),
]


def config_pairs(ctx: Ctx) -> None:
    base = os.path.join(ctx.tmp, "pairs")
    root = os.path.join(base, "src")
    os.makedirs(base, exist_ok=True)
    shutil.copytree(WITNESS, root)
    for rel, text in PAIR_FILES.items():
        fp = os.path.join(root, rel)
        os.makedirs(os.path.dirname(fp), exist_ok=True)
        open(fp, "w").write(text)
    targets = TARGETS + ["plugtarget.py"]

    def runp(cache: str, ini: str, tag: str) -> dict:
        cfg = os.path.join(root, f"cfg-{tag}.ini")
        open(cfg, "w").write(ini)
        r = B.run_mypy(root, cache, B.CONFIGS["sqlite-binary"] + ["--config-file", os.path.basename(cfg)], targets=targets, scratch=base)
        if r.get("timeout") or r.get("status") not in (0, 1, 2):
            raise ToolFailure(f"mypy failed for config pair {tag}: {r.get('status')} {r.get('stderr', '')[-600:]}")
        return r

    def one(item):
        i, (name, a, b) = item
        out = []
        for direction, first, second in (("a-to-b", a, b), ("b-to-a", b, a)):
            shared = os.path.join(base, f"c{i}-{direction}")
            runp(shared, first, f"{i}-{direction}-1")
            warm = runp(shared, second, f"{i}-{direction}-2")
            cold = runp(os.path.join(base, f"c{i}-{direction}-cold"), second, f"{i}-{direction}-2")
            coldfirst = runp(os.path.join(base, f"c{i}-{direction}-cold1"), first, f"{i}-{direction}-1")
            out.append((name, direction, B.diff_outputs(B.canon_output(warm), B.canon_output(cold)),
                        bool(B.diff_outputs(B.canon_output(coldfirst), B.canon_output(cold))), first, second))
            for d in (shared, shared + "-cold", shared + "-cold1"):
                shutil.rmtree(d, ignore_errors=True)
        return out
    with ThreadPoolExecutor(max_workers=10) as ex:
        results = [x for part in ex.map(one, enumerate(CONFIG_PAIRS)) for x in part]
    shutil.rmtree(base, ignore_errors=True)
    for name, direction, diff, affects, first, second in results:
        ctx.case(("config-pair", name, direction), nontrivial=affects)
        ctx.count("traces_validated_against_impl")
        ctx.dist("surroundings", "config-pair")
        if diff and not B.only_once_note_diff(diff):
            ctx.count("disagreements_checked")
            ctx.report({"class": "option-change-yields-stale-result", "option": "config-pair:" + name},
                       f"warm run after changing the configuration ({name}, {direction}) differs from a cold run with the new configuration: {diff[:2]}",
                       {"witness": "harness/c09/witness + PAIR_FILES of harness/c09/run.py", "targets": targets, "config_first": first,
                        "config_second": second, "direction": direction, "diff": diff})


def main(ctx: Ctx) -> None:
    ctx.coverage["rule"] = ("a case = one command-line option toggled in one direction (A→B and B→A) on the witness project: cold(A), warm(B) on "
                            "A's cache, cold(B); non-trivial when cold(A) ≠ cold(B) on the witness (the option changes the diagnostics); distinct by option+value")
    from translate import optreads
    optreads.selftest()
    optreads.main()
    proved = ctx.prove("MypyVerif.Props.C09", MODEL_FILES + ["MypyVerif/Gen/OptReads.lean"])
    ctx.trusted("translator translate/optreads.py (AST walk for option reads; key set and option names from the imported live objects)",
                "Model/OptPolicy.lean: the hand-reviewed classification (modules that run after cached results are loaded; "
                "cache-directory partition; per-option exemptions with reasons)",
                "witness project harness/c09/witness (what it does not exercise is not searched)")
    cases = option_cases()
    from mypy.options import OPTIONS_AFFECTING_CACHE
    bad_rows = set((ctx.lean_driver("Driver/C09.lean", ["?bad"]) or [""])[0].split(","))
    if ctx.quick():
        # every option outside the key (the risky ones), every row the policy flags, and a seeded sample of
        # the key options (their membership is guarded by table_ok; the thorough tier sweeps them all)
        nonkey = [c for c in cases if c["dest"] not in OPTIONS_AFFECTING_CACHE or c["dest"] in bad_rows]
        key = [c for c in cases if c not in nonkey]
        cases = nonkey + ctx.rng.sample(key, min(10, len(key)))
    targeted = []
    if bad_rows - {""}:
        # failing-input search for a broken table_ok: every toggle that changes one of the offending options,
        # in every surrounding
        for c in option_cases():
            if set(changed_options(c)) & bad_rows:
                targeted += [c, dict(c, base=c["base"] + ["--config-file", "permodule.ini"], ctx="per-module-sections"),
                             dict(c, base=c["base"] + ["--debug-cache"], ctx="debug-cache")]
    cases = with_contexts(cases, ctx.rng, ctx.quick()) + targeted
    for c in cases:
        ctx.dist("surroundings", c.get("ctx", "plain"))
    res = sweep(ctx, cases)
    # model predictions
    lines = [",".join(changed_options(c)) or "-" for c in cases]
    preds = ctx.lean_driver("Driver/C09.lean", lines)
    stale_opts, pred_breaks = [], []
    for r, pred in zip(res, preds):
        c = r["case"]
        name = c["dest"] + ":" + " ".join(c["flags"]) + ("@" + c["ctx"] if c.get("ctx") else "")
        for direction, diff, rech in (("on", r["on_diff"], r["on_rechecked"]), ("off", r["off_diff"], r["off_rechecked"])):
            ctx.case((name, direction), nontrivial=r["affects"])
            ctx.count("traces_validated_against_impl")
            if diff and not B.only_once_note_diff(diff):
                stale_opts.append((c, direction, diff))
            allmods = set(r["cold_modules"]) & set(WMODS)
            if pred == "all" and not (set(rech) >= (allmods - {"pkg.stubbed"}) or not allmods):
                pred_breaks.append({"option": name, "direction": direction, "model": "all user modules re-analysed", "mypy_rechecked": rech})
        ctx.dist("prediction", pred)
        ctx.dist("affects_witness_output", str(r["affects"]))
    ctx.sample({"option": res[0]["case"], "affects_output": res[0]["affects"], "warm_on_rechecked": res[0]["on_rechecked"], "model": preds[0]})
    ctx.coverage["options_swept"] = len(cases)
    reported = set()
    for c, direction, diff in stale_opts:
        ctx.count("disagreements_checked")
        if (c["dest"], c.get("ctx")) in reported:
            continue
        reported.add((c["dest"], c.get("ctx")))
        ctx.report({"class": "option-change-yields-stale-result", "option": c["dest"]},
                   f"warm run after toggling {' '.join(c['flags'])} ({direction}) differs from a cold run with the new options: {diff[:2]}",
                   {"witness": "harness/c09/witness", "targets": TARGETS, "base_args": c["base"], "toggle": c["flags"], "direction": direction, "diff": diff})
    config_pairs(ctx)
    collisions = key_injectivity(ctx)
    ctx.coverage["key_injectivity_collisions"] = len(collisions)
    if collisions and not ctx.violations:
        ctx.violation("the options snapshot is not an injective encoding of the key options (hypothesis `henc` of options_sound): "
                      + "; ".join(f"{c['option']} ({c['kind']}: {c['a']} vs {c['b']})" for c in collisions[:6])
                      + "; the configuration pairs of this run showed no stale result",
                      {"broken": "hypothesis henc of theorem options_sound (Props/C09.lean) vs Options.select_options_affecting_cache",
                       "collisions": collisions}, found_input=False)
    if pred_breaks and not ctx.violations:
        ctx.violation("cache-key behaviour differs from the model (an option in the key did not invalidate, or an option outside it did); "
                      "no stale result found on the witness project",
                      {"broken": "correspondence Driver/C09 (OptPolicy.predict over Gen/OptReads) vs mypy.build.options_snapshot/find_cache_meta",
                       "examples": pred_breaks[:8]}, found_input=False)
    if not proved and not ctx.violations:
        # the regenerated obligation table_ok (or a proof) no longer checks: name the offending rows
        bad = ctx.lean_driver("Driver/C09.lean", ["?bad"])
        ctx.violation("generated obligation OptGen.table_ok no longer holds: option(s) read before results are cached but neither in "
                      "OPTIONS_AFFECTING_CACHE nor exempt: " + (bad[0] if bad else "?") + "; toggling them on the witness project found no stale result",
                      {"broken": "theorem OptGen.table_ok (Props/C09.lean) over regenerated Gen/OptReads.lean", "rows": bad, "build_log": ctx.broken_ties},
                      found_input=False)


def replay(ctx: Ctx, path: str) -> int:
    body = json.load(open(path))
    det = body["replay"].get("detail", body["replay"])
    c = {"dest": "replay", "flags": det["toggle"], "base": det.get("base_args", [])}
    print(json.dumps(sweep(ctx, [c])[0], indent=1)[:3000])
    return 0
