"""dev helper (not part of the check): run the streams without the Lean build"""
import sys, json, os
import harness.vlib.core as core
if os.environ.get("C01_LEAN"):
    core.LEAN = os.environ["C01_LEAN"]
from harness.vlib.core import Ctx
from harness.c01 import run as RUN
def main():
    n = int(sys.argv[1]); seed = int(sys.argv[2]) if len(sys.argv) > 2 else 0
    ctx = Ctx("C01", "quick", seed)
    try:
        base = RUN.model_stream(ctx, n)
        if len(sys.argv) > 3:
            RUN.perturb_stream(ctx, base, int(sys.argv[3]))
        print(json.dumps(ctx.coverage.get("distribution"), indent=1))
        print(ctx.coverage.get("wall_by_side_s"))
        print("violations", len(ctx.violations), "known", ctx.known_hits)
    finally:
        ctx.cleanup()
main()
