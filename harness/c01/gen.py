"""Type-directed generator of MiniPy programs (stages 1–5: + try/except/finally, raise, user-defined __bool__) + argument vectors + one-edit perturbations.

Programs are well-typed *by construction with respect to a conservative approximation* of the checker's flow
typing (narrowing in branches is tracked, everything that is assigned inside a branch or a loop falls back to
its declared type afterwards), so most — not all — programs are accepted; rejected ones still exercise the
`tc` vs. mypy verdict comparison.  The random stream avoids the known unsound shapes (F16–F19, union-receiver
attribute assignment, loops that need more than four passes): no float, no type[C], no attribute redeclaration,
every declared attribute assigned in __init__, attribute assignment only through single-class receivers.
All randomness comes from the `rng` passed in (ctx.rng).
"""
from __future__ import annotations

import itertools

from .lang import B, BOOL_METH, C, I, N, O, S, Cls, Func, Prog, c3, seq

INT, STR, BOOL, NONE, OBJ = (I,), (S,), (B,), (N,), (O,)


class Hier:
    def __init__(self, classes):
        self.classes = classes

    def mro(self, c):
        return self.classes[c].mro

    def is_sub(self, c, d):
        return d in self.mro(c)

    def subclasses(self, d):
        return [c for c in range(len(self.classes)) if self.is_sub(c, d)]

    def sub_atom(self, a, b):
        if b == O or a == b:
            return True
        if a == B and b == I:
            return True
        if isinstance(a, tuple) and isinstance(b, tuple):
            return self.is_sub(a[1], b[1])
        return False

    def sub_ty(self, t, u):
        return all(any(self.sub_atom(a, b) for b in u) for a in t)

    def simp(self, atoms):
        out = []
        for a in atoms:
            if any(self.sub_atom(a, b) for b in out):
                continue
            out = [b for b in out if not self.sub_atom(b, a)] + [a]
        return tuple(out)

    def all_attrs(self, c):
        res = []
        for k in reversed(self.mro(c)):
            res += self.classes[k].attrs
        return res

    def attr_ty(self, c, f):
        for k in self.mro(c):
            for g, t in self.classes[k].attrs:
                if g == f:
                    return t
        return None

    def meth(self, c, m):
        for k in self.mro(c):
            for g, fd in self.classes[k].methods:
                if g == m:
                    return fd
        return None

    def all_meths(self, c):
        seen, res = set(), []
        for k in self.mro(c):
            for g, fd in self.classes[k].methods:
                if g not in seen:
                    seen.add(g)
                    res.append((g, fd))
        return res


class Gen:
    def __init__(self, rng, size: str = "normal"):
        self.r = rng
        self.size = size
        self.probe_id = 0
        self.stats: dict[str, int] = {}

    def stat(self, k):
        self.stats[k] = self.stats.get(k, 0) + 1

    # ------------------------------------------------------------------------------------- types
    def rand_cls_ty(self, ncls, below=None):
        r = self.r
        pool = list(range(ncls if below is None else below))
        if not pool:
            return INT
        return (C(r.choice(pool)),)

    def rand_ty(self, ncls, *, nonopt_below=None, allow_obj=True):
        """A declared type.  Unions are antichains (never `Union[Sub, Base]`, never `bool | int`)."""
        r = self.r
        k = r.random()
        if k < 0.18: return INT
        if k < 0.28: return STR
        if k < 0.34: return BOOL
        if ncls == 0:
            return INT
        if k < 0.52:
            lim = ncls if nonopt_below is None else nonopt_below
            return (C(r.randrange(lim)),) if lim > 0 else (C(r.randrange(ncls)), N)
        if k < 0.72: return (C(r.randrange(ncls)), N)
        if k < 0.86 or not allow_obj:
            a, b = r.randrange(ncls), r.randrange(ncls)
            items = self.h.simp([C(a), C(b)] + ([N] if r.random() < 0.35 else []))
            if nonopt_below is not None and N not in items and any(x[1] >= nonopt_below for x in items):
                items = items + (N,)
            return items
        if k < 0.92: return (I, N)
        if k < 0.96: return self.h.simp([r.choice([I, S]), C(r.randrange(ncls))])
        return OBJ

    # ------------------------------------------------------------------------------------- classes
    def gen_classes(self):
        r = self.r
        n = r.randint(2, 6)
        classes: list[Cls] = []
        self.h = Hier(classes)
        meth_names = [0, 1, 2, 3]
        # now and then a deep multiple-inheritance skeleton: two unrelated roots, a child of each, and a class
        # inheriting from both children (names can then clash between *grandparents* of the last class)
        deep = r.random() < 0.3
        if deep:
            n = r.randint(5, 7)
            forced = {0: [], 1: [], 2: [0], 3: [1], 4: ([2, 3] if r.random() < 0.5 else [3, 2])}
            self.stat("deep-mi-skeleton")
        else:
            forced = {}
        for c in range(n):
            bases = [r.randrange(c)] if c > 0 and r.random() < 0.65 else []
            if bases and c >= 2 and r.random() < 0.35:
                # multiple inheritance: a second base that is not related to the first
                b1 = bases[0]
                cands = [b for b in range(c) if b != b1 and b not in classes[b1].mro and b1 not in classes[b].mro]
                if cands:
                    bases = sorted([b1, r.choice(cands)], reverse=r.random() < 0.5)
            if c in forced:
                bases = list(forced[c])
            cd = Cls(bases, [], [], [], [])
            rest = c3([classes[b].mro for b in bases], bases)
            if rest is None:
                cd.bases = bases[:1]
                rest = list(classes[bases[0]].mro)
            cd.mro = [c] + rest
            classes.append(cd)
        for c, cd in enumerate(classes):
            for _ in range(r.choice([0, 1, 1, 2, 2, 3])):
                # attribute names come from a small pool, so unrelated classes may declare the same name with
                # different types (union receivers then see a union of attribute types); never a redeclaration
                # of an inherited attribute (F18)
                f = r.randrange(8)
                if any(g == f for g, _ in self.h.all_attrs(c)):
                    continue
                # non-optional class-typed attributes only point to earlier classes, so that instances can be built
                t = self.rand_ty(n, nonopt_below=c, allow_obj=False)
                cd.attrs.append((f, t))
        # method signatures (an override starts from the definition the class would inherit)
        for c, cd in enumerate(classes):
            inherited = {}
            for k in cd.mro[1:]:
                for m, fd in classes[k].methods:
                    inherited.setdefault(m, fd)
            for m in r.sample(meth_names, r.choice([0, 1, 1, 2])):
                if m in inherited:
                    sup = inherited[m]
                    params = [self.widen(t) if r.random() < 0.3 else t for t in sup.params]
                    ret = self.narrow_ret(sup.ret) if r.random() < 0.3 else sup.ret
                    self.stat("override")
                else:
                    params = [self.rand_ty(n) for _ in range(r.choice([0, 1, 1, 2]))]
                    ret = r.choice([NONE, INT, STR, BOOL, self.rand_ty(n)])
                fd = Func(params, [], ret, None)
                cd.methods.append((m, fd))
            # a user-defined `__bool__` (method id 9): instances of the class may then be false
            if r.random() < 0.3:
                cd.methods.append((BOOL_METH, Func([], [], BOOL, None)))
                self.stat("class-with-__bool__")
        # multiple inheritance must be compatible (mypy: check_multiple_inheritance + check_method_override against
        # every class of the MRO); where it is not, the second base is dropped
        for _ in range(n + 1):
            bad = [c for c, cd in enumerate(classes) if len(cd.bases) > 1 and not self.mi_compatible(c)]
            if not bad:
                break
            classes[bad[0]].bases = classes[bad[0]].bases[:1]
            for c, cd in enumerate(classes):
                rest = c3([classes[b].mro for b in cd.bases], cd.bases)
                if rest is None:
                    cd.bases = cd.bases[:1]
                    rest = list(classes[cd.bases[0]].mro)
                cd.mro = [c] + rest
        for cd in classes:
            if len(cd.bases) > 1:
                self.stat("multiple-inheritance")
        # an own method must fit every definition in the MRO tail, an own attribute must be new
        for c, cd in enumerate(classes):
            tail = cd.mro[1:]
            cd.attrs = [(f, t) for f, t in cd.attrs if not any(f == g for k in tail for g, _ in classes[k].attrs)]
            cd.methods = [(m, fd) for m, fd in cd.methods
                          if all(self.override_ok(fd, fd2) for k in tail for m2, fd2 in classes[k].methods if m2 == m)]
        # __init__: one parameter per attribute (sometimes a constant instead); all signatures first,
        # then the constants (which may construct instances of any class)
        plans = []
        for c, cd in enumerate(classes):
            plan = []
            for f, t in self.h.all_attrs(c):
                if r.random() < 0.8:
                    cd.init_params.append(t)
                    plan.append((f, t, len(cd.init_params) - 1))
                else:
                    plan.append((f, t, None))
            plans.append(plan)
        for c, cd in enumerate(classes):
            for f, t, i in plans[c]:
                cd.init_assigns.append((f, ("var", i) if i is not None else self.const_of(t, c)))
        for c, cd in enumerate(classes):
            for m, fd in cd.methods:
                if m == BOOL_METH:
                    fd.body = ("ret", self.bool_body(c))
                else:
                    self.gen_body(fd, self_cls=c, callable_funcs=[], simple=True)
        return classes

    def bool_body(self, c):
        """the value of `__bool__`: a bool expression over the attributes of `self` (or a constant)"""
        r = self.r
        me = ("var", 0)
        opts = []
        for f, t in self.h.all_attrs(c):
            if t == BOOL:
                opts += [("attr", me, f), ("not", ("attr", me, f))]
            elif t == INT:
                opts += [("lt", ("attr", me, f), ("intLit", r.choice([0, 1, 2]))), ("lt", ("intLit", r.choice([0, 1])), ("attr", me, f))]
        opts.append(("boolLit", r.random() < 0.4))
        return r.choice(opts)

    def override_ok(self, sub: Func, sup: Func) -> bool:
        return (len(sub.params) == len(sup.params) and all(self.h.sub_ty(b, a) for a, b in zip(sub.params, sup.params))
                and self.h.sub_ty(sub.ret, sup.ret))

    def mi_compatible(self, c) -> bool:
        """the first class of mro[1:] defining a name against every later one that is not among its ancestors:
        methods must override compatibly, attributes must have the same type"""
        classes = self.h.classes
        tail = classes[c].mro[1:]
        names_m = {m for k in tail for m, _ in classes[k].methods}
        for m in names_m:
            defs = [(k, fd) for k in tail for m2, fd in classes[k].methods if m2 == m]
            k0, fd0 = defs[0]
            for k2, fd2 in defs[1:]:
                if k2 not in classes[k0].mro and not self.override_ok(fd0, fd2):
                    return False
        names_a = {f for k in tail for f, _ in classes[k].attrs}
        for f in names_a:
            defs = [(k, t) for k in tail for f2, t in classes[k].attrs if f2 == f]
            k0, t0 = defs[0]
            for k2, t2 in defs[1:]:
                if k2 not in classes[k0].mro and t0 != t2:
                    return False
        return True

    def widen(self, t):
        if N not in t and O not in t:
            return t + (N,)
        return t

    def narrow_ret(self, t):
        if len(t) > 1:
            return (t[0],)
        if t[0] not in (I, S, B, N, O):
            subs = self.h.subclasses(t[0][1])
            return (C(self.r.choice(subs)),)
        return t

    def const_of(self, t, below):
        """closed expression of type ≤ t built from literals and constructors of classes < below"""
        return self.closed(t, below, 2, persist=True)

    def closed(self, t, below, depth, persist=False):
        r = self.r
        atoms = list(t)
        r.shuffle(atoms)
        if N in atoms and (depth <= 0 or r.random() < 0.3):
            return ("noneLit",)
        for a in atoms:
            if a == I: return ("intLit", r.choice([0, 1, 2, 7, -3]))
            if a == S: return ("strLit", [ord(ch) for ch in r.choice(["", "a", "xy"])])
            if a == B: return ("boolLit", r.random() < 0.5)
            if a == O: return ("intLit", 5) if r.random() < 0.5 else ("noneLit",)
            if a == N: continue
            cands = [k for k in self.h.subclasses(a[1]) if below is None or k < below]
            if not cands:
                continue
            k = r.choice(cands) if depth > 0 else min(cands)
            cd = self.h.classes[k]
            outer = below if persist else None
            return ("new", k, [self.closed(p, (k if outer is None else min(k, outer)) if N not in p else outer,
                                           depth - 1, persist) for p in cd.init_params])
        if N in atoms:
            return ("noneLit",)
        raise RuntimeError(f"cannot build a closed value of {t}")

    # ------------------------------------------------------------------------------------- bodies
    def new_probe(self, e):
        self.probe_id += 1
        return ("expr", ("probe", self.probe_id, e))

    def gen_body(self, fd: Func, self_cls, callable_funcs, simple=False):
        r = self.r
        self.fd = fd
        self.self_cls = self_cls
        self.funcs_ok = callable_funcs
        self.written: set = set()
        self.read: set = set()
        off = 1 if self_cls is not None else 0
        decl = ([(C(self_cls),)] if self_cls is not None else []) + list(fd.params)
        self.decl = decl
        env = {i: t for i, t in enumerate(decl)}
        stmts = []
        nloc = r.randint(0, 1) if simple else r.randint(1, 4)
        ncls = len(self.h.classes)
        for _ in range(nloc):
            t = self.rand_ty(ncls)
            x = len(decl)
            e = self.expr(t, env, 2)
            kind = "decl"
            if r.random() < 0.4:
                # un-annotated definition: the local gets exactly the type of its initialiser
                et = self.exact_type(e, env)
                if et is not None and et != NONE:
                    t, kind = et, "infer"
                    self.stat("inferred-local")
            decl.append(t)
            fd.locals.append(t)
            stmts.append((kind, x, e))
            env[x] = t
        self.protected = set()
        self.in_try = 0
        self.no_assign = False
        self.truth_tested = set()
        self.in_loop_guard = False
        self.loop_depth = 0
        self.watch = []
        budget = r.randint(1, 2) if simple else r.randint(3, 7)
        body, env, live = self.block(env, 0, budget, top=True)
        stmts += body
        if live:
            if fd.ret != NONE:
                stmts.append(("ret", self.expr(fd.ret, env, 2)))
            elif r.random() < 0.2:
                stmts.append(("ret", ("noneLit",)))
        fd.body = seq(stmts)

    def new_local(self, t, init):
        x = len(self.decl)
        self.decl.append(t)
        self.fd.locals.append(t)
        return x, ("decl", x, init)

    def class_atoms(self, t):
        return [a for a in t if isinstance(a, tuple)]

    def all_classes(self, t):
        return len(t) > 0 and all(isinstance(a, tuple) for a in t)

    def common_attrs(self, t):
        """attributes present on every item of a class-only type, with the (simplified union) type of the read"""
        if not self.all_classes(t):
            return []
        res = None
        for a in t:
            d = {k: [v] for k, v in self.h.all_attrs(a[1])}
            res = d if res is None else {k: v + d[k] for k, v in res.items() if k in d}
        return [(k, self.h.simp([x for ty in v for x in ty])) for k, v in res.items()]

    def common_meths(self, t):
        if not self.all_classes(t):
            return []
        res = None
        for a in t:
            # no explicit `x.__bool__()` calls: CPython has that method on None / int / str as well
            d = {m: fd for m, fd in self.h.all_meths(a[1]) if m != BOOL_METH}
            res = d if res is None else {k: v for k, v in res.items() if k in d}
        out = []
        for m in res:
            sigs = [self.h.meth(a[1], m) for a in t]
            if len({len(s.params) for s in sigs}) == 1:
                out.append((m, sigs))
        return out

    # expressions ---------------------------------------------------------------------------
    def expr(self, t, env, depth, *, avoid_lit=False):
        """an expression whose static type is ≤ t in env (conservatively)"""
        r = self.r
        cands = []
        for x, tx in env.items():
            if self.h.sub_ty(tx, t):
                cands.append(("var", x))
        if depth > 0:
            # attribute reads / method calls / function calls producing ≤ t
            for x, tx in env.items():
                for f, tf in self.common_attrs(tx):
                    if self.h.sub_ty(tf, t) and (x, f) not in self.written:
                        cands.append(("attr!", x, f))
                for m, sigs in self.common_meths(tx):
                    if all(s.ret != NONE for s in sigs) and self.h.sub_ty(self.h.simp([a for s in sigs for a in s.ret]), t) \
                            and self.self_cls is None:
                        cands.append(("callM!", x, m, sigs))
            for j in self.funcs_ok:
                fj = self.all_funcs[j]
                if fj.ret != NONE and self.h.sub_ty(fj.ret, t):
                    cands.append(("callF!", j))
        pick_var = cands and r.random() < (0.75 if depth > 0 else 0.95)
        if pick_var:
            c = r.choice(cands)
            if c[0] == "var":
                return c
            if c[0] == "attr!":
                self.read.add((c[1], c[2]))
                self.stat("attr-read")
                return ("attr", ("var", c[1]), c[2])
            if c[0] == "callM!":
                sig = c[3]
                args = [self.expr(self.meet_params([s.params[i] for s in sig]), env, depth - 1) for i in range(len(sig[0].params))]
                self.stat("method-call")
                return ("callM", ("var", c[1]), c[2], args)
            if c[0] == "callF!":
                fj = self.all_funcs[c[1]]
                self.stat("func-call")
                return ("callF", c[1], [self.expr(p, env, depth - 1) for p in fj.params])
        # build from scratch
        atoms = list(t)
        r.shuffle(atoms)
        for a in atoms:
            if a == I or a == O:
                if depth > 0 and r.random() < 0.4:
                    op = r.choice(["add", "add", "sub"])
                    self.stat("int-" + op)
                    return (op, self.expr(r.choice([INT, BOOL, INT]), env, depth - 1), self.expr(INT, env, depth - 1))
                if not avoid_lit:
                    return ("intLit", r.choice([0, 1, 2, 3, 7, -3]))
                return ("add", ("intLit", r.choice([0, 1])), ("intLit", 0))
            if a == S:
                if depth > 0 and r.random() < 0.4:
                    self.stat("str-add")
                    return ("add", self.expr(STR, env, depth - 1), self.expr(STR, env, depth - 1))
                if not avoid_lit:
                    return ("strLit", [ord(ch) for ch in r.choice(["", "a", "b", "xy"])])
                return ("add", ("strLit", [97]), ("strLit", []))
            if a == B:
                return self.bool_expr(env, depth)
            if a == N:
                return ("noneLit",)
            ks = self.h.subclasses(a[1])
            r.shuffle(ks)
            for k in ks:
                cd = self.h.classes[k]
                if depth > 0 or not cd.init_params:
                    self.stat("new")
                    return ("new", k, [self.expr(p, env, max(depth - 1, 0)) for p in cd.init_params])
            k = ks[0]
            return self.closed((C(k),), None, 1)
        raise RuntimeError(f"no expression of type {t}")

    def meet_params(self, ps):
        """a type accepted by every signature (they are equal or widened versions of one another)"""
        best = ps[0]
        for p in ps[1:]:
            if self.h.sub_ty(p, best):
                best = p
        return best

    def bool_expr(self, env, depth):
        r = self.r
        k = r.random()
        if k < 0.3 or depth <= 0:
            return ("boolLit", r.random() < 0.5)
        if k < 0.45:
            ints = [x for x, t in env.items() if t == INT]
            if len(ints) >= 1:
                return ("eq", ("var", r.choice(ints)), self.expr(INT, env, depth - 1, avoid_lit=True))
        if k < 0.55:
            self.stat("lt")
            t = r.choice([INT, INT, STR])
            return ("lt", self.expr(t, env, depth - 1), self.expr(t, env, depth - 1))
        if k < 0.75:
            c = self.narrow_cond(env)
            if c is not None:
                return ("not", c[0]) if c[0][0] == "var" else c[0]
        if k < 0.85:
            return ("not", self.bool_expr(env, depth - 1))
        strs = [x for x, t in env.items() if t == STR]
        if strs:
            return ("eq", ("var", r.choice(strs)), self.expr(STR, env, depth - 1, avoid_lit=True))
        return ("boolLit", True)

    # narrowing conditions ------------------------------------------------------------------
    def inst_split(self, t, c):
        yes, no = [], []
        for a in t:
            if self.h.sub_atom(a, C(c)):
                yes.append(a)
            elif a == O or (isinstance(a, tuple) and self.h.is_sub(c, a[1])):
                yes.append(C(c)); no.append(a)
            else:
                no.append(a)
        return self.h.simp(yes), self.h.simp(no)

    def drops_inhabited(self, t, c) -> bool:
        """isinstance(x, K_c) on a union would drop an item unrelated to K_c that shares a subclass with it (F-C01-3)"""
        if len(t) < 2:
            return False
        for a in t:
            if isinstance(a, tuple) and not self.h.is_sub(a[1], c) and not self.h.is_sub(c, a[1]):
                if any(self.h.is_sub(k, a[1]) and self.h.is_sub(k, c) for k in range(len(self.h.classes))):
                    return True
        return False

    def truth_ok(self, x) -> bool:
        return (not (self.self_cls is not None and x == 0) and self.loop_depth == 0 and not self.in_loop_guard
                and x not in self.truth_tested)

    def narrow_cond(self, env):
        """(condition, env if true, env if false) for a random narrowable local, or None"""
        r = self.r
        opts = []
        for x, t in env.items():
            if N in t and len(t) > 1:
                opts.append(("none", x))
                # one truthiness test per local and function, outside loops (mypy keeps can_be_true/can_be_false
                # flags on the narrowed type that a second test would observe)
                if all(a == N or isinstance(a, tuple) for a in t) and self.truth_ok(x):
                    opts.append(("truth", x))
            elif t and all(isinstance(a, tuple) and self.h.meth(a[1], BOOL_METH) is not None for a in t) and self.truth_ok(x):
                # an instance of a class with `__bool__`: both branches keep the type
                opts.append(("truth", x))
            if t == OBJ:
                opts.append(("none", x))
            for a in t:
                if a == O:
                    for c in range(len(self.h.classes)):
                        opts.append(("inst", x, c))
                elif isinstance(a, tuple):
                    for c in self.h.subclasses(a[1]):
                        if (c != a[1] or len(t) > 1) and not self.drops_inhabited(t, c):
                            opts.append(("inst", x, c))
        if not opts:
            return None
        o = r.choice(opts)
        x = o[1]
        t = env[x]
        if o[0] == "truth":
            # `if x:` — the true branch loses None, the false branch keeps the whole type
            e1 = dict(env)
            e1[x] = tuple(a for a in t if a != N)
            self.truth_tested.add(x)
            self.stat("narrow-truthiness")
            return (("var", x), e1, dict(env))
        if o[0] == "none":
            neg = r.random() < 0.5
            yes = (N,)
            no = tuple(a for a in t if a != N)
            e1, e2 = dict(env), dict(env)
            e1[x], e2[x] = yes, no
            self.stat("narrow-none")
            return (("isNone", x, neg), e2, e1) if neg else (("isNone", x, neg), e1, e2)
        yes, no = self.inst_split(t, o[2])
        if not yes:
            return None
        e1, e2 = dict(env), dict(env)
        e1[x] = yes
        if no:
            e2[x] = no
        else:
            e2 = None            # unreachable
        self.stat("narrow-isinstance")
        return (("isinst", x, o[2]), e1, e2)

    def compound_cond(self, env):
        """narrowing condition, possibly combined with and / or / not"""
        r = self.r
        c = self.narrow_cond(env)
        if c is None:
            return None
        cond, et, ef = c
        k = r.random()
        if k < 0.15:
            self.stat("cond-not")
            return ("not", cond), ef, et
        if cond[0] == "var":
            # a truthiness test is only bool-typed under `not`; as an operand of and/or use `not not x`
            if k < 0.5:
                return cond, et, ef
            cond = ("not", ("not", cond))
        if k < 0.4 and et is not None:
            c2 = self.narrow_cond(et)
            if c2 is not None and c2[1] is not None:
                self.stat("cond-and")
                c20 = ("not", ("not", c2[0])) if c2[0][0] == "var" else c2[0]
                # false branch: only what both falsities agree on — fall back to the original env
                return ("and", cond, c20), c2[1], dict(env)
        if k < 0.55 and ef is not None:
            c2 = self.narrow_cond(ef)
            if c2 is not None and c2[2] is not None:
                self.stat("cond-or")
                c20 = ("not", ("not", c2[0])) if c2[0][0] == "var" else c2[0]
                return ("or", cond, c20), dict(env), c2[2]
        if k < 0.65 and et is not None:
            self.stat("cond-and-opaque")
            ints = [x for x, t in env.items() if t == INT]
            if ints:
                opaque = ("eq", ("var", r.choice(ints)), ("add", ("intLit", r.choice([0, 1, 2])), ("intLit", 0)))
                return ("and", cond, opaque), et, dict(env)
        return cond, et, ef

    # statements ----------------------------------------------------------------------------
    def uses(self, x, t, env):
        """statements that observe local x at type t"""
        r = self.r
        out = [self.new_probe(("var", x))]
        for f, tf in self.common_attrs(t)[:2]:
            if (x, f) not in self.written and r.random() < 0.7:
                self.read.add((x, f))
                out.append(self.new_probe(("attr", ("var", x), f)))
                self.stat("attr-read")
        if self.self_cls is None:
            for m, sigs in self.common_meths(t)[:2]:
                if r.random() < 0.6:
                    args = [self.expr(self.meet_params([s.params[i] for s in sigs]), env, 1) for i in range(len(sigs[0].params))]
                    call = ("callM", ("var", x), m, args)
                    self.stat("method-call")
                    if all(s.ret == NONE for s in sigs) and len(t) == 1:
                        out.append(("expr", call))
                    elif len(t) > 1 and all(s.ret == NONE for s in sigs):
                        out.append(("expr", call))
                    elif all(s.ret != NONE for s in sigs):
                        out.append(self.new_probe(call))
        return out

    def reset_assigned(self, env, stmts):
        """conservative join: every local assigned in `stmts` falls back to its declared type"""
        env = dict(env)
        for x in assigned_vars(seq(stmts)):
            if x in env:
                env[x] = self.decl[x]
        return env

    def block(self, env, depth, budget, top=False, plain=False):
        """returns (statements, env after, falls through?); `plain`: observations only (finally clauses)"""
        r = self.r
        out = []
        env = dict(env)
        if plain:
            out.append(self.new_probe(("intLit", depth)))
            for _ in range(budget):
                x = r.choice(list(env))
                out += self.uses(x, env[x], env)
            return out, env, True
        if not top:
            out.append(self.new_probe(("intLit", depth)))      # marks the block as executed
        for _ in range(budget):
            k = r.random()
            if depth < 3 and r.random() < 0.13 and self.self_cls is None:
                stm, env, live = self.try_stmt(env, depth)
                out.append(stm)
                if not live:
                    return out, env, False
                continue
            if depth > 0 and r.random() < (0.05 if self.in_try else 0.012):
                out.append(("raise", r.randrange(3)))
                self.stat("raise")
                return out, env, False
            if k < 0.22 and depth < 3:
                c = self.compound_cond(env)
                if c is None:
                    continue
                cond, et, ef = c
                narrowed = [x for x in env if (et or env).get(x) != env[x]]
                tb, te_, tl = self.block(et, depth + 1, r.randint(1, 2)) if et is not None else ([("pass",)], env, True)
                if et is not None:
                    for x in narrowed[:1]:
                        tb = self.uses(x, et[x], et) + tb
                if ef is not None and r.random() < 0.7:
                    eb, ee_, el = self.block(ef, depth + 1, r.randint(1, 2))
                    changed = [x for x in env if ef.get(x) != env[x]]
                    for x in changed[:1]:
                        eb = self.uses(x, ef[x], ef) + eb
                else:
                    eb, ee_, el = [], ef if ef is not None else env, ef is not None
                self.stat("if")
                out.append(("ite", cond, seq(tb), seq(eb) if eb else ("pass",)))
                if not tl and not el:
                    return out, env, False
                # after the join: narrowing is kept only if one side does not fall through
                if tl and el:
                    # both fall through: the checker joins the branch types (simplified union)
                    env = {x: self.h.simp(list(te_.get(x, env[x])) + list(ee_.get(x, env[x]))) for x in env}
                elif tl:
                    env = self.reset_assigned(te_, tb + eb) if et is not None else env
                else:
                    env = self.reset_assigned(ee_, tb + eb)
                    self.stat("guard-return")
            elif 0.2 <= k < 0.27 and self.loop_depth > 0 and depth < 4:
                j = self.jump_if(env, depth)
                if j is None:
                    continue
                out.append(j[0])
                env = j[1]
            elif k < 0.30 and depth < 2 and self.self_cls is None:
                stm = self.loop(env, depth)
                out += stm
                env = self.reset_assigned(env, stm)
            elif k < 0.50:
                # reassignment of a local, narrowing it to the assigned type
                xs = [x for x in env if not (self.self_cls is not None and x == 0) and x not in self.protected]
                if not xs:
                    continue
                x = r.choice(xs)
                dt = self.decl[x]
                sub = self.pick_subtype(dt)
                e = self.expr(sub, env, 2)
                out.append(("assign", x, e))
                self.stat("assign")
                env[x] = self.static_of(e, env, sub)
                out += self.uses(x, env[x], env)
            elif k < 0.62:
                # attribute assignment through a single-class receiver
                xs = [x for x, t in env.items() if len(t) == 1 and isinstance(t[0], tuple) and self.h.all_attrs(t[0][1])]
                if not xs:
                    continue
                x = r.choice(xs)
                owner = self.self_cls if (self.self_cls is not None and x == 0) else env[x][0][1]
                if not self.h.all_attrs(owner):
                    continue
                f, tf = r.choice(self.h.all_attrs(owner))
                if (x, f) in self.read:
                    continue
                self.written.add((x, f))
                self.stat("attr-write")
                out.append(("setAttr", ("var", x), f, self.expr(self.pick_subtype(tf), env, 2)))
            elif k < 0.72 and self.funcs_ok:
                j = r.choice(self.funcs_ok)
                fj = self.all_funcs[j]
                call = ("callF", j, [self.expr(p, env, 1) for p in fj.params])
                self.stat("func-call")
                out.append(("expr", call) if fj.ret == NONE else self.new_probe(call))
            elif k < 0.80 and depth > 0 and self.fd.ret == NONE and r.random() < 0.5:
                out.append(("ret", ("noneLit",)))
                self.stat("early-return")
                return out, env, False
            elif k < 0.86 and depth > 0 and self.fd.ret != NONE:
                out.append(("ret", self.expr(self.fd.ret, env, 2)))
                self.stat("early-return")
                return out, env, False
            else:
                x = r.choice(list(env))
                out += self.uses(x, env[x], env)
        return out, env, True

    def try_stmt(self, env, depth):
        """try / except (kinds) / [else] / [finally]; handler and finally start from a conservative state: every local
        assigned in the protected part has its declared type.  Returns (statement, env after, falls through?)"""
        r = self.r
        self.stat("try")
        self.in_try += 1
        body, eb, lb = self.block(env, depth + 1, r.randint(1, 3))
        self.in_try -= 1
        # make sure something can raise in the body
        if r.random() < 0.7:
            ints = [x for x, t in env.items() if t == INT]
            guard = ("lt", ("var", r.choice(ints)), ("intLit", r.choice([1, 2, 3]))) if ints else ("boolLit", True)
            body.insert(r.randrange(len(body) + 1) if lb else 0,
                        ("ite", guard, ("raise", r.randrange(3)), ("pass",)))
        kinds = sorted(r.sample([0, 1, 2], r.choice([1, 1, 2, 3])))
        eh0 = self.reset_assigned(env, body)
        hb, eh, lh = self.block(eh0, depth + 1, r.randint(1, 2))
        for x in list(assigned_vars(seq(body)) & set(env))[:1]:
            hb = [self.new_probe(("var", x))] + hb
        if lb and r.random() < 0.35:
            els, ee, le = self.block(eb, depth + 1, r.randint(1, 2))
            self.stat("try-else")
        else:
            els, ee, le = [], eb, lb
        fin = None
        if r.random() < 0.4:
            ef0 = self.reset_assigned(env, body + hb + els)
            saved = self.no_assign
            self.no_assign = True              # a finally clause that assigns locals changes what a pending jump saw
            fb, _, _ = self.block(ef0, depth + 1, r.randint(1, 2), plain=True)
            self.no_assign = saved
            fin = seq(fb)
            self.stat("finally")
        stm = ("try", seq(body), kinds, seq(hb), seq(els) if els else ("pass",), fin)
        live = le or lh
        after = self.reset_assigned(env, body + hb + els)
        return stm, after, live

    def jump_if(self, env, depth):
        """`if <cond>: … break|continue` — what follows sees the negated condition; (statement, env after) or None"""
        r = self.r
        c = self.compound_cond(env)
        if c is None or c[1] is None or c[2] is None:
            ints = [x for x, t in env.items() if t == INT and x not in self.protected]
            if not ints:
                return None
            c = (("lt", ("var", r.choice(ints)), ("intLit", r.choice([0, 1, 2]))), dict(env), dict(env))
        cond, et, ef = c
        narrowed = [x for x in env if et.get(x) != env[x]]
        tb = [self.new_probe(("intLit", depth + 1))]
        for x in narrowed[:1]:
            tb += self.uses(x, et[x], et)
        jump = r.choice(["brk", "cont"])
        self.stat("break" if jump == "brk" else "continue")
        carried = [x for x in env if x not in self.protected and not (self.self_cls is not None and x == 0)
                   and (len(self.decl[x]) > 1 or isinstance(self.decl[x][0], tuple))]
        if carried and r.random() < 0.7:
            # assign a local just before jumping: the loop head (continue) / the code after the loop (break)
            # must account for the assigned type — preferably the loop-carried local, with a type it does not
            # get elsewhere in the loop
            cv = getattr(self, "carried_var", None)
            x = cv[0] if cv is not None and cv[0] in carried and r.random() < 0.8 else r.choice(carried)
            t3 = self.pick_subtype(self.decl[x])
            if cv is not None and cv[0] == x:
                fresh = [(a,) for a in self.decl[x] if (a,) not in cv[1]]
                if fresh:
                    t3 = r.choice(fresh)
            tb.append(("assign", x, self.expr(t3, et, 1)))
            self.stat("assign-before-jump")
            self.watch.append(x)
        return ("ite", cond, seq(tb + [(jump,)]), ("pass",)), ef

    def pick_subtype(self, t):
        r = self.r
        if len(t) > 1 and r.random() < 0.6:
            return (r.choice(t),)
        if len(t) == 1 and isinstance(t[0], tuple) and r.random() < 0.5:
            return (C(r.choice(self.h.subclasses(t[0][1]))),)
        return t

    def static_of(self, e, env, bound):
        """static type of a freshly generated expression when it is obvious, else the bound it was built for"""
        if e[0] == "var": return env[e[1]]
        if e[0] == "new": return (C(e[1]),)
        if e[0] == "noneLit": return NONE
        if e[0] == "intLit": return INT
        if e[0] == "strLit": return STR
        if e[0] == "boolLit": return BOOL
        return bound

    def exact_type(self, e, env):
        """the static type of e where it is certain (used at the top of a body, before any narrowing), else None"""
        t = e[0]
        if t == "var": return env.get(e[1]) if env.get(e[1]) == self.decl[e[1]] else None
        if t == "new": return (C(e[1]),)
        if t == "intLit": return INT
        if t == "strLit": return STR
        if t in ("boolLit", "isinst", "isNone", "not", "eq", "lt"): return BOOL
        if t == "sub": return INT
        if t == "add":
            a = self.exact_type(e[1], env)
            return None if a is None else (STR if a == STR else INT)
        if t == "callF": return self.all_funcs[e[1]].ret
        if t == "attr" and e[1][0] == "var":
            tx = env.get(e[1][1])
            if tx is None or tx != self.decl[e[1][1]]:
                return None
            got = [ty for f, ty in self.common_attrs(tx) if f == e[2]]
            return got[0] if got else None
        if t == "callM" and e[1][0] == "var":
            tx = env.get(e[1][1])
            if tx is None or tx != self.decl[e[1][1]] or len(tx) != 1:
                return None
            fd = self.h.meth(tx[0][1], e[2])
            return fd.ret if fd is not None else None
        return None

    def loop(self, env, depth):
        """`while <guard> and not (i == lim): i = i + 1; body` — always terminates"""
        r = self.r
        i, d1 = self.new_local(INT, ("intLit", 0))
        lim, d2 = self.new_local(INT, ("intLit", r.choice([1, 2, 3])))
        self.protected |= {i, lim}
        env0 = dict(env)
        env = dict(env)
        env[i] = INT
        env[lim] = INT
        counter = ("lt", ("var", i), ("var", lim)) if r.random() < 0.7 else ("not", ("eq", ("var", i), ("var", lim)))
        # inside the body every local that the body assigns has its declared type (the back edge widens it);
        # generate the body first with everything reset, then keep it.
        base_env = {x: self.decl[x] for x in env}
        cond, et = counter, base_env
        if r.random() < 0.5:
            self.in_loop_guard = True
            c = self.narrow_cond(base_env)
            self.in_loop_guard = False
            if c is not None and c[1] is not None:
                c0 = ("not", ("not", c[0])) if c[0][0] == "var" else c[0]
                cond, et = ("and", c0, counter), c[1]
                self.stat("loop-narrowing-guard")
        pre, post = [], []
        carried = [x for x in env if x not in self.protected and not (self.self_cls is not None and x == 0)
                   and (len(self.decl[x]) > 1 or isinstance(self.decl[x][0], tuple))]
        if carried and r.random() < 0.65:
            # a loop-carried local: narrowed by an assignment before the loop, observed at the top of the body,
            # assigned something else at the end of the body — its type in the body is the fixpoint, not the entry type
            x = r.choice(carried)
            t1, t2 = self.pick_subtype(self.decl[x]), self.pick_subtype(self.decl[x])
            self.carried_var = (x, [t1, t2])
            pre.append(("assign", x, self.expr(t1, env0, 1)))
            post.append(("assign", x, self.expr(t2, et, 1)))
            self.stat("loop-carried-local")
            head = self.uses(x, et[x], et)
        else:
            head = []
            self.carried_var = None
        self.loop_depth += 1
        outer_watch, self.watch = self.watch, []
        if r.random() < 0.5:
            j = self.jump_if(et, depth + 1)
            if j is not None:
                head = head + [j[0]]
                et = j[1]
        body, _, live = self.block(et, depth + 1, r.randint(1, 3))
        self.loop_depth -= 1
        # locals assigned just before a break/continue are observed at the top of the body (next iteration)
        head = [self.new_probe(("var", x)) for x in sorted(set(self.watch))] + head
        self.watch = outer_watch
        if not live:
            post = []
        inc = ("assign", i, ("add", ("var", i), ("intLit", 1)))
        self.stat("while")
        return pre + [d1, d2, ("while", cond, seq([inc] + head + body + post))]

    # ------------------------------------------------------------------------------------- programs
    def program(self):
        r = self.r
        self.probe_id = 0
        classes = self.gen_classes()
        nf = r.randint(2, 4) if self.size == "normal" else r.randint(1, 2)
        funcs: list[Func] = []
        self.all_funcs = funcs
        ncls = len(classes)
        for i in range(nf):
            params = [self.rand_ty(ncls) for _ in range(r.randint(1, 3))]
            ret = r.choice([NONE, NONE, INT, STR, BOOL, self.rand_ty(ncls, allow_obj=False)])
            fd = Func(params, [], ret, None)
            self.gen_body(fd, None, list(range(i)))
            funcs.append(fd)
        # alias wrappers: one object passed for two parameters (attribute writes through one are seen through the other)
        for i in range(nf):
            fd = funcs[i]
            if r.random() < 0.5:
                continue
            pairs = [(a, b) for a in range(len(fd.params)) for b in range(a + 1, len(fd.params))]
            r.shuffle(pairs)
            for a, b in pairs:
                both = [k for k in range(ncls) if self.h.sub_ty((C(k),), fd.params[a]) and self.h.sub_ty((C(k),), fd.params[b])]
                if not both:
                    continue
                k = r.choice(both)
                ps = [(C(k),)] + [t for j, t in enumerate(fd.params) if j not in (a, b)]
                args, nxt = [], 1
                for j in range(len(fd.params)):
                    if j in (a, b):
                        args.append(("var", 0))
                    else:
                        args.append(("var", nxt)); nxt += 1
                call = ("callF", i, args)
                body = ("expr", call) if fd.ret == NONE else ("ret", call)
                funcs.append(Func(ps, [], fd.ret, body))
                self.stat("alias-wrapper")
                break
        p = Prog(classes, funcs)
        calls = []
        for i, fd in enumerate(funcs):
            for _ in range(r.randint(3, 6)):
                calls.append((i, [self.input_value(t) for t in fd.params]))
        return p, calls

    def input_value(self, t):
        """closed argument expression inhabiting t (bool for int now and then: PEP 484 promotion)"""
        r = self.r
        if t == INT and r.random() < 0.15:
            return ("boolLit", r.random() < 0.5)
        if t == OBJ:
            t = r.choice([INT, STR, NONE, BOOL] + [(C(k),) for k in range(len(self.h.classes))])
        return self.closed(t, None, 2)


def assigned_vars(s) -> set:
    t = s[0]
    if t in ("assign", "decl", "infer"):
        return {s[1]}
    if t == "ite":
        return assigned_vars(s[2]) | assigned_vars(s[3])
    if t == "while":
        return assigned_vars(s[2])
    if t == "seq":
        return assigned_vars(s[1]) | assigned_vars(s[2])
    if t == "try":
        return assigned_vars(s[1]) | assigned_vars(s[3]) | assigned_vars(s[4]) | (assigned_vars(s[5]) if s[5] is not None else set())
    return set()


# ------------------------------------------------------------------------------------------ perturbation

def map_stmt(s, fe, fs):
    """rebuild statement s applying fs to sub-statements (post-order) and fe to expressions"""
    t = s[0]
    if t == "seq":
        r = ("seq", map_stmt(s[1], fe, fs), map_stmt(s[2], fe, fs))
    elif t == "ite":
        r = ("ite", fe(s[1]), map_stmt(s[2], fe, fs), map_stmt(s[3], fe, fs))
    elif t == "while":
        r = ("while", fe(s[1]), map_stmt(s[2], fe, fs))
    elif t in ("decl", "assign", "infer"):
        r = (t, s[1], fe(s[2]))
    elif t == "setAttr":
        r = (t, fe(s[1]), s[2], fe(s[3]))
    elif t in ("expr", "ret"):
        r = (t, fe(s[1]))
    elif t == "try":
        r = ("try", map_stmt(s[1], fe, fs), s[2], map_stmt(s[3], fe, fs), map_stmt(s[4], fe, fs),
             map_stmt(s[5], fe, fs) if s[5] is not None else None)
    else:
        r = s
    return fs(r)


def map_expr(e, f):
    t = e[0]
    if t in ("attr",):
        r = (t, map_expr(e[1], f), e[2])
    elif t == "callM":
        r = (t, map_expr(e[1], f), e[2], [map_expr(a, f) for a in e[3]])
    elif t in ("callF", "new"):
        r = (t, e[1], [map_expr(a, f) for a in e[2]])
    elif t == "not":
        r = (t, map_expr(e[1], f))
    elif t in ("and", "or", "eq", "add", "sub", "lt"):
        r = (t, map_expr(e[1], f), map_expr(e[2], f))
    elif t == "probe":
        r = (t, e[1], map_expr(e[2], f))
    else:
        r = e
    return f(r)


def count_sites(p: Prog, pred_e, pred_s):
    n = [0]

    def fe(e):
        def f(x):
            if pred_e(x): n[0] += 1
            return x
        return map_expr(e, f)

    def fs(s):
        if pred_s(s): n[0] += 1
        return s
    for fd in all_bodies(p):
        map_stmt(fd.body, fe, fs)
    return n[0]


def all_bodies(p: Prog):
    for cd in p.classes:
        for _, fd in cd.methods:
            yield fd
    yield from p.funcs


PERTURBATIONS = ["drop-guard", "swap-lit", "widen-param", "swap-args", "ret-type", "attr-type", "none-arg", "drop-init",
                 "narrow-override", "cond-drop-left", "mi-conflict", "mi-conflict-deep", "bool-sig"]


def perturb(p: Prog, rng, prefer: str | None = None):
    """one ill-typing edit (the preferred kind if the program has a site for it); (new program, kind) or None"""
    import copy
    q = copy.deepcopy(p)
    kinds = list(PERTURBATIONS)
    rng.shuffle(kinds)
    if prefer is not None:
        kinds.remove(prefer)
        kinds.insert(0, prefer)
    for kind in kinds:
        if kind == "drop-guard":
            sites = count_sites(q, lambda e: False, lambda s: s[0] == "ite" and s[1][0] in ("isinst", "isNone", "and", "not", "or"))
            if not sites:
                continue
            target = rng.randrange(sites)
            n = [0]

            def fs(s):
                if s[0] == "ite" and s[1][0] in ("isinst", "isNone", "and", "not", "or"):
                    n[0] += 1
                    if n[0] - 1 == target:
                        return s[2]
                return s
            for fd in all_bodies(q):
                fd.body = map_stmt(fd.body, lambda e: e, fs)
            return q, kind
        if kind == "swap-lit":
            pe = lambda e: e[0] in ("intLit", "strLit") or (e[0] == "new")
            sites = count_sites(q, pe, lambda s: False)
            if not sites:
                continue
            target = rng.randrange(sites)
            n = [0]

            def f(e):
                if pe(e):
                    n[0] += 1
                    if n[0] - 1 == target:
                        if e[0] == "intLit": return ("strLit", [122])
                        if e[0] == "strLit": return ("intLit", 4)
                        return ("noneLit",)
                return e
            for fd in all_bodies(q):
                fd.body = map_stmt(fd.body, lambda e: map_expr(e, f), lambda s: s)
            return q, kind
        if kind == "widen-param":
            fds = [fd for fd in all_bodies(q) if any(N not in t and O not in t for t in fd.params)]
            if not fds:
                continue
            fd = rng.choice(fds)
            i = rng.choice([i for i, t in enumerate(fd.params) if N not in t and O not in t])
            fd.params[i] = fd.params[i] + (N,)
            return q, kind
        if kind == "swap-args":
            pe = lambda e: (e[0] in ("callF", "new") and len(e[2]) >= 2) or (e[0] == "callM" and len(e[3]) >= 2)
            sites = count_sites(q, pe, lambda s: False)
            if not sites:
                continue
            target = rng.randrange(sites)
            n = [0]

            def f(e):
                if pe(e):
                    n[0] += 1
                    if n[0] - 1 == target:
                        args = list(e[-1])
                        args[0], args[1] = args[1], args[0]
                        return e[:-1] + (args,)
                return e
            for fd in all_bodies(q):
                fd.body = map_stmt(fd.body, lambda e: map_expr(e, f), lambda s: s)
            return q, kind
        if kind == "ret-type":
            fds = [fd for fd in all_bodies(q) if fd.ret not in (NONE, OBJ)]
            if not fds:
                continue
            fd = rng.choice(fds)
            fd.ret = STR if fd.ret != STR else INT
            return q, kind
        if kind == "attr-type":
            cs = [cd for cd in q.classes if cd.attrs]
            if not cs:
                continue
            cd = rng.choice(cs)
            i = rng.randrange(len(cd.attrs))
            f, t = cd.attrs[i]
            cd.attrs[i] = (f, STR if t != STR else INT)
            return q, kind
        if kind == "none-arg":
            pe = lambda e: (e[0] in ("callF", "new") and len(e[2]) >= 1) or (e[0] == "callM" and len(e[3]) >= 1)
            sites = count_sites(q, pe, lambda s: False)
            if not sites:
                continue
            target = rng.randrange(sites)
            n = [0]

            def f(e):
                if pe(e):
                    n[0] += 1
                    if n[0] - 1 == target:
                        args = list(e[-1])
                        args[rng.randrange(len(args))] = ("noneLit",)
                        return e[:-1] + (args,)
                return e
            for fd in all_bodies(q):
                fd.body = map_stmt(fd.body, lambda e: map_expr(e, f), lambda s: s)
            return q, kind
        if kind in ("mi-conflict", "mi-conflict-deep"):
            # two bases of one class inherit (or define) the same method incompatibly — preferably from ancestors that
            # are *not* direct bases of the class; new functions call it through each base's static type
            sites = []
            for c, cd in enumerate(q.classes):
                if len(cd.bases) < 2:
                    continue
                b1, b2 = cd.bases[0], cd.bases[1]
                side1 = q.classes[b1].mro
                side2 = [k for k in q.classes[b2].mro if k not in side1]
                for k1 in side1:
                    for m, fd in q.classes[k1].methods:
                        if m == BOOL_METH:
                            continue
                        defined2 = any(m == m2 for k in q.classes[b2].mro for m2, _ in q.classes[k].methods)
                        own = any(m == m2 for m2, _ in cd.methods)
                        if not defined2 and side2 and not own:
                            deep1 = k1 != b1 and not any(m == m2 for m2, _ in q.classes[b1].methods)
                            for k2 in side2:
                                sites.append((deep1 and k2 != b2, c, b1, b2, k2, m, fd))
            if not sites:
                continue
            if kind == "mi-conflict-deep":
                sites = [x for x in sites if x[0]]
                if not sites:
                    # no inherited method to clash with: give a grandparent on the first side a fresh method
                    fresh = []
                    for c, cd in enumerate(q.classes):
                        if len(cd.bases) < 2:
                            continue
                        b1, b2 = cd.bases[0], cd.bases[1]
                        side1 = q.classes[b1].mro
                        side2 = [k for k in q.classes[b2].mro if k not in side1]
                        used = {m2 for k in cd.mro for m2, _ in q.classes[k].methods}
                        free = [m for m in range(4, 9) if m not in used]
                        for k1 in side1[1:]:
                            if k1 in q.classes[b2].mro or not free:
                                continue
                            for k2 in side2[1:]:
                                fresh.append((c, b1, b2, k1, k2, free[0]))
                    if not fresh:
                        continue
                    c, b1, b2, k1, k2, m = rng.choice(fresh)
                    fd = Func([], [], INT, ("ret", ("intLit", 3)))
                    q.classes[k1].methods.append((m, fd))
                    sites = [(True, c, b1, b2, k2, m, fd)]
            pick = rng.choice(sites)
            _, c, b1, b2, k2, m, fd = pick
            h = Hier(q.classes)
            g = Gen(rng)
            g.h = h
            first = h.meth(c, m)                       # the definition instances of c really use
            if rng.random() < 0.5 or first.ret not in (INT, STR, BOOL):
                # different arity
                ret = fd.ret if fd.ret in (NONE, INT, STR, BOOL) else NONE
                params = list(fd.params) + [INT]
                args = [g.closed(t, None, 1) for t in fd.params] + [("intLit", 1)]
            else:
                # same parameters, an unrelated return type
                ret = STR if first.ret != STR else INT
                params = list(fd.params)
                args = [g.closed(t, None, 1) for t in fd.params]
            body = {NONE: ("pass",), INT: ("ret", ("intLit", 0)), STR: ("ret", ("strLit", [])), BOOL: ("ret", ("boolLit", True))}[ret]
            q.classes[k2].methods.append((m, Func(params, [], ret, body)))
            q.extra_calls = []
            for b, aa in ((b2, args), (b1, [g.closed(t, None, 1) for t in first.params])):
                sig = h.meth(b, m) if b == b1 else None
                rt = ret if b == b2 else (sig.ret if sig else NONE)
                call = ("callM", ("var", 0), m, aa)
                q.funcs.append(Func([(C(b),)], [], NONE, ("expr", call) if rt == NONE else ("expr", ("probe", 900001 + b, call))))
                q.extra_calls.append((len(q.funcs) - 1, [g.closed((C(c),), None, 2)]))
            return q, kind
        if kind == "bool-sig":
            # `__bool__` with a signature CPython cannot use for a truth test (mypy does not check it: F-C01-8)
            sites = [(c, fd) for c, cd in enumerate(q.classes) for m, fd in cd.methods if m == BOOL_METH]
            if not sites:
                continue
            c, fd = rng.choice(sites)
            if rng.random() < 0.5:
                fd.ret = INT
                fd.body = ("ret", ("intLit", rng.choice([0, 1, 2])))
            else:
                fd.params = [INT]
            g = Gen(rng)
            g.h = Hier(q.classes)
            q.funcs.append(Func([(C(c),)], [], INT, seq([("ite", ("var", 0), ("ret", ("intLit", 1)), ("pass",)), ("ret", ("intLit", 0))])))
            q.extra_calls = [(len(q.funcs) - 1, [g.closed((C(c),), None, 2)])]
            return q, kind
        if kind == "narrow-override":
            # an overriding method takes less than the method it overrides (argument types are contravariant)
            sites = []
            for c, cd in enumerate(q.classes):
                if not cd.bases:
                    continue
                inherited = set()
                for k in cd.mro[1:]:
                    inherited |= {m for m, _ in q.classes[k].methods}
                for m, fd in cd.methods:
                    for i, t in enumerate(fd.params):
                        if m in inherited and (len(t) > 1 or t == (B,)):
                            sites.append((fd, i))
            if not sites:
                continue
            fd, i = rng.choice(sites)
            t = fd.params[i]
            fd.params[i] = (t[0],) if len(t) > 1 else (I,)
            if fd.params[i] == t:
                continue
            a = fd.params[i][0]
            if isinstance(a, tuple):
                h = Hier(q.classes)
                attrs = h.all_attrs(a[1])
                if attrs:       # rely on the narrower parameter type inside the override
                    fd.body = ("seq", ("expr", ("probe", 900000 + i, ("attr", ("var", i + 1), attrs[0][0]))), fd.body)
            return q, kind
        if kind == "cond-drop-left":
            pe = lambda e: e[0] == "and" and e[1][0] in ("isNone", "isinst", "var", "not")
            sites = count_sites(q, pe, lambda s: False)
            if not sites:
                continue
            target = rng.randrange(sites)
            n = [0]

            def f(e):
                if pe(e):
                    n[0] += 1
                    if n[0] - 1 == target:
                        return e[2]
                return e
            for fd in all_bodies(q):
                fd.body = map_stmt(fd.body, lambda e: map_expr(e, f), lambda s: s)
            return q, kind
        if kind == "drop-init":
            # an F19 shape: declared, never assigned — mypy (and tc) accept it, WF does not
            cs = [cd for cd in q.classes if cd.init_assigns]
            if not cs or (prefer != kind and rng.random() < 0.7):
                continue
            cd = rng.choice(cs)
            cd.init_assigns.pop(rng.randrange(len(cd.init_assigns)))
            return q, kind
    return None
