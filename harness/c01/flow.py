"""Flow fuzzer for C01's *search* oracle (testing, not proof): random control flow over union-typed locals —
nested try/except/else/finally with raises at random points, `or`/`and` over operands in a subclass relation whose
classes can be falsy (`__len__` / `__bool__`), truthiness / isinstance / None tests (also repeated after merges),
loops with break/continue, early returns.

Every program is well typed by construction: locals are only *assigned* values of their declared union and only
*observed* through `probe(k, v)` (which takes `object`), so real mypy accepts it whatever it narrows; the oracle then
compares every observed value with the type mypy exported for that probe argument, and flags probes that run in
code mypy skipped as unreachable.  On top of that, *speculative uses* (`v + 1`, `v.attr`, …) are planted: mypy is
asked once which of them it rejects, those are reverted to plain probes, and the rest — uses mypy vouches for —
must not raise TypeError/AttributeError at run time.

Avoided on purpose (known unsound shapes): attribute mutation (truthiness of an object never changes), unions of
more than three items assigned in isinstance ladders inside loops (4-pass cap), multiple inheritance.
"""
from __future__ import annotations

HEADER = '''from __future__ import annotations
from typing import final
_REC: list[tuple[int, object]] = []
def probe(k: int, x: object) -> None:
    _REC.append((k, x))
class A0:
    def __init__(self, v: int) -> None:
        self.v = v
class A1(A0):
    def __init__(self, v: int) -> None:
        self.v = v
        self.w = "w"
class L0:
    def __init__(self, items: list[int]) -> None:
        self.items = items
    def __len__(self) -> int:
        return len(self.items)
class L1(L0):
    def __init__(self, items: list[int], note: str) -> None:
        self.items = items
        self.note = note
class B0:
    def __init__(self, flag: bool) -> None:
        self.flag = flag
    def __bool__(self) -> bool:
        return self.flag
class B1(B0):
    def __init__(self, flag: bool) -> None:
        self.flag = flag
        self.tag = 1
@final
class BF(B0):
    def __init__(self, flag: bool) -> None:
        self.flag = flag
        self.fin = 1
@final
class LF(L0):
    def __init__(self, items: list[int]) -> None:
        self.items = items
        self.fin = 2
@final
class AF(A0):
    def __init__(self, v: int) -> None:
        self.v = v
        self.fin = 3
def risky(k: int) -> int:
    if k % 4 == 0:
        raise ValueError("v")
    if k % 4 == 1:
        raise IndexError("i")
    if k % 7 == 3:
        raise KeyError("k")
    return k
'''

VALUES = {
    "int": ["0", "1", "5", "(n + 1)", "(m - 1)"],
    "str": ["''", "'a'", "s"],
    "None": ["None"],
    "A0": ["A0(1)", "A0(n)"],
    "A1": ["A1(2)", "A1(m)"],
    "L0": ["L0([])", "L0([1])", "L0([n] * (m % 2))"],
    "L1": ["L1([], 't')", "L1([2], 't')", "L1([m] * (n % 2), 'u')"],
    "B0": ["B0(True)", "B0(False)", "B0(n > 1)"],
    "B1": ["B1(True)", "B1(False)", "B1(m > 1)"],
    "BF": ["BF(True)", "BF(False)", "BF(n > 1)"],
    "LF": ["LF([])", "LF([1])", "LF([n] * (m % 2))"],
    "AF": ["AF(0)", "AF(n)"],
}
SUBCLASSES = {"A0": ["A0", "A1", "AF"], "A1": ["A1"], "L0": ["L0", "L1", "LF"], "L1": ["L1"], "B0": ["B0", "B1", "BF"], "B1": ["B1"],
              "BF": ["BF"], "LF": ["LF"], "AF": ["AF"]}
SUPER = {"A1": "A0", "L1": "L0", "B1": "B0", "BF": "B0", "LF": "L0", "AF": "A0"}
USES = {"int": ["{v} + 1"], "str": ["{v} + 'x'"], "A0": ["{v}.v"], "A1": ["{v}.w", "{v}.v"], "L0": ["{v}.items"],
        "L1": ["{v}.note", "{v}.items"], "B0": ["{v}.flag"], "B1": ["{v}.tag", "{v}.flag"],
        "BF": ["{v}.fin", "{v}.flag"], "LF": ["{v}.fin", "{v}.items"], "AF": ["{v}.fin", "{v}.v"]}
TYPES = [["int", "None"], ["str", "None"], ["int", "str"], ["A0", "None"], ["A1", "None"], ["A0", "int"], ["L0", "None"],
         ["L0", "L1"], ["L1", "None"], ["B0", "None"], ["B0", "int"], ["B1", "None"], ["A0", "L0", "None"], ["int", "str", "None"],
         ["L0"], ["B0"], ["A0"], ["L0", "str"], ["B0", "B1"], ["A0", "A1"],
         ["BF", "int"], ["BF", "None"], ["LF", "str"], ["LF", "None"], ["AF", "None"], ["AF", "int"], ["BF"], ["B0", "BF"], ["LF", "L0"]]
EXCS = ["ValueError", "IndexError", "KeyError"]


class Flow:
    def __init__(self, rng):
        self.r = rng
        self.pid = 5000
        self.stats: dict[str, int] = {}

    def stat(self, k):
        self.stats[k] = self.stats.get(k, 0) + 1

    def p(self):
        self.pid += 1
        return self.pid

    # ------------------------------------------------------------------------------------ pieces
    def value(self, item):
        return self.r.choice(VALUES[item])

    def opaque(self):
        return self.r.choice(["n > 1", "m == 2", "(n + m) % 2 == 0", "len(s) > 0", "n < m", "m > 0"])

    def narrow_cond(self, v):
        r = self.r
        items = self.vars[v]
        opts = [f"{v}", f"not {v}"]
        if "None" in items:
            opts += [f"{v} is None", f"{v} is not None"]
        for it in items:
            if it == "None":
                continue
            opts.append(f"isinstance({v}, {it})")
            if it in SUPER:
                opts.append(f"isinstance({v}, {SUPER[it]})")
            for sub in SUBCLASSES.get(it, [])[1:]:
                opts.append(f"isinstance({v}, {sub})")
        return r.choice(opts)

    def cond(self):
        r = self.r
        k = r.random()
        vs = list(self.vars)
        if k < 0.25:
            return self.opaque()
        if k < 0.7:
            return self.narrow_cond(r.choice(vs))
        a = self.narrow_cond(r.choice(vs)) if r.random() < 0.8 else self.opaque()
        b = self.narrow_cond(r.choice(vs)) if r.random() < 0.8 else self.opaque()
        self.stat("cond-and/or")
        return f"({a}) {r.choice(['and', 'or'])} ({b})"

    def observe(self, ind, out, also=None):
        """probe a local; sometimes a speculative use instead (line marked, with the probe as its fallback)"""
        r = self.r
        v = also if also is not None and r.random() < 0.6 else r.choice(list(self.vars))
        k = self.p()
        items = self.vars.get(v) or self.extra_items.get(v, [])
        usable = [it for it in items if it in USES]
        if usable and r.random() < 0.45:
            use = r.choice(USES[r.choice(usable)]).format(v=v)
            self.spec[len(out)] = f"{ind}probe({k}, {v})"
            out.append(f"{ind}probe({k}, {use})")
            self.stat("speculative-use")
        else:
            out.append(f"{ind}probe({k}, {v})")

    def assign(self, ind, out):
        v = self.r.choice(list(self.vars))
        item = self.r.choice(self.vars[v])
        if item == "int" and self.in_try and self.r.random() < 0.4:
            out.append(f"{ind}{v} = risky(n + {self.r.randint(0, 5)})")
            self.stat("assign-risky")
        else:
            out.append(f"{ind}{v} = {self.value(item)}")

    def boolop(self, ind, out):
        """w = a or b / a and b over operands whose classes are related and can be falsy"""
        r = self.r
        fam = r.choice([("L0", "L1"), ("B0", "B1"), ("L0", "L1"), ("A0", "A1")])
        left_t, right_t = (fam[0], fam[1]) if r.random() < 0.6 else (fam[1], fam[0])
        if r.random() < 0.25:
            right_t = left_t

        def operand(t):
            cands = [v for v, it in self.vars.items() if it == [t]]
            return r.choice(cands) if cands and r.random() < 0.6 else self.value(t)
        op = r.choice(["or", "or", "and"])
        w = f"w{len(self.extra)}_{self.fn}"
        out.append(f"{ind}{w} = {operand(left_t)} {op} {operand(right_t)}")
        self.extra.append(w)
        self.extra_items[w] = [left_t, right_t]
        self.stat("boolop-" + op)
        out.append(f"{ind}probe({self.p()}, {w})")
        test = r.choice([f"not {w}", f"{w}", f"not {w}"])
        out.append(f"{ind}if {test}:")
        out.append(f"{ind}    probe({self.p()}, 0)")
        self.observe(ind + "    ", out, also=w)
        if r.random() < 0.6:
            out.append(f"{ind}else:")
            out.append(f"{ind}    probe({self.p()}, 1)")
            self.observe(ind + "    ", out, also=w)
        if r.random() < 0.5:          # a second test of the same value after the merge
            out.append(f"{ind}if {r.choice([f'not {w}', f'{w}'])}:")
            out.append(f"{ind}    probe({self.p()}, 2)")
            self.observe(ind + "    ", out, also=w)

    def raise_point(self, ind, out):
        r = self.r
        k = r.random()
        if k < 0.5:
            out.append(f"{ind}risky(n + {r.randint(0, 6)})")
        else:
            out.append(f"{ind}if {self.opaque()}:")
            out.append(f"{ind}    raise {r.choice(EXCS)}('x')")
        self.stat("raise-point")

    def try_stmt(self, ind, out, depth):
        r = self.r
        self.stat("try" if not self.in_try else "try-nested")
        out.append(f"{ind}try:")
        self.in_try += 1
        out.append(f"{ind}    probe({self.p()}, 0)")
        n_body = r.randint(2, 4)
        for i in range(n_body):
            k = r.random()
            if k < 0.35:
                self.assign(ind + "    ", out)
            elif k < 0.6:
                self.raise_point(ind + "    ", out)
            elif k < 0.75 and depth < 3:
                self.try_stmt(ind + "    ", out, depth + 1)
            else:
                self.block_stmt(ind + "    ", out, depth + 1)
        self.in_try -= 1
        handlers = r.sample(EXCS, r.randint(1, 2)) if r.random() < 0.8 else ["Exception"]
        for h in handlers:
            out.append(f"{ind}except {h}:")
            out.append(f"{ind}    probe({self.p()}, 0)")
            for _ in range(r.randint(1, 2)):
                self.observe(ind + "    ", out)
            if r.random() < 0.35:
                self.assign(ind + "    ", out)
            if r.random() < 0.15 and self.in_try:
                out.append(f"{ind}    raise")
            elif r.random() < 0.12:
                out.append(f"{ind}    return n")
        if r.random() < 0.3:
            out.append(f"{ind}else:")
            out.append(f"{ind}    probe({self.p()}, 0)")
            self.observe(ind + "    ", out)
        if r.random() < 0.4:
            out.append(f"{ind}finally:")
            out.append(f"{ind}    probe({self.p()}, 0)")
            self.observe(ind + "    ", out)
            self.stat("finally")

    def observe_var(self, ind, out, v, item):
        """observe v, preferably through a use that is only valid for `item`"""
        k = self.p()
        if item in USES and self.r.random() < 0.7:
            use = self.r.choice(USES[item]).format(v=v)
            self.spec[len(out)] = f"{ind}probe({k}, {v})"
            out.append(f"{ind}probe({k}, {use})")
            self.stat("speculative-use")
        else:
            out.append(f"{ind}probe({k}, {v})")

    def nested_try_shape(self, ind, out):
        """a local narrowed (by assignment) before an outer try, assigned another item of its union inside a nested
        try whose handlers do not catch everything; the outer handlers / finally observe it"""
        r = self.r
        multi = [v for v, it in self.vars.items() if len(it) >= 2]
        if not multi:
            return
        v = r.choice(multi)
        a, b = r.sample(self.vars[v], 2)
        self.stat("nested-try-shape")
        out.append(f"{ind}{v} = {self.value(a)}")
        out.append(f"{ind}try:")
        i1 = ind + "    "
        if r.random() < 0.4:
            self.observe_var(i1, out, v, a)
        inner_catch = r.sample(EXCS, r.randint(1, 2))
        out.append(f"{i1}try:")
        i2 = i1 + "    "
        self.in_try += 2
        out.append(f"{i2}{v} = {self.value(b)}")
        for _ in range(r.randint(1, 2)):
            self.raise_point(i2, out)
        if r.random() < 0.5:
            out.append(f"{i2}{v} = {self.value(r.choice([a, a, b]))}")
        self.in_try -= 1
        for h in inner_catch:
            out.append(f"{i1}except {h}:")
            if r.random() < 0.5:
                out.append(f"{i1}    {v} = {self.value(r.choice(self.vars[v]))}")
            self.observe_var(i1 + "    ", out, v, r.choice([a, b]))
        if r.random() < 0.3:
            out.append(f"{i1}finally:")
            self.observe_var(i1 + "    ", out, v, a)
        if r.random() < 0.3:
            self.raise_point(i1, out)
        self.in_try -= 1
        outer = [e for e in EXCS if e not in inner_catch] or ["Exception"]
        if r.random() < 0.3:
            outer = ["Exception"]
        for h in outer:
            out.append(f"{ind}except {h}:")
            out.append(f"{ind}    probe({self.p()}, 0)")
            self.observe_var(ind + "    ", out, v, a)
            if r.random() < 0.3:
                out.append(f"{ind}    return n")
        if r.random() < 0.35:
            out.append(f"{ind}finally:")
            self.observe_var(ind + "    ", out, v, a)
        self.observe_var(ind, out, v, a)

    def block_stmt(self, ind, out, depth):
        r = self.r
        k = r.random()
        if k < 0.25 or depth >= 4:
            self.observe(ind, out)
        elif k < 0.45:
            self.assign(ind, out)
        elif k < 0.62:
            out.append(f"{ind}if {self.cond()}:")
            out.append(f"{ind}    probe({self.p()}, 0)")
            for _ in range(r.randint(1, 2)):
                self.block_stmt(ind + "    ", out, depth + 1)
            if r.random() < 0.15:
                out.append(f"{ind}    return m")
            if r.random() < 0.6:
                out.append(f"{ind}else:")
                out.append(f"{ind}    probe({self.p()}, 0)")
                self.block_stmt(ind + "    ", out, depth + 1)
            self.stat("if")
        elif k < 0.72 and depth < 3:
            self.try_stmt(ind, out, depth)
        elif k < 0.82:
            self.boolop(ind, out)
        elif k < 0.92 and depth < 2:
            i = f"i{self.p()}"
            out.append(f"{ind}{i} = 0")
            out.append(f"{ind}while {i} < {r.choice([1, 2, 3])}:")
            out.append(f"{ind}    {i} += 1")
            out.append(f"{ind}    probe({self.p()}, 0)")
            for _ in range(r.randint(1, 3)):
                self.block_stmt(ind + "    ", out, depth + 1)
            if r.random() < 0.4:
                out.append(f"{ind}    if {self.cond()}:")
                out.append(f"{ind}        {r.choice(['break', 'continue'])}")
                self.assign(ind + "    ", out)
            self.stat("while")
        elif self.in_try:
            self.raise_point(ind, out)
        else:
            self.observe(ind, out)

    def function(self, idx, out):
        r = self.r
        self.fn = idx
        self.vars = {}
        self.extra = []
        self.extra_items = {}
        self.in_try = 0
        out.append(f"def g{idx}(n: int, m: int, s: str) -> int:")
        for j in range(r.randint(2, 4)):
            items = list(r.choice(TYPES))
            v = f"x{j}"
            self.vars[v] = items
            out.append(f"    {v}: {' | '.join(items)}")
            out.append(f"    {v} = {self.value(r.choice(items))}")
        # a dedicated shape now and then: narrowed before an outer try, reassigned in a nested try
        if r.random() < 0.5:
            self.nested_try_shape("    ", out)
        if r.random() < 0.3:
            self.try_stmt("    ", out, 0)
        for _ in range(r.randint(3, 6)):
            self.block_stmt("    ", out, 0)
        out.append("    return 0")

    def module(self):
        """(lines, spec: {line index: fallback probe line}, calls)"""
        out = HEADER.rstrip("\n").split("\n")
        self.spec = {}
        nf = self.r.randint(2, 3)
        for i in range(nf):
            self.function(i, out)
        calls = []
        for i in range(nf):
            for _ in range(10):
                calls.append(f"g{i}({self.r.randint(0, 9)}, {self.r.randint(0, 3)}, {self.r.choice(['', 'a'])!r})")
        return out, dict(self.spec), calls
