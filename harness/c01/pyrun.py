"""CPython child for C01: execute generated modules and record what happens.

argv[1] = JSON file: [{"name", "src", "calls": ["f0(K1(3), None)", …], "dead": [line, …], "budget": n}]
stdout  = JSON: [{"name", "load": null | "ExcName: msg", "calls": [{"out": "ok"|"TypeError"|"AttributeError"|
                  "UnboundLocalError"|"timeout"|"other:<Exc>", "msg", "where": line of the module where it was
                  raised, "ret": VAL, "log": [[k, VAL], …], "dead_hit": [lines]}]}]
VAL = {"k": "i"|"b"|"s"|"n"|"r"|"f"|"t"|"l"|"o", "v": value, "cls": class name, "mro": [names], "items": […]}

A `sys.settrace` line-event counter bounds every call (budget) and notes executed lines of blocks mypy
considered unreachable.  The module defines `probe` itself (it appends to `_REC`).
"""
import enum
import json
import sys
import types


class Budget(BaseException):
    pass


def describe(x, depth=2):
    t = type(x)
    mro = [c.__module__ + "." + c.__qualname__ if c.__module__ != "__main__" else c.__qualname__ for c in t.__mro__]
    mro = [m.replace("builtins.", "builtins.") for m in mro]
    d = {"mro": mro + [c.__qualname__ for c in t.__mro__]}
    if x is None:
        d["k"] = "n"
    elif t is bool:
        d.update(k="b", v=x)
    elif t is int:
        d.update(k="i", v=x)
    elif t is str:
        d.update(k="s", v=x)
    elif t is float:
        d.update(k="f", v=repr(x))
    elif t is complex:
        d.update(k="x", v=repr(x))
    elif isinstance(x, tuple):
        d["k"] = "t"
        if depth > 0:
            d["items"] = [describe(i, depth - 1) for i in x[:20]]
    elif isinstance(x, (list, set, frozenset)):
        d["k"] = "l"
        if depth > 0:
            d["items"] = [describe(i, depth - 1) for i in list(x)[:20]]
    else:
        d.update(k="r", cls=t.__qualname__)
        if isinstance(x, enum.Enum):
            d["enum"] = x.name
    return d


def run_job(job):
    name, src = job["name"], job["src"]
    dead = set(job.get("dead", []))
    budget = job.get("budget", 200000)
    fname = f"<{name}>"
    res = {"name": name, "load": None, "calls": []}
    mod = types.ModuleType(name)
    sys.modules[name] = mod
    ns = mod.__dict__
    try:
        code = compile(src, fname, "exec")
        exec(code, ns)
    except BaseException as e:  # noqa
        res["load"] = f"{type(e).__name__}: {e}"
        return res
    rec = ns.get("_REC")
    for call in job["calls"]:
        if rec is not None:
            del rec[:]
        count = [0]
        hit = set()

        def tracer(frame, event, arg):
            if frame.f_code.co_filename != fname:
                return None
            if event == "line":
                count[0] += 1
                if frame.f_lineno in dead:
                    hit.add(frame.f_lineno)
                if count[0] > budget:
                    raise Budget()
            return tracer
        out = {"out": "ok", "msg": "", "where": None, "ret": None}
        try:
            ccode = compile(call, "<call>", "eval")
            sys.settrace(tracer)
            try:
                v = eval(ccode, ns)
            finally:
                sys.settrace(None)
            out["ret"] = describe(v)
        except Budget:
            out["out"] = "timeout"
        except RecursionError as e:
            out["out"] = "timeout"
        except BaseException as e:  # noqa
            kind = type(e).__name__
            if kind not in ("TypeError", "AttributeError", "UnboundLocalError"):
                kind = "other:" + kind
            out["out"] = kind
            out["msg"] = str(e)[:200]
            tb = e.__traceback__
            where = None
            while tb is not None:
                if tb.tb_frame.f_code.co_filename == fname:
                    where = tb.tb_lineno
                tb = tb.tb_next
            out["where"] = where
        out["log"] = [[k, describe(v)] for k, v in (rec or [])]
        out["dead_hit"] = sorted(hit)
        res["calls"].append(out)
    return res


def main():
    jobs = json.load(open(sys.argv[1]))
    sys.setrecursionlimit(3000)
    json.dump([run_job(j) for j in jobs], sys.stdout)


if __name__ == "__main__":
    main()
