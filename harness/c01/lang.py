"""MiniPy as Python data: one term, two renderings.

`to_python(prog)`  — the source text given to real mypy and to CPython;
`to_lean(prog)`    — the token line understood by `lean/Driver/C01.lean` (the same term for the Lean model).

Types are tuples of atoms ("i", "s", "b", "n", "o", ("c", k)); `()` never occurs in source.
Expressions / statements are tuples whose first component is the constructor tag of `Lang.Expr` / `Lang.Stmt`.
"""
from __future__ import annotations

from dataclasses import dataclass, field
from typing import Any

I, S, B, N, O = "i", "s", "b", "n", "o"
EXC_NAMES = ["ValueError", "IndexError", "KeyError"]


def C(k: int):
    return ("c", k)


# ----------------------------------------------------------------------------------------- data

@dataclass
class Func:
    params: list            # list of types
    locals: list            # list of types
    ret: tuple
    body: Any               # statement
    name: str = ""


def c3(bases_mros: list, bases: list):
    """C3 merge (Python's `__mro__` without the class itself); None if no consistent linearisation exists"""
    seqs = [list(m) for m in bases_mros] + [list(bases)]
    out = []
    while True:
        seqs = [q for q in seqs if q]
        if not seqs:
            return out
        for q in seqs:
            h = q[0]
            if not any(h in r[1:] for r in seqs):
                break
        else:
            return None
        out.append(h)
        for q in seqs:
            if q[0] == h:
                del q[0]


@dataclass
class Cls:
    bases: list             # direct base classes, in order
    attrs: list             # [(attr id, type)]  own annotated attributes
    init_params: list       # list of types
    init_assigns: list      # [(attr id, expr)]
    methods: list           # [(method id, Func)]
    mro: list = field(default_factory=list)
    extra_src: list = field(default_factory=list)   # raw python lines (replays outside the model only)


@dataclass
class Prog:
    classes: list
    funcs: list

    def fill_mro(self) -> None:
        for c, cd in enumerate(self.classes):
            cd.mro = [c] + c3([self.classes[b].mro for b in cd.bases], cd.bases)


# ----------------------------------------------------------------------------------------- python text

def ty_py(t) -> str:
    def atom(a):
        if a == I: return "int"
        if a == S: return "str"
        if a == B: return "bool"
        if a == N: return "None"
        if a == O: return "object"
        return f"K{a[1]}"
    if len(t) == 1:
        return atom(t[0])
    non_none = [a for a in t if a != N]
    if len(non_none) == len(t) - 1 and len(non_none) == 1:
        return f"Optional[{atom(non_none[0])}]"
    return "Union[" + ", ".join(atom(a) for a in t) + "]"


def var_py(x: int, nparams: int, is_method: bool) -> str:
    if is_method:
        if x == 0:
            return "self"
        return f"p{x - 1}" if x - 1 < nparams else f"v{x - 1 - nparams}"
    return f"p{x}" if x < nparams else f"v{x - nparams}"


BOOL_METH = 9           # Lang.lean `boolMeth`: the method id that stands for `__bool__`


def meth_py(m: int) -> str:
    return "__bool__" if m == BOOL_METH else f"m{m}"


def str_py(codes) -> str:
    return repr("".join(chr(c) for c in codes))


class PyEmit:
    def __init__(self, nparams: int, is_method: bool, decl: list):
        self.np, self.meth, self.decl = nparams, is_method, decl

    def v(self, x):
        return var_py(x, self.np, self.meth)

    def e(self, e) -> str:
        t = e[0]
        if t == "intLit": return str(e[1]) if e[1] >= 0 else f"({e[1]})"
        if t == "strLit": return str_py(e[1])
        if t == "boolLit": return "True" if e[1] else "False"
        if t == "noneLit": return "None"
        if t == "var": return self.v(e[1])
        if t == "attr": return f"{self.e(e[1])}.a{e[2]}"
        if t == "callM": return f"{self.e(e[1])}.{meth_py(e[2])}({', '.join(self.e(a) for a in e[3])})"
        if t == "callF": return f"f{e[1]}({', '.join(self.e(a) for a in e[2])})"
        if t == "new": return f"K{e[1]}({', '.join(self.e(a) for a in e[2])})"
        if t == "isinst": return f"isinstance({self.v(e[1])}, K{e[2]})"
        if t == "isNone": return f"({self.v(e[1])} is {'not ' if e[2] else ''}None)"
        if t == "not": return f"(not {self.e(e[1])})"
        if t == "and": return f"({self.e(e[1])} and {self.e(e[2])})"
        if t == "or": return f"({self.e(e[1])} or {self.e(e[2])})"
        if t == "eq": return f"({self.e(e[1])} == {self.e(e[2])})"
        if t == "add": return f"({self.e(e[1])} + {self.e(e[2])})"
        if t == "sub": return f"({self.e(e[1])} - {self.e(e[2])})"
        if t == "lt": return f"({self.e(e[1])} < {self.e(e[2])})"
        if t == "probe": return f"probe({e[1]}, {self.e(e[2])})"
        raise ValueError(e)

    def s(self, s, ind: str, out: list) -> None:
        t = s[0]
        if t == "pass": out.append(ind + "pass")
        elif t == "raise": out.append(f"{ind}raise {EXC_NAMES[s[1]]}()")
        elif t == "try":
            out.append(f"{ind}try:")
            self.s(s[1], ind + "    ", out)
            out.append(f"{ind}except ({', '.join(EXC_NAMES[k] for k in s[2])},):")
            self.s(s[3], ind + "    ", out)
            if s[4] != ("pass",):
                out.append(f"{ind}else:")
                self.s(s[4], ind + "    ", out)
            if s[5] is not None:
                out.append(f"{ind}finally:")
                self.s(s[5], ind + "    ", out)
        elif t == "brk": out.append(ind + "break")
        elif t == "cont": out.append(ind + "continue")
        elif t == "decl": out.append(f"{ind}{self.v(s[1])}: {ty_py(self.decl[s[1]])} = {self.e(s[2])}")
        elif t in ("assign", "infer"): out.append(f"{ind}{self.v(s[1])} = {self.e(s[2])}")
        elif t == "setAttr": out.append(f"{ind}{self.e(s[1])}.a{s[2]} = {self.e(s[3])}")
        elif t == "expr": out.append(ind + self.e(s[1]))
        elif t == "ret": out.append(f"{ind}return {self.e(s[1])}")
        elif t == "ite":
            out.append(f"{ind}if {self.e(s[1])}:")
            self.s(s[2], ind + "    ", out)
            els = s[3]
            while els[0] == "ite" and len(els) > 4 and els[4] == "elif":
                out.append(f"{ind}elif {self.e(els[1])}:")
                self.s(els[2], ind + "    ", out)
                els = els[3]
            if els != ("pass",):
                out.append(f"{ind}else:")
                self.s(els, ind + "    ", out)
        elif t == "while":
            out.append(f"{ind}while {self.e(s[1])}:")
            self.s(s[2], ind + "    ", out)
        elif t == "seq":
            self.s(s[1], ind, out)
            self.s(s[2], ind, out)
        else:
            raise ValueError(s)


HEADER = [
    "from __future__ import annotations",
    "from typing import Optional, Union",
    "_REC: list[tuple[int, object]] = []",
    "def probe(k: int, x: object) -> None:",
    "    _REC.append((k, x))",
]


def func_py(fd: Func, name: str, self_cls: int | None, ind: str, out: list) -> None:
    meth = self_cls is not None
    decl = ([(C(self_cls),)] if meth else []) + list(fd.params) + list(fd.locals)
    ps = [f"p{i}: {ty_py(t)}" for i, t in enumerate(fd.params)]
    if meth:
        ps = ["self"] + ps
    out.append(f"{ind}def {name}({', '.join(ps)}) -> {ty_py(fd.ret)}:")
    PyEmit(len(fd.params), meth, decl).s(fd.body, ind + "    ", out)


def to_python(p: Prog) -> str:
    out = list(HEADER)
    for c, cd in enumerate(p.classes):
        out.append(f"class K{c}({', '.join('K%d' % b for b in cd.bases)}):".replace("()", ""))
        for f, t in cd.attrs:
            out.append(f"    a{f}: {ty_py(t)}")
        out.extend("    " + l for l in cd.extra_src)
        ps = ["self"] + [f"p{i}: {ty_py(t)}" for i, t in enumerate(cd.init_params)]
        out.append(f"    def __init__({', '.join(ps)}) -> None:")
        em = PyEmit(len(cd.init_params), False, list(cd.init_params))
        if cd.init_assigns:
            for f, e in cd.init_assigns:
                out.append(f"        self.a{f} = {em.e(e)}")
        else:
            out.append("        pass")
        for m, fd in cd.methods:
            func_py(fd, meth_py(m), c, "    ", out)
    for i, fd in enumerate(p.funcs):
        func_py(fd, f"f{i}", None, "", out)
    return "\n".join(out) + "\n"


# ----------------------------------------------------------------------------------------- Lean tokens

def ty_lean(t) -> list:
    out = [f"T{len(t)}"]
    for a in t:
        out.append(a if isinstance(a, str) else f"c{a[1]}")
    return out


def expr_lean(e) -> list:
    t = e[0]
    if t == "intLit": return ["I", str(e[1])]
    if t == "strLit": return ["S", str(len(e[1]))] + [str(c) for c in e[1]]
    if t == "boolLit": return ["B", "1" if e[1] else "0"]
    if t == "noneLit": return ["N"]
    if t == "var": return ["V", str(e[1])]
    if t == "attr": return ["A"] + expr_lean(e[1]) + [str(e[2])]
    if t == "callM": return ["M"] + expr_lean(e[1]) + [str(e[2]), str(len(e[3]))] + [x for a in e[3] for x in expr_lean(a)]
    if t == "callF": return ["F", str(e[1]), str(len(e[2]))] + [x for a in e[2] for x in expr_lean(a)]
    if t == "new": return ["C", str(e[1]), str(len(e[2]))] + [x for a in e[2] for x in expr_lean(a)]
    if t == "isinst": return ["Q", str(e[1]), str(e[2])]
    if t == "isNone": return ["Z", str(e[1]), "1" if e[2] else "0"]
    if t == "not": return ["!"] + expr_lean(e[1])
    if t == "and": return ["&"] + expr_lean(e[1]) + expr_lean(e[2])
    if t == "or": return ["|"] + expr_lean(e[1]) + expr_lean(e[2])
    if t == "eq": return ["="] + expr_lean(e[1]) + expr_lean(e[2])
    if t == "add": return ["+"] + expr_lean(e[1]) + expr_lean(e[2])
    if t == "sub": return ["-"] + expr_lean(e[1]) + expr_lean(e[2])
    if t == "lt": return ["<"] + expr_lean(e[1]) + expr_lean(e[2])
    if t == "probe": return ["P", str(e[1])] + expr_lean(e[2])
    raise ValueError(e)


def stmt_lean(s) -> list:
    t = s[0]
    if t == "pass": return ["pass"]
    if t == "raise": return ["RS", str(s[1])]
    if t == "try":
        return (["TR"] + stmt_lean(s[1]) + [str(len(s[2]))] + [str(k) for k in s[2]] + stmt_lean(s[3]) + stmt_lean(s[4])
                + stmt_lean(s[5] if s[5] is not None else ("pass",)) + ["1" if s[5] is not None else "0"])
    if t == "brk": return ["BR"]
    if t == "cont": return ["CT"]
    if t == "decl": return ["D", str(s[1])] + expr_lean(s[2])
    if t == "assign": return ["X", str(s[1])] + expr_lean(s[2])
    if t == "infer": return ["Y", str(s[1])] + expr_lean(s[2])
    if t == "setAttr": return ["W"] + expr_lean(s[1]) + [str(s[2])] + expr_lean(s[3])
    if t == "expr": return ["E"] + expr_lean(s[1])
    if t == "ret": return ["R"] + expr_lean(s[1])
    if t == "ite": return ["IF"] + expr_lean(s[1]) + stmt_lean(s[2]) + stmt_lean(s[3])
    if t == "while": return ["WH"] + expr_lean(s[1]) + stmt_lean(s[2])
    if t == "seq": return ["SQ"] + stmt_lean(s[1]) + stmt_lean(s[2])
    raise ValueError(s)


def func_lean(fd: Func) -> list:
    out = ["fn", str(len(fd.params))]
    for t in fd.params: out += ty_lean(t)
    out.append(str(len(fd.locals)))
    for t in fd.locals: out += ty_lean(t)
    out += ty_lean(fd.ret)
    out += stmt_lean(fd.body)
    return out


def prog_lean(p: Prog) -> list:
    out = ["prog", str(len(p.classes))]
    for cd in p.classes:
        out += ["class", str(len(cd.bases))] + [str(b) for b in cd.bases] + [str(len(cd.mro))] + [str(k) for k in cd.mro]
        out.append(str(len(cd.attrs)))
        for f, t in cd.attrs:
            out += [str(f)] + ty_lean(t)
        out.append(str(len(cd.init_params)))
        for t in cd.init_params: out += ty_lean(t)
        out.append(str(len(cd.init_assigns)))
        for f, e in cd.init_assigns:
            out += [str(f)] + expr_lean(e)
        out.append(str(len(cd.methods)))
        for m, fd in cd.methods:
            out += [str(m)] + func_lean(fd)
    out.append(str(len(p.funcs)))
    for fd in p.funcs:
        out += func_lean(fd)
    return out


def to_lean(p: Prog, calls: list, fuel: int = 4000) -> str:
    """calls: [(function index, [argument expressions, closed])]"""
    out = prog_lean(p) + ["calls", str(fuel), str(len(calls))]
    for f, args in calls:
        out += [str(f), str(len(args))] + [x for a in args for x in expr_lean(a)]
    return " ".join(out)


def seq(stmts: list):
    stmts = [s for s in stmts if s is not None]
    if not stmts:
        return ("pass",)
    r = stmts[-1]
    for s in reversed(stmts[:-1]):
        r = ("seq", s, r)
    return r
