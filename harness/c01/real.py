"""The real side of C01: mypy (in-process, one build per batch of modules) and CPython (one child per batch).

mypy:    `check_batch({module: source})` → per module: error lines, {probe id: exported type of the probe argument},
         set of lines inside blocks mypy marked unreachable.
CPython: `run_batch([{name, src, calls, dead_lines}])` → per call: outcome kind, return value, probe log,
         dead lines executed.  Runs `harness/c01/pyrun.py` in a child interpreter with a line-event budget.
"""
from __future__ import annotations

import json
import os
import subprocess
import sys

from harness.vlib.core import PY, ToolFailure, repo_env

HERE = os.path.dirname(os.path.abspath(__file__))


def check_batch(sources: dict[str, str], extra_options: dict | None = None) -> dict[str, dict]:
    from mypy import build
    from mypy.fscache import FileSystemCache
    from mypy.modulefinder import BuildSource
    from mypy.nodes import CallExpr, NameExpr
    from mypy.options import Options
    from mypy.traverser import TraverserVisitor

    o = Options()
    o.incremental = False
    o.export_types = True
    o.preserve_asts = True
    o.show_traceback = True
    o.python_version = sys.version_info[:2]
    for k, v in (extra_options or {}).items():
        setattr(o, k, v)
    msgs: dict[str, list[str]] = {m: [] for m in sources}

    def flush(filename: str | None, new: list[str], serious: bool) -> None:
        for line in new:
            mod = line.split(".py", 1)[0] if ".py" in line else ""
            msgs.setdefault(os.path.basename(mod), []).append(line)

    bs = [BuildSource(f"{m}.py", m, s) for m, s in sources.items()]
    # Every type the checker stores for a node, not only the last one: a `finally` body is checked twice (all abnormal
    # exits, then fall-through only) and the exported map keeps the second, narrower pass.  Observed from outside by
    # wrapping TypeChecker.store_type(s) for the duration of the build (no change to /repo).
    import mypy.checker as _chk
    stored: dict[object, list] = {}
    orig_store, orig_stores = _chk.TypeChecker.store_type, _chk.TypeChecker.store_types

    def store_type(self, node, typ):
        stored.setdefault(node, []).append(typ)
        return orig_store(self, node, typ)

    def store_types(self, d):
        for node, typ in d.items():
            stored.setdefault(node, []).append(typ)
        return orig_stores(self, d)

    _chk.TypeChecker.store_type, _chk.TypeChecker.store_types = store_type, store_types
    try:
        res = build.build(bs, o, flush_errors=flush, fscache=FileSystemCache())
    except Exception as e:   # CompileError (syntax) or an internal error: the caller decides
        return {m: {"crash": f"{type(e).__name__}: {e}", "errors": [str(e)], "probes": {}, "probes_all": {}, "dead": []} for m in sources}
    finally:
        _chk.TypeChecker.store_type, _chk.TypeChecker.store_types = orig_store, orig_stores

    out: dict[str, dict] = {}
    for m in sources:
        errs = [l for l in msgs.get(m, []) if ": error:" in l]
        probes: dict[int, object] = {}
        probes_all: dict[int, list] = {}
        dead: set[int] = set()
        st = res.graph.get(m)
        tree = st.tree if st else None
        if tree is not None:
            class V(TraverserVisitor):
                def visit_call_expr(self, e: CallExpr) -> None:
                    if isinstance(e.callee, NameExpr) and e.callee.name == "probe" and len(e.args) == 2:
                        k = getattr(e.args[0], "value", None)
                        t = res.types.get(e.args[1])
                        if isinstance(k, int) and t is not None:
                            probes[k] = t
                            probes_all[k] = stored.get(e.args[1], []) + [t]
                    super().visit_call_expr(e)

                # statements of a checked function body whose expression never received a type: the checker
                # skipped them as unreachable (binder), which `Block.is_unreachable` does not record
                depth = 0

                def visit_func_def(self, d) -> None:
                    self.depth += 1
                    super().visit_func_def(d)
                    self.depth -= 1

                def _seen(self, stmt, expr) -> None:
                    if self.depth and expr is not None and expr not in stored and expr not in res.types:
                        dead.add(stmt.line)

                def visit_expression_stmt(self, st) -> None:
                    self._seen(st, st.expr)
                    super().visit_expression_stmt(st)

                def visit_assignment_stmt(self, st) -> None:
                    self._seen(st, st.rvalue)
                    super().visit_assignment_stmt(st)

                def visit_return_stmt(self, st) -> None:
                    self._seen(st, st.expr)
                    super().visit_return_stmt(st)

                def visit_block(self, b) -> None:
                    if b.is_unreachable:
                        for s in b.body:
                            for ln in range(s.line, (s.end_line or s.line) + 1):
                                dead.add(ln)
                        return
                    super().visit_block(b)
            tree.accept(V())
        out[m] = {"errors": errs, "probes": probes, "probes_all": probes_all, "dead": sorted(dead)}
    return out


def canon_type(t) -> tuple | str:
    """mypy Type → sorted tuple of atoms ('i','s','b','n','o','c<k>'); a string for anything outside the fragment"""
    from mypy.types import Instance, LiteralType, NoneType, UninhabitedType, UnionType, get_proper_type
    t = get_proper_type(t)
    if isinstance(t, UnionType):
        items = []
        for it in t.items:
            c = canon_type(it)
            if isinstance(c, str):
                return c
            items += list(c)
        return tuple(sorted(set(items)))
    if isinstance(t, NoneType):
        return ("n",)
    if isinstance(t, UninhabitedType):
        return ()
    if isinstance(t, LiteralType):
        return canon_type(t.fallback)
    if isinstance(t, Instance):
        fn = t.type.fullname
        if fn == "builtins.int": return ("i",)
        if fn == "builtins.str": return ("s",)
        if fn == "builtins.bool": return ("b",)
        if fn == "builtins.object": return ("o",)
        name = t.type.name
        if name.startswith("K") and name[1:].isdigit() and not t.args:
            return (f"c{name[1:]}",)
    return "?" + str(t)


def member(value_desc, t) -> bool | None:
    """Is the runtime value (as described by pyrun: {"k": kind, "mro": [...], "v": …}) a member of mypy's type t?
    None = the type is outside what this oracle understands (no alarm)."""
    from mypy.types import (AnyType, CallableType, Instance, LiteralType, NoneType, TupleType, TypeType,
                            TypeVarType, UninhabitedType, UnionType, get_proper_type)
    t = get_proper_type(t)
    kind = value_desc["k"]
    if isinstance(t, AnyType):
        return True
    if isinstance(t, UnionType):
        rs = [member(value_desc, it) for it in t.items]
        if any(r is True for r in rs):
            return True
        return None if any(r is None for r in rs) else False
    if isinstance(t, NoneType):
        return kind == "n"
    if isinstance(t, UninhabitedType):
        return False
    if isinstance(t, LiteralType):
        if t.is_enum_literal():
            r = member(value_desc, t.fallback)
            return r if r is not True else value_desc.get("enum") == t.value
        if kind not in ("i", "b", "s"):
            return False
        if isinstance(t.value, bool) != (kind == "b"):
            return False
        return value_desc.get("v") == t.value
    if isinstance(t, TypeVarType):
        return member(value_desc, t.upper_bound) if not t.values else None
    if isinstance(t, TupleType):
        if kind != "t":
            return False if kind in ("i", "b", "s", "n") else None
        items = value_desc.get("items")
        if items is None or len(items) != len(t.items):
            return None if items is None else False
        rs = [member(v, it) for v, it in zip(items, t.items)]
        if any(r is False for r in rs):
            return False
        return True if all(r is True for r in rs) else None
    if isinstance(t, CallableType) or isinstance(t, TypeType):
        return None
    if isinstance(t, Instance):
        fn = t.type.fullname
        mro = value_desc.get("mro", [])
        if t.type.is_protocol:
            return None
        if t.type.is_intersection:
            rs = [member(value_desc, b) for b in t.type.bases]
            if any(r is False for r in rs):
                return False
            return True if all(r is True for r in rs) else None
        if fn == "builtins.object":
            return True
        if fn == "builtins.float" and kind in ("i", "b", "f"):
            return True            # PEP 484 promotion
        if fn == "builtins.complex" and kind in ("i", "b", "f", "x"):
            return True
        names = {fn, t.type.name}
        ok = any(m in names for m in mro)
        if not ok:
            return False
        # shallow check of one-parameter builtin containers
        if fn in ("builtins.list", "builtins.set", "builtins.frozenset") and t.args and "items" in value_desc:
            rs = [member(v, t.args[0]) for v in value_desc["items"]]
            if any(r is False for r in rs):
                return False
            return True if all(r is True for r in rs) else None
        return True
    return None


def run_batch(jobs: list[dict], tmp: str, timeout: int = 600) -> list[dict]:
    path = os.path.join(tmp, f"pyrun-{os.getpid()}-{id(jobs)}.json")
    with open(path, "w") as f:
        json.dump(jobs, f)
    env = repo_env()
    env.pop("PYTHON_MYPY_VERIF", None)
    try:
        p = subprocess.run([PY, os.path.join(HERE, "pyrun.py"), path], capture_output=True, text=True,
                           timeout=timeout, env=env)
    except subprocess.TimeoutExpired:
        raise ToolFailure("CPython child timed out")
    finally:
        pass
    if p.returncode != 0:
        raise ToolFailure("CPython child failed: " + p.stderr[-2000:])
    os.unlink(path)
    return json.loads(p.stdout)
