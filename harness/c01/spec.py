"""Speculative-statement templates for C01's *search* oracle (testing, not proof), run through the same two-phase
protocol as the flow fuzzer: every module carries lines that real mypy may or may not accept (`spec`: line index →
fallback line).  Phase 1 asks mypy which of them it rejects; those are replaced by their fallback (which is well
typed by construction), the rest — statements mypy vouches for — must not raise TypeError/AttributeError at run
time, and every probe value must be a member of its exported type.

Templates (second seeding wave):
  * raise forms       `raise e`, `raise e from c`, `raise E(..) from None`, `raise f(..) from exc` with e / c of type
                      Optional[ExcClass] / Union of exception classes / exception *classes*, narrowed or not, the
                      operand being None at run time for some calls
  * override-widen-args  base method with `*items: T` (or `**opts: T`), override with (defaulted | required) positional
                      parameters in front of `*items` whose type may or may not accept T; calls through the base
                      static type with 0–3 extra positionals; the same with a Callable[..] / Protocol target
  * final-truthiness  `@final` classes that inherit (or define, or lack) `__bool__` / `__len__`, in unions with
                      int / str / None, narrowed by `if v:` / `if not v:` / `while v:` / `v and …` / `v or …`, with
                      falsy instances passed at run time
"""
from __future__ import annotations

HEADER = '''from __future__ import annotations
from typing import Callable, Optional, Protocol, Union, final
_REC: list[tuple[int, object]] = []
def probe(k: int, x: object) -> None:
    _REC.append((k, x))
'''


class Spec:
    def __init__(self, rng):
        self.r = rng
        self.pid = 7000
        self.uid = 0
        self.stats: dict = {}

    def p(self) -> int:
        self.pid += 1
        return self.pid

    def u(self) -> str:
        self.uid += 1
        return f"_{self.uid}"

    def stat(self, k):
        self.stats[k] = self.stats.get(k, 0) + 1

    def emit(self, line: str, fallback: str | None = None):
        if fallback is not None:
            self.spec[len(self.out)] = fallback
            self.stat("speculative-line")
        self.out.append(line)

    # ----------------------------------------------------------------------------------- raise forms
    def t_raise(self):
        r, u = self.r, self.u()
        e = self.emit
        e(f"class E{u}(Exception):")
        e(f"    pass")
        e(f"class F{u}(E{u}):")
        e(f"    pass")
        e(f"class G{u}(Exception):")
        e(f"    pass")
        e(f"def pick{u}(code: int) -> Optional[E{u}]:")
        e(f"    if code > 1:")
        e(f"        return F{u}('f' + str(code))")
        e(f"    if code > 0:")
        e(f"        return E{u}('e')")
        e(f"    return None")
        e(f"def cause{u}(code: int) -> Optional[Exception]:")
        e(f"    return G{u}('g') if code % 2 == 1 else None")
        e(f"def both{u}(code: int) -> Union[E{u}, G{u}]:")
        e(f"    return E{u}('e') if code > 0 else G{u}('g')")
        e(f"def kind{u}(code: int) -> Optional[type[E{u}]]:")
        e(f"    return F{u} if code > 0 else None")
        calls = []
        for j in range(r.randint(2, 3)):
            fn = f"t{u}_{j}"
            e(f"def {fn}(text: str, code: int) -> int:")
            decl = r.choice(["opt", "opt", "opt-narrowed", "union", "cls", "call"])
            if decl in ("opt", "opt-narrowed"):
                e(f"    x: Optional[E{u}] = pick{u}(code)")
            elif decl == "union":
                e(f"    x: Union[E{u}, G{u}, None] = both{u}(code) if code != 2 else None")
            elif decl == "cls":
                e(f"    x: Optional[type[E{u}]] = kind{u}(code)")
            else:
                e(f"    x: Optional[E{u}] = None")
            e(f"    c: Optional[Exception] = cause{u}(code)")
            e(f"    probe({self.p()}, x)")
            operand = f"pick{u}(code)" if decl == "call" else "x"
            form = r.choice(["bare", "from-exc", "from-exc", "from-c", "from-c", "from-none", "new-from-none", "new-from-c",
                             "from-x"])
            self.stat(f"raise:{decl}:{form}")
            stmt = {"bare": f"raise {operand}", "from-exc": f"raise {operand} from exc", "from-c": f"raise {operand} from c",
                    "from-none": f"raise {operand} from None", "new-from-none": f"raise E{u}(text) from None",
                    "new-from-c": f"raise F{u}(text) from c", "from-x": f"raise G{u}(text) from {operand}"}[form]
            site = r.choice(["handler", "handler", "plain", "else"])
            if site == "handler":
                e(f"    try:")
                e(f"        return int(text)")
                e(f"    except ValueError as exc:")
                ind = "        "
                e(f"{ind}probe({self.p()}, exc)")
            elif site == "else":
                e(f"    exc: Exception = G{u}(text)")
                e(f"    try:")
                e(f"        n = int(text)")
                e(f"    except ValueError:")
                e(f"        return -1")
                e(f"    else:")
                ind = "        "
                e(f"{ind}probe({self.p()}, n)")
            else:
                e(f"    exc: Exception = G{u}(text)")
                e(f"    if text == '':")
                ind = "        "
                e(f"{ind}probe({self.p()}, text)")
            if decl == "opt-narrowed" and r.random() < 0.7:
                e(f"{ind}if x is not None:")
                ind += "    "
                self.emit(f"{ind}{stmt}", f"{ind}probe({self.p()}, x)")
                ind = ind[:-4]
            else:
                self.emit(f"{ind}{stmt}", f"{ind}probe({self.p()}, x)")
            e(f"    probe({self.p()}, c)")
            e(f"    return 0")
            e(f"def w{fn}(text: str, code: int) -> int:")
            e(f"    try:")
            e(f"        return {fn}(text, code)")
            e(f"    except (E{u}, G{u}) as err:")
            e(f"        probe({self.p()}, err)")
            e(f"        return -2")
            calls += [f"w{fn}({t!r}, {c})" for t in ("12", "x", "") for c in (0, 1, 2, 3)]
        return calls

    # ----------------------------------------------------------------------------------- overrides with *args
    def t_override(self):
        r, u = self.r, self.u()
        e = self.emit
        item, ival = r.choice([("int", ["1", "2", "3"]), ("str", ["'a'", "'b'", "'c'"])])
        other, use = {"int": ("str", "len(label.strip())"), "str": ("int", "label.bit_length()")}[item]
        total = "sum(items)" if item == "int" else "len(''.join(items))"
        star = r.choice(["args", "args", "args", "kwargs"])
        e(f"class Hd{u}:")
        e(f"    def __init__(self) -> None:")
        e(f"        self.k = 1")
        calls = []
        if star == "args":
            e(f"class Sk{u}:")
            e(f"    def feed(self, *items: {item}) -> int:")
            e(f"        return {total}")
            e(f"class Ls{u}(Sk{u}):")
            shape = r.choice(["default-bad", "default-bad", "default-opt", "default-ok", "required-bad", "two-defaults", "obj-default"])
            self.stat(f"override:{shape}")
            fb = f"    def feed(self, *items: {item}, label: {other} = {'0' if other == 'int' else repr('')}) -> int:"
            dflt = "0" if other == "int" else "''"
            if shape == "default-bad":
                self.emit(f"    def feed(self, label: {other} = {dflt}, *items: {item}) -> int:", fb)
                e(f"        return {use} + {total}")
            elif shape == "default-opt":
                self.emit(f"    def feed(self, label: Optional[{other}] = None, *items: {item}) -> int:",
                          f"    def feed(self, *items: {item}, label: Optional[{other}] = None) -> int:")
                e(f"        if label is None:")
                e(f"            return {total}")
                e(f"        return {use} + {total}")
            elif shape == "default-ok":
                ok_use = "label.bit_length()" if item == "int" else "len(label.strip())"
                d2 = "0" if item == "int" else "''"
                self.emit(f"    def feed(self, label: {item} = {d2}, *items: {item}) -> int:",
                          f"    def feed(self, *items: {item}, label: {item} = {d2}) -> int:")
                e(f"        return {ok_use} + {total}")
            elif shape == "required-bad":
                self.emit(f"    def feed(self, label: {other}, *items: {item}) -> int:", fb)
                e(f"        return {use} + {total}")
            elif shape == "two-defaults":
                d2 = "0" if item == "int" else "''"
                self.emit(f"    def feed(self, first: {item} = {d2}, label: {other} = {dflt}, *items: {item}) -> int:",
                          f"    def feed(self, *items: {item}, first: {item} = {d2}, label: {other} = {dflt}) -> int:")
                e(f"        probe({self.p()}, first)")
                e(f"        return {use} + {total}")
            else:
                self.emit(f"    def feed(self, label: Optional[Hd{u}] = None, *items: {item}) -> int:",
                          f"    def feed(self, *items: {item}, label: Optional[Hd{u}] = None) -> int:")
                e(f"        return (label.k if label is not None else 0) + {total}")
            for k in range(4):
                e(f"def pump{u}_{k}(s: Sk{u}) -> int:")
                e(f"    probe({self.p()}, s)")
                e(f"    return s.feed({', '.join(ival[:k])})")
                calls += [f"pump{u}_{k}(Sk{u}())", f"pump{u}_{k}(Ls{u}())"]
            # the same relation between plain functions, through a Protocol / Callable target
            e(f"class Fd{u}(Protocol):")
            e(f"    def __call__(self, *items: {item}) -> int: ...")
            e(f"def plain{u}(*items: {item}) -> int:")
            e(f"    return {total}")
            e(f"def lab{u}(label: {other} = {dflt}, *items: {item}) -> int:")
            e(f"    return {use} + {total}")
            e(f"def via{u}(f: Fd{u}) -> int:")
            e(f"    return f({', '.join(ival[:2])})")
            e(f"def go{u}(k: int) -> int:")
            e(f"    if k == 0:")
            e(f"        return via{u}(plain{u})")
            self.emit(f"    return via{u}(lab{u})", f"    return via{u}(plain{u})")
            calls += [f"go{u}(0)", f"go{u}(1)"]
        else:
            e(f"class Sk{u}:")
            e(f"    def cfg(self, **opts: {item}) -> int:")
            e(f"        return len(opts)")
            e(f"class Ls{u}(Sk{u}):")
            shape = r.choice(["kw-default-bad", "kw-default-ok"])
            self.stat(f"override:{shape}")
            dflt = "0" if other == "int" else "''"
            if shape == "kw-default-bad":
                d2 = "0" if item == "int" else "''"
                self.emit(f"    def cfg(self, label: {other} = {dflt}, **opts: {item}) -> int:",
                          f"    def cfg(self, label: {item} = {d2}, **opts: {item}) -> int:")
                e(f"        probe({self.p()}, label)")
                e(f"        return len(opts)")
            else:
                d2 = "0" if item == "int" else "''"
                e(f"    def cfg(self, label: {item} = {d2}, **opts: {item}) -> int:")
                e(f"        probe({self.p()}, label)")
                e(f"        return len(opts)")
            e(f"def pump{u}(s: Sk{u}) -> int:")
            e(f"    return s.cfg(label={ival[0]}, other={ival[1]})")
            calls += [f"pump{u}(Sk{u}())", f"pump{u}(Ls{u}())"]
        return calls

    # ----------------------------------------------------------------------------------- final classes and truthiness
    def t_final(self):
        r, u = self.r, self.u()
        e = self.emit
        dunder = r.choice(["__bool__", "__len__"])
        rt, expr = ("bool", "self.n != 0") if dunder == "__bool__" else ("int", "self.n")
        where = r.choice(["inherited", "inherited", "inherited", "own", "grandparent", "none"])
        self.stat(f"final:{where}:{dunder}")
        e(f"class Cn{u}:")
        e(f"    def __init__(self, n: int) -> None:")
        e(f"        self.n = n")
        if where in ("inherited", "grandparent"):
            e(f"    def {dunder}(self) -> {rt}:")
            e(f"        return {expr}")
        base = f"Cn{u}"
        if where == "grandparent":
            e(f"class Md{u}(Cn{u}):")
            e(f"    def mid(self) -> int:")
            e(f"        return 1")
            base = f"Md{u}"
        e(f"@final")
        e(f"class Ty{u}({base}):")
        if where == "own":
            e(f"    def {dunder}(self) -> {rt}:")
            e(f"        return {expr}")
        else:
            e(f"    def tag(self) -> str:")
            e(f"        return 't'")
        other, ovals = r.choice([("int", ["0", "3"]), ("str", ["''", "'q'"]), ("None", ["None"]), (None, [])])
        ty = f"Union[Ty{u}, {other}]" if other and other != "None" else (f"Optional[Ty{u}]" if other else f"Ty{u}")
        vals = [f"Ty{u}(0)", f"Ty{u}(2)"] + ovals
        use = {"int": "v + 1", "str": "len(v.strip())", "None": "0 if v is None else -1", None: "v.n"}[other]
        calls = []
        forms = r.sample(["if", "if-not", "while", "and", "or", "not-expr"], r.randint(2, 4))
        for j, form in enumerate(forms):
            fn = f"t{u}_{j}"
            self.stat(f"final-form:{form}")
            if form == "if":
                e(f"def {fn}(v: {ty}) -> int:")
                e(f"    if v:")
                e(f"        probe({self.p()}, v)")
                e(f"        return 1")
                e(f"    probe({self.p()}, v)")
                self.emit(f"    return {use}", f"    return 0")
                calls += [f"{fn}({x})" for x in vals]
            elif form == "if-not":
                e(f"def {fn}(v: {ty}) -> int:")
                e(f"    if not v:")
                e(f"        probe({self.p()}, v)")
                self.emit(f"        return {use}", f"        return 0")
                e(f"    probe({self.p()}, v)")
                e(f"    return 1")
                calls += [f"{fn}({x})" for x in vals]
            elif form == "while":
                e(f"def {fn}(v: {ty}, nxt: {ty}) -> int:")
                e(f"    i = 0")
                e(f"    while v:")
                e(f"        probe({self.p()}, v)")
                e(f"        i += 1")
                e(f"        if i > 2:")
                e(f"            return i")
                e(f"        v = nxt")
                e(f"    probe({self.p()}, v)")
                self.emit(f"    return {use}", f"    return 0")
                calls += [f"{fn}({x}, {y})" for x in vals for y in vals]
            elif form == "and":
                e(f"def {fn}(v: {ty}) -> int:")
                e(f"    w = v and 5")
                e(f"    probe({self.p()}, w)")
                e(f"    if isinstance(w, int):")
                e(f"        return w")
                e(f"    probe({self.p()}, w)")
                e(f"    return -1")
                calls += [f"{fn}({x})" for x in vals]
            elif form == "or":
                e(f"def {fn}(v: {ty}) -> int:")
                e(f"    w = v or Ty{u}(7)")
                e(f"    probe({self.p()}, w)")
                e(f"    if not w:")
                e(f"        probe({self.p()}, w)")
                e(f"        return 0")
                e(f"    return 1")
                calls += [f"{fn}({x})" for x in vals]
            else:
                e(f"def {fn}(v: {ty}) -> int:")
                e(f"    b = not v")
                e(f"    probe({self.p()}, b)")
                e(f"    if b:")
                e(f"        probe({self.p()}, v)")
                e(f"        return 0")
                e(f"    return 1")
                calls += [f"{fn}({x})" for x in vals]
        return calls

    TEMPLATES = ["t_raise", "t_override", "t_final"]

    def module(self):
        """(lines, spec: {line index: fallback line}, calls)"""
        self.out = HEADER.rstrip("\n").split("\n")
        self.spec = {}
        calls = []
        for name in [self.r.choice(self.TEMPLATES) for _ in range(self.r.randint(2, 3))]:
            calls += getattr(self, name)()
        return self.out, dict(self.spec), calls
