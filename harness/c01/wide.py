"""A wider program stream for C01's *search* oracle only (testing, not proof): constructs outside the MiniPy model —
generics and the constraint solver, protocols, dataclasses, enums, tuples, containers, callables, overloads,
TypedDict/NamedTuple, properties, multiple inheritance, try/finally, break/continue, match, walrus, truthiness
and equality narrowing, Literal/Final.  Each template yields source (functions with probes) and call expressions;
a module is a random selection of instantiated templates.  The harness runs what mypy accepts under CPython and
checks (i) no TypeError/AttributeError, (ii) probe value ∈ exported type, (iii) no unreachable block executed.

Everything is parameterised by the rng so that element types, class shapes, branch orders and values vary;
the known unsound shapes (float promotion used through an int-only method, type[C] constructors, covariant
mutable overrides, unassigned attributes, attribute narrowing across calls) are avoided.
"""
from __future__ import annotations

HEADER = """from __future__ import annotations
import enum
from dataclasses import dataclass, field
from typing import (Any, Callable, Final, Generic, Iterable, Iterator, Literal, NamedTuple, Optional, Protocol,
                    Sequence, TypedDict, TypeVar, Union, overload)
_REC: list[tuple[int, object]] = []
def probe(k: int, x: object) -> None:
    _REC.append((k, x))
T = TypeVar("T")
U = TypeVar("U")
"""

SCALARS = [("int", ["0", "1", "-2", "7"]), ("str", ["''", "'a'", "'xy'"]), ("bool", ["True", "False"]),
           ("bytes", ["b''", "b'z'"])]


class W:
    def __init__(self, rng):
        self.r = rng
        self.pid = 1000
        self.uid = 0

    def p(self) -> int:
        self.pid += 1
        return self.pid

    def u(self) -> str:
        self.uid += 1
        return f"_{self.uid}"

    def scalar(self):
        return self.r.choice(SCALARS)

    def two_scalars(self):
        a, b = self.r.sample(SCALARS[:3] + [SCALARS[3]], 2)
        if {a[0], b[0]} == {"int", "bool"}:
            b = SCALARS[1] if a[0] != "str" else SCALARS[3]
        return a, b

    # ------------------------------------------------------------------------------------ templates
    def t_union_chain(self):
        """isinstance chain over a union of builtins and classes, with else"""
        u = self.u()
        (ta, va), (tb, vb) = self.two_scalars()
        order = [ta, tb, f"A{u}"]
        self.r.shuffle(order)
        src = [f"class A{u}:", f"    def __init__(self, v: int) -> None:", f"        self.v = v",
               f"    def get(self) -> int:", f"        return self.v",
               f"def t{u}(x: Union[{ta}, {tb}, A{u}, None]) -> int:"]
        kw = "if"
        for t in order[:self.r.choice([2, 3])]:
            src.append(f"    {kw} isinstance(x, {t}):")
            src.append(f"        probe({self.p()}, x)")
            if t.startswith("A"):
                src.append(f"        return x.get()")
            elif t in ("str", "bytes"):
                src.append(f"        return len(x)")
            else:
                src.append(f"        return int(x) + 1")
            kw = "elif"
        src += [f"    else:", f"        probe({self.p()}, x)", f"    probe({self.p()}, x)",
                f"    if x is None:", f"        return -1", f"    probe({self.p()}, x)", f"    return 0"]
        calls = [f"t{u}({v})" for v in va[:2] + vb[:2] + [f"A{u}(3)", "None"]]
        return src, calls

    def t_generic_first(self):
        u = self.u()
        (ta, va) = self.scalar()
        src = [f"def first{u}(xs: Sequence[T], default: T) -> T:",
               f"    if xs:", f"        probe({self.p()}, xs[0])", f"        return xs[0]", f"    return default",
               f"def pair{u}(a: T, b: U) -> tuple[T, U]:", f"    return (a, b)",
               f"def t{u}(xs: list[{ta}], d: {ta}) -> {ta}:",
               f"    y = first{u}(xs, d)", f"    probe({self.p()}, y)",
               f"    q = pair{u}(y, xs)", f"    probe({self.p()}, q)", f"    probe({self.p()}, q[0])", f"    probe({self.p()}, q[1])",
               f"    z = first{u}([q, q], q)", f"    probe({self.p()}, z)",
               f"    return z[0]"]
        calls = [f"t{u}([], {va[0]})", f"t{u}([{va[1]}, {va[0]}], {va[-1]})"]
        return src, calls

    def t_generic_class(self):
        u = self.u()
        (ta, va), (tb, vb) = self.two_scalars()
        src = [f"class Box{u}(Generic[T]):",
               f"    def __init__(self, item: T) -> None:", f"        self.item = item",
               f"    def get(self) -> T:", f"        return self.item",
               f"    def map(self, f: Callable[[T], U]) -> Box{u}[U]:", f"        return Box{u}(f(self.item))",
               f"def conv{u}(x: {ta}) -> {tb}:", f"    return {vb[0]}",
               f"def t{u}(b: Box{u}[{ta}], o: Optional[Box{u}[{tb}]]) -> {tb}:",
               f"    probe({self.p()}, b.get())",
               f"    c = b.map(conv{u})", f"    probe({self.p()}, c)", f"    probe({self.p()}, c.get())",
               f"    if o is not None:", f"        probe({self.p()}, o.get())", f"        c = o",
               f"    probe({self.p()}, c.item)",
               f"    return c.get()"]
        calls = [f"t{u}(Box{u}({va[0]}), None)", f"t{u}(Box{u}({va[1]}), Box{u}({vb[1]}))"]
        return src, calls

    def t_protocol(self):
        u = self.u()
        (ta, va) = self.scalar()
        src = [f"class HasSize{u}(Protocol):", f"    def size(self) -> int: ...",
               f"class P{u}:", f"    def size(self) -> int:", f"        return 3",
               f"class Q{u}:", f"    def __init__(self, n: int) -> None:", f"        self.n = n",
               f"    def size(self) -> int:", f"        return self.n",
               f"    def extra(self) -> {ta}:", f"        return {va[0]}",
               f"def total{u}(xs: Iterable[HasSize{u}]) -> int:", f"    s = 0",
               f"    for x in xs:", f"        probe({self.p()}, x.size())", f"        s += x.size()", f"    return s",
               f"def t{u}(a: HasSize{u}, flag: bool) -> int:",
               f"    if isinstance(a, Q{u}):", f"        probe({self.p()}, a.extra())", f"        probe({self.p()}, a)",
               f"    else:", f"        probe({self.p()}, a.size())",
               f"    items: list[HasSize{u}] = [a, P{u}()]",
               f"    if flag:", f"        items.append(Q{u}(5))",
               f"    return total{u}(items)"]
        calls = [f"t{u}(P{u}(), True)", f"t{u}(Q{u}(2), False)"]
        return src, calls

    def t_dataclass(self):
        u = self.u()
        (ta, va), (tb, vb) = self.two_scalars()
        src = [f"@dataclass", f"class D{u}:", f"    a: {ta}", f"    b: Optional[{tb}] = None",
               f"    tags: list[str] = field(default_factory=list)",
               f"    def label(self) -> str:", f"        return str(self.a)",
               f"@dataclass", f"class E{u}(D{u}):", f"    c: int = 0",
               f"def t{u}(d: D{u}) -> str:",
               f"    probe({self.p()}, d.a)", f"    probe({self.p()}, d.b)", f"    probe({self.p()}, d.tags)",
               f"    e = D{u}({va[0]}, d.b)", f"    probe({self.p()}, e)", f"    probe({self.p()}, e == d)",
               f"    if isinstance(d, E{u}):", f"        probe({self.p()}, d.c)", f"        return d.label() + str(d.c)",
               f"    if d.b is None:", f"        return d.label()",
               f"    probe({self.p()}, d.b)",
               f"    return d.label()"]
        calls = [f"t{u}(D{u}({va[0]}))", f"t{u}(D{u}({va[1]}, {vb[0]}, ['q']))", f"t{u}(E{u}({va[0]}, None, [], 4))"]
        return src, calls

    def t_enum(self):
        u = self.u()
        names = self.r.sample(["RED", "GREEN", "BLUE", "GREY"], 3)
        src = [f"class Col{u}(enum.Enum):"] + [f"    {n} = {i + 1}" for i, n in enumerate(names)] + [
               f"def t{u}(c: Col{u}, o: Optional[Col{u}]) -> int:",
               f"    if c is Col{u}.{names[0]}:", f"        probe({self.p()}, c)", f"        return 1",
               f"    probe({self.p()}, c)",
               f"    if c == Col{u}.{names[1]}:", f"        probe({self.p()}, c)", f"        return 2",
               f"    probe({self.p()}, c)",
               f"    if o is None or o is c:", f"        probe({self.p()}, o)", f"        return 3",
               f"    probe({self.p()}, o)", f"    probe({self.p()}, o.value)", f"    probe({self.p()}, o.name)",
               f"    return 4"]
        calls = [f"t{u}(Col{u}.{a}, {b})" for a in names for b in ["None", f"Col{u}.{names[2]}", f"Col{u}.{names[0]}"]]
        return src, calls

    def t_tuple(self):
        u = self.u()
        (ta, va), (tb, vb) = self.two_scalars()
        src = [f"def t{u}(p: tuple[{ta}, {tb}], q: Optional[tuple[{ta}, ...]]) -> {ta}:",
               f"    a, b = p", f"    probe({self.p()}, a)", f"    probe({self.p()}, b)", f"    probe({self.p()}, p[1])",
               f"    r = (b, a, p)", f"    probe({self.p()}, r)", f"    probe({self.p()}, r[2][0])",
               f"    if q:", f"        probe({self.p()}, q)", f"        probe({self.p()}, q[0])", f"        return q[-1]",
               f"    probe({self.p()}, q)",
               f"    return a"]
        calls = [f"t{u}(({va[0]}, {vb[0]}), None)", f"t{u}(({va[1]}, {vb[1]}), ())", f"t{u}(({va[0]}, {vb[0]}), ({va[1]}, {va[0]}))"]
        return src, calls

    def t_containers(self):
        u = self.u()
        (ta, va), (tb, vb) = self.two_scalars()
        src = [f"def t{u}(xs: list[Optional[{ta}]], m: dict[str, {tb}]) -> list[{ta}]:",
               f"    out: list[{ta}] = []",
               f"    for x in xs:",
               f"        if x is None:", f"            continue",
               f"        probe({self.p()}, x)", f"        out.append(x)",
               f"    v = m.get('k')", f"    probe({self.p()}, v)",
               f"    if v is not None:", f"        probe({self.p()}, v)",
               f"    ys = [y for y in xs if y is not None]", f"    probe({self.p()}, ys)",
               f"    d = {{k: w for k, w in m.items()}}", f"    probe({self.p()}, d)",
               f"    for k, w in m.items():", f"        probe({self.p()}, k)", f"        probe({self.p()}, w)",
               f"    s = set(out)", f"    probe({self.p()}, s)",
               f"    return out + ys"]
        calls = [f"t{u}([], {{}})", f"t{u}([{va[0]}, None, {va[1]}], {{'k': {vb[0]}, 'j': {vb[1]}}})"]
        return src, calls

    def t_callable(self):
        u = self.u()
        (ta, va), (tb, vb) = self.two_scalars()
        src = [f"def app{u}(f: Callable[[{ta}], {tb}], x: {ta}) -> {tb}:", f"    return f(x)",
               f"def mk{u}(k: {tb}) -> Callable[[{ta}], {tb}]:",
               f"    def inner(x: {ta}) -> {tb}:", f"        probe({self.p()}, x)", f"        return k",
               f"    return inner",
               f"def t{u}(x: {ta}, g: Optional[Callable[[{ta}], {tb}]]) -> {tb}:",
               f"    f = mk{u}({vb[0]})", f"    probe({self.p()}, app{u}(f, x))",
               f"    if g is None:", f"        g = lambda z: {vb[1]}",
               f"    probe({self.p()}, g(x))",
               f"    h = g if callable(g) else f",
               f"    return app{u}(h, x)"]
        calls = [f"t{u}({va[0]}, None)", f"t{u}({va[1]}, lambda q: {vb[0]})"]
        return src, calls

    def t_overload(self):
        u = self.u()
        src = [f"@overload", f"def ov{u}(x: int) -> str: ...",
               f"@overload", f"def ov{u}(x: str) -> int: ...",
               f"def ov{u}(x: Union[int, str]) -> Union[int, str]:",
               f"    if isinstance(x, int):", f"        return str(x)", f"    return len(x)",
               f"def t{u}(a: int, b: str, c: Union[int, str]) -> int:",
               f"    probe({self.p()}, ov{u}(a))", f"    probe({self.p()}, ov{u}(b))", f"    probe({self.p()}, ov{u}(c))",
               f"    probe({self.p()}, ov{u}(True))",
               f"    return ov{u}(ov{u}(a))"]
        calls = [f"t{u}(1, 'ab', 2)", f"t{u}(-5, '', 'zz')"]
        return src, calls

    def t_typeddict_namedtuple(self):
        u = self.u()
        (ta, va) = self.scalar()
        src = [f"class TD{u}(TypedDict, total=False):", f"    a: {ta}", f"    b: str",
               f"class NT{u}(NamedTuple):", f"    x: {ta}", f"    y: Optional[int] = None",
               f"def t{u}(d: TD{u}, n: NT{u}) -> int:",
               f"    if 'a' in d:", f"        probe({self.p()}, d['a'])",
               f"    probe({self.p()}, d.get('b'))",
               f"    probe({self.p()}, n.x)", f"    probe({self.p()}, n[0])", f"    probe({self.p()}, n.y)",
               f"    x, y = n", f"    probe({self.p()}, y)",
               f"    if y is None:", f"        y = 0",
               f"    probe({self.p()}, y)",
               f"    return y + len(d)"]
        calls = [f"t{u}({{}}, NT{u}({va[0]}))", f"t{u}({{'a': {va[1]}, 'b': 's'}}, NT{u}({va[0]}, 4))"]
        return src, calls

    def t_property_classmethod(self):
        u = self.u()
        (ta, va) = self.scalar()
        src = [f"class C{u}:",
               f"    count: int = 0",
               f"    def __init__(self, v: {ta}) -> None:", f"        self._v = v",
               f"    @property", f"    def v(self) -> {ta}:", f"        return self._v",
               f"    @classmethod", f"    def make(cls, v: {ta}) -> C{u}:", f"        cls.count += 1", f"        return cls(v)",
               f"    @staticmethod", f"    def twice(n: int) -> int:", f"        return n * 2",
               f"class S{u}(C{u}):", f"    def extra(self) -> int:", f"        return 1",
               f"def t{u}(c: C{u}) -> int:",
               f"    probe({self.p()}, c.v)", f"    d = C{u}.make(c.v)", f"    probe({self.p()}, d)", f"    probe({self.p()}, C{u}.count)",
               f"    e = S{u}.make(c.v)", f"    probe({self.p()}, e)",
               f"    if isinstance(c, S{u}):", f"        return c.extra() + C{u}.twice(2)",
               f"    return c.twice(3)"]
        calls = [f"t{u}(C{u}({va[0]}))", f"t{u}(S{u}({va[1]}))"]
        return src, calls

    def t_multiple_inheritance(self):
        u = self.u()
        src = [f"class A{u}:", f"    def __init__(self) -> None:", f"        self.a = 1", f"    def who(self) -> str:", f"        return 'a'",
               f"class B{u}:", f"    def tag(self) -> int:", f"        return 2",
               f"class AB{u}(A{u}, B{u}):", f"    def who(self) -> str:", f"        return 'ab'",
               f"def t{u}(x: A{u}, y: Union[A{u}, B{u}]) -> int:",
               f"    if isinstance(x, B{u}):", f"        probe({self.p()}, x)", f"        probe({self.p()}, x.tag())", f"        probe({self.p()}, x.a)",
               f"    else:", f"        probe({self.p()}, x)",
               f"    if isinstance(y, A{u}) and isinstance(y, B{u}):", f"        probe({self.p()}, y.tag() + y.a)",
               f"    elif isinstance(y, B{u}):", f"        probe({self.p()}, y.tag())",
               f"    else:", f"        probe({self.p()}, y.who())",
               f"    return x.a"]
        calls = [f"t{u}({a}, {b})" for a in [f"A{u}()", f"AB{u}()"] for b in [f"A{u}()", f"B{u}()", f"AB{u}()"]]
        return src, calls

    def t_try_finally(self):
        u = self.u()
        (ta, va) = self.scalar()
        src = [f"def risky{u}(n: int) -> int:", f"    if n > 2:", f"        raise ValueError('big')", f"    return n",
               f"def t{u}(n: int, o: Optional[{ta}]) -> int:",
               f"    r: Optional[int] = None", f"    x: Union[int, str] = 'init'",
               f"    try:", f"        r = risky{u}(n)", f"        x = r", f"        probe({self.p()}, x)",
               f"    except ValueError as e:", f"        probe({self.p()}, e)", f"        probe({self.p()}, x)", f"        x = 'err'",
               f"    else:", f"        probe({self.p()}, r)",
               f"    finally:", f"        probe({self.p()}, r)", f"        probe({self.p()}, x)",
               f"    probe({self.p()}, x)",
               f"    if r is None:", f"        return -1",
               f"    probe({self.p()}, r)",
               f"    if o is None:", f"        return r",
               f"    probe({self.p()}, o)",
               f"    return r + 1"]
        calls = [f"t{u}(1, None)", f"t{u}(5, {va[0]})", f"t{u}(2, {va[1]})"]
        return src, calls

    def t_break_continue(self):
        u = self.u()
        src = [f"class N{u}:", f"    def __init__(self, v: int, nxt: Optional[N{u}]) -> None:", f"        self.v = v", f"        self.nxt = nxt",
               f"def t{u}(head: Optional[N{u}], lim: int) -> int:",
               f"    cur = head", f"    found: Optional[N{u}] = None", f"    i = 0",
               f"    while cur is not None:",
               f"        probe({self.p()}, cur)",
               f"        i += 1",
               f"        if cur.v < 0:", f"            cur = cur.nxt", f"            continue",
               f"        if i > lim:", f"            found = cur", f"            break",
               f"        cur = cur.nxt",
               f"    else:", f"        probe({self.p()}, cur)", f"        probe({self.p()}, found)",
               f"    probe({self.p()}, cur)", f"    probe({self.p()}, found)",
               f"    for k in range(3):",
               f"        if found is None:", f"            break",
               f"        probe({self.p()}, found.v)", f"        found = found.nxt",
               f"    return i"]
        calls = [f"t{u}(None, 1)", f"t{u}(N{u}(1, N{u}(-1, N{u}(2, None))), 5)", f"t{u}(N{u}(1, N{u}(3, N{u}(2, None))), 1)"]
        return src, calls

    def t_match(self):
        u = self.u()
        (ta, va), (tb, vb) = self.two_scalars()
        src = [f"@dataclass", f"class Pt{u}:", f"    x: int", f"    y: int",
               f"def t{u}(v: Union[{ta}, {tb}, Pt{u}, tuple[int, int], None]) -> int:",
               f"    match v:",
               f"        case None:", f"            probe({self.p()}, v)", f"            return 0",
               f"        case Pt{u}(x=0, y=yy):", f"            probe({self.p()}, yy)", f"            return 1",
               f"        case Pt{u}():", f"            probe({self.p()}, v)", f"            return 2",
               f"        case (a, b):", f"            probe({self.p()}, a)", f"            probe({self.p()}, v)", f"            return 3",
               f"        case {ta}():", f"            probe({self.p()}, v)", f"            return 4",
               f"        case _:", f"            probe({self.p()}, v)", f"            return 5"]
        calls = [f"t{u}({x})" for x in ["None", f"Pt{u}(0, 4)", f"Pt{u}(1, 1)", "(1, 2)", va[0], vb[0]]]
        return src, calls

    def t_walrus_truthiness(self):
        u = self.u()
        src = [f"def look{u}(k: str) -> Optional[str]:", f"    return k if k.startswith('a') else None",
               f"def t{u}(k: str, n: Optional[int], s: Optional[str], xs: Optional[list[int]]) -> int:",
               f"    if (v := look{u}(k)) is not None:", f"        probe({self.p()}, v)",
               f"    else:", f"        probe({self.p()}, v)",
               f"    if n:", f"        probe({self.p()}, n)",
               f"    else:", f"        probe({self.p()}, n)",
               f"    if not s:", f"        probe({self.p()}, s)",
               f"    else:", f"        probe({self.p()}, s)",
               f"    t = s or 'dflt'", f"    probe({self.p()}, t)",
               f"    m = n and n + 1", f"    probe({self.p()}, m)",
               f"    if xs:", f"        probe({self.p()}, xs[0])",
               f"    return len(t) + (n if n is not None else 0)"]
        calls = [f"t{u}('ab', None, None, None)", f"t{u}('b', 0, '', [])", f"t{u}('a', 3, 'q', [1])"]
        return src, calls

    def t_equality_literal(self):
        u = self.u()
        src = [f"MODE{u}: Final = 'fast'",
               f"def t{u}(m: Literal['fast', 'slow'], n: Optional[int], k: Union[int, str]) -> int:",
               f"    if m == 'fast':", f"        probe({self.p()}, m)",
               f"    else:", f"        probe({self.p()}, m)",
               f"    if n == 1:", f"        probe({self.p()}, n)",
               f"    else:", f"        probe({self.p()}, n)",
               f"    if k == 'x':", f"        probe({self.p()}, k)",
               f"    elif k == 0:", f"        probe({self.p()}, k)",
               f"    else:", f"        probe({self.p()}, k)",
               f"    if n is not None and n != 2:", f"        probe({self.p()}, n)",
               f"    probe({self.p()}, MODE{u})",
               f"    return 0 if n is None else n"]
        calls = [f"t{u}('fast', None, 0)", f"t{u}('slow', 1, 'x')", f"t{u}('slow', 2, 5)", f"t{u}('fast', True, False)"]
        return src, calls

    def t_nested_optional_attr(self):
        u = self.u()
        src = [f"class In{u}:", f"    def __init__(self, v: Optional[int]) -> None:", f"        self.v = v",
               f"class Out{u}:", f"    def __init__(self, i: Optional[In{u}]) -> None:", f"        self.i = i",
               f"def t{u}(o: Optional[Out{u}]) -> int:",
               f"    if o is not None and o.i is not None and o.i.v is not None:",
               f"        probe({self.p()}, o.i.v)", f"        return o.i.v",
               f"    if o is None or o.i is None:", f"        probe({self.p()}, o)", f"        return -1",
               f"    probe({self.p()}, o.i)", f"    probe({self.p()}, o.i.v)",
               f"    return -2"]
        calls = [f"t{u}(None)", f"t{u}(Out{u}(None))", f"t{u}(Out{u}(In{u}(None)))", f"t{u}(Out{u}(In{u}(4)))"]
        return src, calls

    def t_abstract_super(self):
        u = self.u()
        src = [f"import abc",
               f"class Sh{u}(abc.ABC):", f"    @abc.abstractmethod", f"    def area(self) -> int: ...",
               f"    def desc(self) -> str:", f"        return 'shape' + str(self.area())",
               f"class Sq{u}(Sh{u}):", f"    def __init__(self, s: int) -> None:", f"        self.s = s",
               f"    def area(self) -> int:", f"        return self.s * self.s",
               f"    def desc(self) -> str:", f"        return 'sq:' + super().desc()",
               f"class Ci{u}(Sh{u}):", f"    def area(self) -> int:", f"        return 3",
               f"def t{u}(shapes: list[Sh{u}]) -> int:", f"    tot = 0",
               f"    for s in shapes:", f"        probe({self.p()}, s.desc())",
               f"        if isinstance(s, Sq{u}):", f"            probe({self.p()}, s.s)",
               f"        tot += s.area()",
               f"    big = max(shapes, key=lambda z: z.area()) if shapes else None", f"    probe({self.p()}, big)",
               f"    return tot"]
        calls = [f"t{u}([])", f"t{u}([Sq{u}(2), Ci{u}()])"]
        return src, calls

    def t_generic_bound(self):
        u = self.u()
        src = [f"class Base{u}:", f"    def key(self) -> int:", f"        return 1",
               f"class Der{u}(Base{u}):", f"    def key(self) -> int:", f"        return 2", f"    def only(self) -> str:", f"        return 'd'",
               f"TB{u} = TypeVar('TB{u}', bound=Base{u})",
               f"def best{u}(xs: list[TB{u}]) -> Optional[TB{u}]:",
               f"    r: Optional[TB{u}] = None",
               f"    for x in xs:", f"        if r is None or x.key() > r.key():", f"            r = x",
               f"    return r",
               f"def t{u}(ds: list[Der{u}], bs: list[Base{u}]) -> str:",
               f"    d = best{u}(ds)", f"    probe({self.p()}, d)",
               f"    b = best{u}(bs)", f"    probe({self.p()}, b)",
               f"    if d is not None:", f"        probe({self.p()}, d.only())", f"        return d.only()",
               f"    return '' if b is None else str(b.key())"]
        calls = [f"t{u}([], [])", f"t{u}([Der{u}()], [Base{u}(), Der{u}()])", f"t{u}([], [Der{u}()])"]
        return src, calls

    def t_nested_try_reassign(self):
        """a local narrowed from a declared union is reassigned inside nested try statements; every handler /
        finally clause / continuation observes it (binder try frames at every depth)"""
        u = self.u()
        r = self.r
        depth = r.choice([2, 2, 3])
        other, oval = r.choice([("int", "7"), ("str", "'s'"), ("None", "None")])
        src = [f"class P{u}:", f"    def __init__(self, v: int) -> None:", f"        self.v = v",
               f"def risky{u}(n: int) -> int:",
               f"    if n == 1:", f"        raise ValueError('one')",
               f"    if n == 2:", f"        raise KeyError('two')",
               f"    if n == 3:", f"        raise IndexError('three')",
               f"    return n",
               f"def t{u}(n: int, o: Union[P{u}, int, str, None]) -> int:",
               f"    x: Union[P{u}, int, str, None] = o",
               f"    if not isinstance(x, P{u}):", f"        return -1",
               f"    probe({self.p()}, x)"]
        excs = ["ValueError", "KeyError", "IndexError"]
        r.shuffle(excs)
        ind = "    "
        for d in range(depth):
            src.append(f"{ind}try:")
            ind += "    "
            if r.random() < 0.4:
                src.append(f"{ind}probe({self.p()}, x)")
        # innermost body: leave the narrowed type, something may raise, come back
        src += [f"{ind}x = {oval}", f"{ind}probe({self.p()}, x)", f"{ind}risky{u}(n)", f"{ind}x = P{u}(n)", f"{ind}probe({self.p()}, x.v)"]
        for d in range(depth):
            ind = ind[:-4]
            exc = excs[d % 3]
            if r.random() < 0.7 or d == depth - 1:
                src += [f"{ind}except {exc}:", f"{ind}    probe({self.p()}, x)"]
                k = r.random()
                if k < 0.4:
                    src.append(f"{ind}    return -2")
                elif k < 0.7:
                    src.append(f"{ind}    x = P{u}(0)")
                if r.random() < 0.4:
                    src += [f"{ind}finally:", f"{ind}    probe({self.p()}, x)"]
            else:
                src += [f"{ind}finally:", f"{ind}    probe({self.p()}, x)"]
            src.append(f"{ind}probe({self.p()}, x)")
        src += [f"    if isinstance(x, P{u}):", f"        return x.v", f"    probe({self.p()}, x)", f"    return 0"]
        calls = [f"t{u}({n}, P{u}(5))" for n in (0, 1, 2, 3)] + [f"t{u}(0, None)"]
        return src, calls

    def t_boolop_subclass_falsy(self):
        """`a or b` / `a and b` over subclass-related classes whose instances can be false, then a falsiness test of
        the result (the simplified union must still admit false values)"""
        u = self.u()
        r = self.r
        dunder = r.choice(["__bool__", "__len__"])
        rt, expr = ("bool", "self.n > 0") if dunder == "__bool__" else ("int", "self.n")
        src = [f"class Bk{u}:", f"    def __init__(self, n: int) -> None:", f"        self.n = n",
               f"    def {dunder}(self) -> {rt}:", f"        return {expr}",
               f"class Gf{u}(Bk{u}):", f"    def tag(self) -> str:", f"        return 'g'"]
        ta, tb = r.choice([(f"Bk{u}", f"Gf{u}"), (f"Gf{u}", f"Bk{u}"), (f"Gf{u}", f"Gf{u}"), (f"Optional[Gf{u}]", f"Bk{u}"),
                           (f"Bk{u}", f"Optional[Gf{u}]")])
        op = r.choice(["or", "or", "and"])
        src += [f"def t{u}(a: {ta}, b: {tb}) -> int:",
                f"    w = a {op} b", f"    probe({self.p()}, w)"]
        if r.random() < 0.5:
            src += [f"    if not w:", f"        probe({self.p()}, w)", f"        return 0",
                    f"    probe({self.p()}, w)", f"    return w.n"]
        else:
            src += [f"    if w:", f"        probe({self.p()}, w)", f"        return w.n",
                    f"    else:", f"        probe({self.p()}, w)", f"    return 0"]
        src += [f"def s{u}(a: {ta}, b: {tb}) -> int:",
                f"    if not (a {op} b):", f"        probe({self.p()}, a)", f"        probe({self.p()}, b)", f"        return 0",
                f"    v = (a {op} b) {'and' if op == 'or' else 'or'} a", f"    probe({self.p()}, v)",
                f"    if v:", f"        return 1", f"    probe({self.p()}, v)", f"    return 2"]

        def vals(t):
            c = t.replace("Optional[", "").replace("]", "")
            return [f"{c}(0)", f"{c}(2)"] + (["None"] if t.startswith("Optional") else []) + ([f"Gf{u}(0)"] if c.startswith("Bk") else [])
        calls = [f"{f}{u}({x}, {y})" for f in ("t", "s") for x in vals(ta) for y in vals(tb)]
        return src, calls

    def t_truthiness_after_merge(self):
        """truthiness narrowing of a local whose type comes out of a merge (branches, conditional expression, loop)"""
        u = self.u()
        r = self.r
        dunder = r.choice(["__bool__", "__len__"])
        rt, expr = ("bool", "self.n > 0") if dunder == "__bool__" else ("int", "self.n")
        src = [f"class Bs{u}:", f"    def __init__(self, n: int) -> None:", f"        self.n = n",
               f"class Fa{u}(Bs{u}):", f"    def {dunder}(self) -> {rt}:", f"        return {expr}",
               f"def t{u}(c: int, o: Optional[Bs{u}]) -> int:",
               f"    x: Optional[Bs{u}] = None"]
        shape = r.choice(["ite", "cond", "loop", "try"])
        if shape == "ite":
            src += [f"    if c > 1:", f"        x = Fa{u}(c - 2)", f"    elif c > 0:", f"        x = Bs{u}(c)", f"    else:", f"        x = o"]
        elif shape == "cond":
            src += [f"    x = Fa{u}(c - 2) if c > 1 else o"]
        elif shape == "loop":
            src += [f"    i = 0", f"    while i < c:", f"        i += 1", f"        if x:", f"            probe({self.p()}, x)", f"            continue",
                    f"        x = Fa{u}(i - 1) if i > 1 else o"]
        else:
            src += [f"    try:", f"        x = Fa{u}(c - 2)", f"        if c < 0:", f"            raise ValueError()", f"        x = o",
                    f"    except ValueError:", f"        probe({self.p()}, x)"]
        src.append(f"    probe({self.p()}, x)")
        if r.random() < 0.5:
            src += [f"    if x:", f"        probe({self.p()}, x)", f"        return x.n",
                    f"    probe({self.p()}, x)", f"    if x is not None:", f"        probe({self.p()}, x)", f"        return -x.n", f"    return 0"]
        else:
            src += [f"    if not x:", f"        probe({self.p()}, x)", f"        if x is None:", f"            return 0",
                    f"        probe({self.p()}, x)", f"        return -1",
                    f"    probe({self.p()}, x)", f"    return x.n"]
        calls = [f"t{u}({c}, {o})" for c in (-1, 0, 1, 2, 3) for o in ("None", f"Bs{u}(1)", f"Fa{u}(0)", f"Fa{u}(4)")]
        return src, calls

    TEMPLATES = ["t_union_chain", "t_generic_first", "t_generic_class", "t_protocol", "t_dataclass", "t_enum", "t_tuple",
                 "t_containers", "t_callable", "t_overload", "t_typeddict_namedtuple", "t_property_classmethod",
                 "t_multiple_inheritance", "t_try_finally", "t_break_continue", "t_match", "t_walrus_truthiness",
                 "t_equality_literal", "t_nested_optional_attr", "t_abstract_super", "t_generic_bound",
                 "t_nested_try_reassign", "t_boolop_subclass_falsy", "t_truthiness_after_merge"]

    def module(self, k: int):
        names = [self.r.choice(self.TEMPLATES) for _ in range(k)]
        src, calls = [HEADER], []
        for n in names:
            s, c = getattr(self, n)()
            src += s
            calls += c
        return "\n".join(src) + "\n", calls, names
