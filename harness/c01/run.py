"""C01 — accepted programs do not go wrong (static types over-approximate runtime values).

1. Lean: Props/C01 — `soundness` for the MiniPy fragment (Model/Lang.lean, Model/LangTc.lean): for well-formed
   programs accepted by the algorithmic checker `tc`, no execution of the fuel interpreter `eval` ends in
   TypeError/AttributeError and every probe value is a member of the type `tc` recorded for it.
2. Tie (correspondence), two-sided, on generated programs (each program is rendered as a Lean term and as Python):
   a. `tc` vs. real mypy (in-process build, export_types): accept/reject and the type of every probe argument;
   b. `eval` vs. CPython: outcome kind, return value and probe log of every call vector.
   A perturbation stream (one ill-typing edit of an accepted program) checks that both reject the same edits.
3. Search — the property's own oracle on the real code, for model programs, their perturbations, the known
   unsound shapes (explicit replays), a wider template stream outside the model (wide.py) and a flow fuzzer
   (flow.py: nested try frames, or/and over subclass-related falsy-capable classes — also @final ones that inherit
   `__bool__`/`__len__` —, repeated truthiness tests, speculative uses that are kept only where mypy accepts them)
   and speculative-statement templates (spec.py: raise forms with Optional operands / causes, overrides putting
   positional parameters in front of the base's *args / **kwargs, final classes × truthiness): run what mypy
   accepts under CPython
   and look for (i) TypeError/AttributeError, (ii) a probe value outside mypy's exported type, (iii) execution
   of a block mypy marked unreachable.
"""
from __future__ import annotations

import json
import os

from harness.vlib.core import Ctx, ToolFailure

from . import gen as G
from . import lang as L
from . import real as R

MODEL_FILES = ["MypyVerif/Model/Lang.lean", "MypyVerif/Model/LangTc.lean", "MypyVerif/Model/LangSem.lean"]
PROOF_FILES = ["MypyVerif/Proofs/LangBasic.lean", "MypyVerif/Proofs/LangEnv.lean", "MypyVerif/Proofs/LangNarrow.lean",
               "MypyVerif/Proofs/LangOps.lean", "MypyVerif/Proofs/LangGlobal.lean", "MypyVerif/Proofs/LangSoundE.lean",
               "MypyVerif/Proofs/LangSoundS.lean"]
BATCH = 40


# ------------------------------------------------------------------------------------------- helpers
def py_call(f: int, args: list) -> str:
    em = L.PyEmit(0, False, [])
    return f"f{f}({', '.join(em.e(a) for a in args)})"


def parse_model_line(line: str) -> dict:
    if " || " not in line:
        raise ToolFailure("unexpected driver output: " + line[:200])
    head, calls = line.split(" || ", 1)
    d = {}
    for part in head.split(" "):
        pass
    wf = head.split("wf=")[1].split(" ")[0] == "1"
    tc = head.split(" tc=")[1].split(" tm=")[0]
    tm_s = head.split(" tm=")[1]
    tm = {}
    for item in filter(None, tm_s.split(";")):
        k, t = item.split(":")
        tm[int(k)] = tuple(sorted(set(filter(None, t.split("|")))))
    res = []
    for c in (calls.split(";;") if calls else []):
        out, _, log = c.partition(" @")
        out = out.strip()
        events = []
        for ev in filter(None, log.strip().split(",")):
            k, v = ev.split("=")
            events.append((int(k), v))
        res.append({"out": out, "log": events})
    return {"wf": wf, "tc": tc, "tm": tm, "calls": res}


def val_str(d: dict | None) -> str:
    """CPython value description → the driver's VAL syntax"""
    if d is None:
        return "?"
    k = d["k"]
    if k == "i": return f"i{d['v']}"
    if k == "b": return "b1" if d["v"] else "b0"
    if k == "s": return "s" + ".".join(str(ord(ch)) for ch in d["v"])
    if k == "n": return "n"
    if k == "r" and d["cls"].startswith("K"): return "r" + d["cls"][1:]
    return "?" + k


OUT_MAP = {"TypeError": "typeError", "AttributeError": "attrError", "UnboundLocalError": "unbound", "timeout": "timeout",
           "other:ValueError": "exc 0", "other:IndexError": "exc 1", "other:KeyError": "exc 2"}


def real_call_str(c: dict) -> tuple[str, list]:
    if c["out"] == "ok":
        out = "ok " + val_str(c["ret"])
    else:
        out = OUT_MAP.get(c["out"], c["out"])
    return out, [(k, val_str(v)) for k, v in c["log"]]


def shapes(p: L.Prog) -> dict[str, set]:
    """which of the known unsound program shapes (DESIGN §3 F18/F19) the program has — the Python twin of `Lang.WF`;
    shape ↦ the (class, attribute) pairs concerned"""
    out: dict[str, set] = {}
    for c, cd in enumerate(p.classes):
        declared = []
        for k in cd.mro:
            declared += [f for f, _ in p.classes[k].attrs]
        assigned = {f for f, _ in cd.init_assigns}
        for f in declared:
            if f not in assigned:
                out.setdefault("declared-unassigned-attribute", set()).add((f"K{c}", f"a{f}"))
        inherited = {}
        for k in reversed(cd.mro[1:]):
            inherited.update(dict(p.classes[k].attrs))
        for f, t in cd.attrs:
            if f in inherited and inherited[f] != t:
                out.setdefault("attribute-redeclared-with-different-type", set()).add((f"K{c}", f"a{f}"))
    return out


class Case:
    def __init__(self, name: str, prog: L.Prog | None, calls: list, kind: str, note: str = "",
                 src: str | None = None, pycalls: list[str] | None = None):
        self.name, self.prog, self.calls, self.kind, self.note = name, prog, calls, kind, note
        if prog is not None:
            self.src = L.to_python(prog)
            self.lean = L.to_lean(prog, calls)
            self.pycalls = [py_call(f, a) for f, a in calls]
        else:                      # outside the model: Python text only
            self.src, self.lean, self.pycalls = src, None, list(pycalls or [])


# ------------------------------------------------------------------------------------------- the three sides
DRIVER_CHUNK = 100


def run_driver(ctx: Ctx, cases: list) -> None:
    """Fill `case.model` for every case (None when the interpreter of the model did not finish in time on it —
    such programs are excluded from the comparison and counted; a tool limit, not a verdict)."""
    todo = [c for c in cases if not hasattr(c, "model")]
    for i in range(0, len(todo), DRIVER_CHUNK):
        chunk = todo[i:i + DRIVER_CHUNK]
        try:
            lines = ctx.lean_driver("Driver/C01.lean", [c.lean for c in chunk], timeout=240)
            if len(lines) != len(chunk):
                raise ToolFailure(f"driver returned {len(lines)} lines for {len(chunk)} programs")
            for c, l in zip(chunk, lines):
                c.model = parse_model_line(l)
        except ToolFailure as e:
            if "timed out" not in str(e):
                raise
            for c in chunk:
                try:
                    c.model = parse_model_line(ctx.lean_driver("Driver/C01.lean", [c.lean], timeout=30)[0])
                except ToolFailure as e2:
                    if "timed out" not in str(e2):
                        raise
                    c.model = None
                    ctx.dist("excluded", "driver-timeout")



def run_three(ctx: Ctx, cases: list[Case]):
    import time
    t0 = time.time()
    run_driver(ctx, cases)
    cases[:] = [c for c in cases if c.model is not None]
    model = [c.model for c in cases]
    t1 = time.time()
    mres = R.check_batch({c.name: c.src for c in cases})
    t2 = time.time()
    jobs = [{"name": c.name, "src": c.src, "calls": c.pycalls, "dead": mres[c.name]["dead"]} for c in cases]
    rres = R.run_batch(jobs, ctx.tmp)
    t3 = time.time()
    for k, v in (("lean_driver", t1 - t0), ("mypy", t2 - t1), ("cpython", t3 - t2)):
        ctx.coverage.setdefault("wall_by_side_s", {}).setdefault(k, 0)
        ctx.coverage["wall_by_side_s"][k] = round(ctx.coverage["wall_by_side_s"][k] + v, 1)
    return model, [mres[c.name] for c in cases], rres


def oracle(ctx: Ctx, case_name: str, src: str, mypy_res: dict, run_res: dict, pycalls: list[str]) -> list[dict]:
    """The property itself on the real code: list of concrete failures (empty = held on these executions)."""
    fails = []
    if mypy_res["errors"] or mypy_res.get("crash"):
        return fails                                   # not an accepted program: the property says nothing
    if run_res["load"]:
        kind = run_res["load"].split(":")[0]
        if kind in ("TypeError", "AttributeError"):
            fails.append({"kind": kind, "call": "<module load>", "msg": run_res["load"]})
        return fails
    for call, c in zip(pycalls, run_res["calls"]):
        if c["out"] in ("TypeError", "AttributeError"):
            fails.append({"kind": c["out"], "call": call, "msg": c["msg"], "line": c["where"]})
        for k, v in c["log"]:
            t = mypy_res["probes"].get(k)
            if t is None:
                fails.append({"kind": "probe-in-unchecked-code", "call": call, "probe": k, "value": R_val(v)})
            else:
                # a member of *some* type the checker stored for the expression (a finally body is checked twice)
                rs = [R.member(v, u) for u in mypy_res.get("probes_all", {}).get(k, [t])]
                if rs and all(x is False for x in rs):
                    fails.append({"kind": "value-outside-type", "call": call, "probe": k, "value": R_val(v), "type": str(t)})
        if c["dead_hit"]:
            fails.append({"kind": "unreachable-executed", "call": call, "lines": c["dead_hit"]})
    return fails


def R_val(v: dict) -> str:
    return val_str(v) if v.get("k") in ("i", "b", "s", "n", "r") else json.dumps(v)[:80]


def report_failures(ctx: Ctx, case: Case, model: dict | None, fails: list[dict]) -> None:
    """Concrete failures of the property on an accepted program: known shape → KNOWN-FINDING, else VIOLATION."""
    import re
    f = fails[0]
    sh = shapes(case.prog) if case.prog is not None else {}
    observed: dict = {"class": f["kind"]}
    if case.kind.startswith("replay:") and case.prog is None:
        observed["program"] = case.kind.split(":", 1)[1]
    elif model is not None and model["tc"].startswith("hole"):
        observed["shape"] = {"hole 1": "union-receiver-attribute-assignment", "hole 2": "loop-pass-cap",
                             "hole 3": "union-isinstance-common-subclass",
                             "hole 4": "narrowing-masks-assignment-at-jump",
                             "hole 5": "handler-state-misses-a-raise-point",
                             "hole 6": "jump-through-assigning-finally",
                             "hole 7": "dunder-bool-signature"}.get(model["tc"], model["tc"])
    elif "declared-unassigned-attribute" in sh and f["kind"] == "AttributeError":
        m = re.match(r"'(K\d+)' object has no attribute '(a\d+)'", f.get("msg", ""))
        observed["shape"] = "declared-unassigned-attribute"
        observed["attribute_is_unassigned"] = bool(m and (m.group(1), m.group(2)) in sh["declared-unassigned-attribute"])
    elif "attribute-redeclared-with-different-type" in sh:
        observed["shape"] = "attribute-redeclared-with-different-type"
    ctx.report(observed, f"mypy accepts {case.name} ({case.kind}) but {f['kind']} at run time: {json.dumps(f)[:300]}",
               {"source": case.src, "calls": case.pycalls, "failures": fails[:5], "shapes": {k: sorted(v) for k, v in sh.items()},
                "lean_term": case.lean, "model": model and {k: model[k] for k in ("wf", "tc")}})


def correspond(ctx: Ctx, cases: list[Case], stream: str) -> None:
    model, mres, rres = run_three(ctx, cases)
    for case, m, my, rr in zip(cases, model, mres, rres):
        ctx.case((stream, case.lean), nontrivial=True)
        ctx.count("traces_validated_against_impl")
        accepted = not my["errors"]
        ctx.dist(f"{stream}:mypy", "accepts" if accepted else "rejects")
        ctx.dist(f"{stream}:tc", (m["tc"] if m["tc"].startswith("hole") else m["tc"].split(" ")[0]) + ("" if m["wf"] else "+notWF"))
        if my.get("crash"):
            raise ToolFailure(f"mypy crashed on generated program {case.name}: {my['crash']}")
        diffs = []
        # (a) tc vs mypy
        tck = m["tc"].split(" ")[0]
        if tck in ("unsupported", "fuel"):
            ctx.dist("excluded", f"{stream}:{m['tc']}")
        elif tck == "hole":
            if not accepted:
                pass        # a later diagnostic of mypy's; `tc` stops at the first finding
        elif tck == "stuck":
            diffs.append(f"tc={m['tc']} (defensive check failed)")
        elif (tck == "ok") != accepted:
            diffs.append(f"verdict: tc={m['tc']} mypy={'accepts' if accepted else my['errors'][:2]}")
        elif tck == "ok":
            real_tm = {k: R.canon_type(t) for k, t in my["probes"].items()}
            for k in sorted(set(real_tm) | set(m["tm"])):
                if real_tm.get(k) != m["tm"].get(k):
                    diffs.append(f"probe {k}: tc={m['tm'].get(k)} mypy={real_tm.get(k)}")
            for k, t in m["tm"].items():
                ctx.dist("probe_type_size", str(min(len(t), 4)))
        # (b) eval vs CPython
        if rr["load"]:
            raise ToolFailure(f"generated module {case.name} does not load: {rr['load']}")
        for call, mc, rc in zip(case.pycalls, m["calls"], rr["calls"]):
            ro, rlog = real_call_str(rc)
            ctx.dist(f"{stream}:run", ro.split(" ")[0])
            if "timeout" in (ro, mc["out"]) or mc["out"].startswith("badargs"):
                ctx.dist("excluded", "run:timeout" if "timeout" in (ro, mc["out"]) else "run:badargs")
                continue
            if ro != mc["out"] or rlog != mc["log"]:
                diffs.append(f"run {call}: eval={mc['out']} {mc['log'][:6]} cpython={ro} {rlog[:6]}")
        # the property's own oracle on everything mypy accepts
        fails = oracle(ctx, case.name, case.src, my, rr, case.pycalls)
        if fails:
            report_failures(ctx, case, m, fails)
        elif accepted and tck == "ok" and m["wf"]:
            ctx.count("accepted_wf_programs_run")
        if diffs:
            ctx.count("disagreements_checked")
            if not fails:
                search_nearby(ctx, case, m, my, diffs, stream)
        if len(ctx.coverage["samples"]) < 2 and accepted and stream == "model":
            ctx.sample({"python": case.src, "lean_term": case.lean[:600], "tc": m["tc"], "tm": {k: list(v) for k, v in m["tm"].items()},
                        "first_call": case.pycalls[:1], "eval": m["calls"][:1]})


def search_nearby(ctx: Ctx, case: Case, m: dict, my: dict, diffs: list[str], stream: str) -> None:
    """A correspondence difference: look for a concrete failure of the property on more inputs of this program."""
    g = G.Gen(ctx.rng)
    g.h = G.Hier(case.prog.classes)
    extra = []
    for i, fd in enumerate(case.prog.funcs):
        for _ in range(12):
            try:
                extra.append((i, [g.input_value(t) for t in fd.params]))
            except RuntimeError:
                break
    pycalls = [py_call(f, a) for f, a in extra]
    rr = R.run_batch([{"name": case.name, "src": case.src, "calls": pycalls, "dead": my["dead"]}], ctx.tmp)[0]
    fails = oracle(ctx, case.name, case.src, my, rr, pycalls)
    if fails:
        report_failures(ctx, case, m, fails)
    else:
        ctx.violation(f"correspondence broken on {stream} program {case.name} ({case.kind} {case.note}): " + "; ".join(diffs[:3]),
                      {"broken": "Driver/C01 (Lang.tc / Lang.evalCall) vs mypy / CPython", "differences": diffs[:10],
                       "source": case.src, "lean_term": case.lean, "calls": case.pycalls,
                       "mypy_errors": my["errors"][:5], "model": {"wf": m["wf"], "tc": m["tc"]}},
                      found_input=False)


# ------------------------------------------------------------------------------------------- streams
def model_stream(ctx: Ctx, n: int) -> list[Case]:
    """n generated programs inside the fragment `tc` transcribes: candidates that `tc` itself classifies as outside
    (ad-hoc intersections, unreachable right operands, …) are counted and replaced (at most 3 rounds)."""
    g = G.Gen(ctx.rng)
    cases: list[Case] = []
    serial = 0
    for _round in range(4):
        need = n - len(cases)
        if need <= 0:
            break
        cand = []
        for _ in range(need + need // 3 + 2):
            p, calls = g.program()
            cand.append(Case(f"m{serial}", p, calls, "generated"))
            serial += 1
        run_driver(ctx, cand)
        for c in cand:
            if c.model is None:
                continue
            kind = c.model["tc"].split(" ")[0]
            if kind in ("unsupported", "fuel") and _round < 3:
                ctx.dist("generated_outside_fragment", c.model["tc"])
                continue
            if len(cases) < n:
                cases.append(c)
    for k, v in sorted(g.stats.items()):
        ctx.dist("constructs", k, v)
    for i in range(0, len(cases), BATCH):
        correspond(ctx, cases[i:i + BATCH], "model")
    return cases


def perturb_stream(ctx: Ctx, base: list[Case], n: int) -> None:
    cases = []
    pool = list(base)
    ctx.rng.shuffle(pool)
    for c in pool:
        if len(cases) >= n:
            break
        done = ctx.coverage.get("distribution", {}).get("perturbation", {})
        r = G.perturb(c.prog, ctx.rng, prefer=min(G.PERTURBATIONS, key=lambda k: done.get(k, 0)))
        if r is None:
            continue
        q, kind = r
        ctx.dist("perturbation", kind)
        cases.append(Case(f"q{len(cases)}", q, list(c.calls) + list(getattr(q, "extra_calls", [])), "perturbed", kind))
    for i in range(0, len(cases), BATCH):
        correspond(ctx, cases[i:i + BATCH], "perturbed")


# ------------------------------------------------------------------------------------------- explicit replays
I_, S_, N_, O_ = (L.I,), (L.S,), (L.N,), (L.O,)


def K(c):
    return (L.C(c),)


def known_programs() -> list[Case]:
    """One program per known unsound shape; the four inside the model are the witnesses of Props/C01.lean."""
    out = []
    # F19 declared, never assigned
    p = L.Prog([L.Cls([], [(0, I_)], [], [], [])],
               [L.Func([], [], I_, ("ret", ("attr", ("new", 0, []), 0)))])
    p.fill_mro()
    out.append(Case("kF19", p, [(0, [])], "replay:F19"))
    # F18 covariant redeclaration of a mutable attribute
    p = L.Prog([L.Cls([], [(0, O_)], [O_], [(0, ("var", 0))], []),
                L.Cls([0], [(0, I_)], [I_], [(0, ("var", 0))], [])],
               [L.Func([K(0)], [], N_, ("setAttr", ("var", 0), 0, ("strLit", [115]))),
                L.Func([], [K(1)], I_, L.seq([("decl", 0, ("new", 1, [("intLit", 1)])), ("expr", ("callF", 0, [("var", 0)])),
                                               ("ret", ("add", ("attr", ("var", 0), 0), ("intLit", 1)))]))])
    p.fill_mro()
    out.append(Case("kF18", p, [(1, [])], "replay:F18"))
    # assignment through a union receiver
    p = L.Prog([L.Cls([], [(0, I_)], [I_], [(0, ("var", 0))], []),
                L.Cls([], [(0, S_)], [S_], [(0, ("var", 0))], [])],
               [L.Func([(L.C(0), L.C(1))], [], N_, ("setAttr", ("var", 0), 0, ("strLit", [115]))),
                L.Func([], [K(0)], I_, L.seq([("decl", 0, ("new", 0, [("intLit", 1)])), ("expr", ("callF", 0, [("var", 0)])),
                                               ("ret", ("add", ("attr", ("var", 0), 0), ("intLit", 1)))]))])
    p.fill_mro()
    out.append(Case("kUnionSet", p, [(1, [])], "replay:union-receiver-attribute-assignment"))
    # the 4-pass cap of accept_loop
    classes = [L.Cls([] if c == 0 else [c - 1], [], [], [], []) for c in range(6)]
    chain = ("expr", ("probe", 1, ("add", ("intLit", 1), ("strLit", [115]))))
    for c in range(1, 6):
        chain = ("ite", ("isinst", 1, c), ("assign", 1, ("new", c - 1, [])), chain, "elif")
    body = L.seq([("decl", 1, ("new", 5, [])), ("assign", 1, ("new", 5, [])), ("decl", 2, ("intLit", 0)),
                  ("while", ("not", ("eq", ("var", 2), ("var", 0))),
                   L.seq([("assign", 2, ("add", ("var", 2), ("intLit", 1))), chain]))])
    p = L.Prog(classes, [L.Func([I_], [K(0), I_], N_, body)])
    p.fill_mro()
    out.append(Case("kLoopCap", p, [(0, [("intLit", 7)]), (0, [("intLit", 3)])], "replay:loop-pass-cap"))
    # outside the model
    out.append(Case("kF16", None, [], "replay:F16-float-promotion", src=(
        "def f(x: float) -> str:\n    return x.hex()\ndef t() -> str:\n    return f(1)\n"), pycalls=["t()"]))
    out.append(Case("kF17", None, [], "replay:F17-type-constructor", src=(
        "class A:\n    def __init__(self) -> None:\n        pass\n"
        "class B(A):\n    def __init__(self, n: int) -> None:\n        self.n = n\n"
        "def make(c: type[A]) -> A:\n    return c()\ndef t() -> A:\n    return make(B)\n"), pycalls=["t()"]))
    # isinstance on a union drops an item that shares a subclass with the tested class (multiple inheritance)
    m0 = L.Func([], [], I_, ("ret", ("intLit", 1)))
    p = L.Prog([L.Cls([], [], [], [], []), L.Cls([], [], [], [], []), L.Cls([1], [], [], [], [(0, m0)]), L.Cls([0, 1], [], [], [], [])],
               [L.Func([(L.C(0), L.C(2))], [], I_, L.seq([("ite", ("isinst", 0, 1), ("ret", ("callM", ("var", 0), 0, [])), ("pass",)),
                                                            ("ret", ("intLit", 0))])),
                L.Func([], [], I_, ("ret", ("callF", 0, [("new", 3, [])])))])
    p.fill_mro()
    out.append(Case("kMI", p, [(1, [])], "replay:union-isinstance-common-subclass"))
    # a narrowing captured at `break` hides the assignment before it: the merge after the loop keeps the stale type
    p = L.Prog([L.Cls([], [], [], [], []), L.Cls([0], [], [], [], [])],
               [L.Func([I_], [], K(0), L.seq([("ite", ("lt", ("intLit", 0), ("var", 0)), ("ret", ("new", 1, [])), ("pass",)),
                                               ("ret", ("new", 0, []))])),
                L.Func([(L.C(0), L.N), I_], [I_], I_, L.seq([
                    ("decl", 2, ("intLit", 0)),
                    ("ite", ("isinst", 0, 0), ("ret", ("intLit", 0)),
                     L.seq([("while", ("lt", ("var", 2), ("var", 1)),
                             L.seq([("assign", 2, ("add", ("var", 2), ("intLit", 1))),
                                    ("assign", 0, ("callF", 0, [("var", 2)])),
                                    ("ite", ("isinst", 0, 1), ("brk",), ("pass",)),
                                    ("ret", ("intLit", 5))])),
                            ("ite", ("isNone", 0, True), ("ret", ("add", ("intLit", 1), ("strLit", [115]))), ("pass",))])),
                    ("ret", ("intLit", 2))]))])
    p.fill_mro()
    out.append(Case("kMasked", p, [(1, [("noneLit",), ("intLit", 3)])], "replay:narrowing-masks-assignment-at-jump"))
    # a break passing through a finally clause that assigns a local
    p = L.Prog([], [L.Func([I_], [(L.I, L.N)], I_, L.seq([
        ("decl", 1, ("intLit", 0)), ("assign", 1, ("intLit", 0)),
        ("while", ("lt", ("intLit", 0), ("var", 0)),
         ("try", L.seq([("assign", 1, ("intLit", 1)), ("brk",)]), [0], ("ret", ("intLit", 0)), ("pass",), ("assign", 1, ("noneLit",)))),
        ("ret", ("add", ("var", 1), ("intLit", 1)))]))])
    p.fill_mro()
    out.append(Case("kFinallyJump", p, [(0, [("intLit", 1)])], "replay:jump-through-assigning-finally"))
    # mypy does not check the signature of `__bool__`
    p = L.Prog([L.Cls([], [], [], [], [(L.BOOL_METH, L.Func([], [], I_, ("ret", ("intLit", 2))))])],
               [L.Func([K(0)], [], I_, L.seq([("ite", ("var", 0), ("ret", ("intLit", 1)), ("pass",)), ("ret", ("intLit", 0))]))])
    p.fill_mro()
    out.append(Case("kBoolSig", p, [(0, [("new", 0, [])])], "replay:dunder-bool-signature"))
    out.append(Case("kMIopt", None, [], "replay:F-C01-3b-optional-isinstance-common-subclass", src=(
        "from typing import Optional\n"
        "class A:\n    def __init__(self) -> None:\n        pass\n"
        "class B:\n    def __init__(self) -> None:\n        pass\n"
        "class C(A, B):\n    pass\n"
        "def f(x: Optional[A]) -> int:\n    if isinstance(x, B):\n        return 1 + 's'\n    return 0\n"
        "def t() -> int:\n    return f(C())\n"), pycalls=["t()"]))
    out.append(Case("kInterImpossible", None, [], "replay:F-C01-5-intersection-declared-impossible", src=(
        "class X:\n    pass\nclass Y:\n    pass\nclass Z(X, Y):\n    pass\n"
        "class A:\n    def m(self) -> X:\n        return X()\n"
        "class B:\n    def m(self) -> Y:\n        return Y()\n"
        "class C(A, B):\n    def m(self) -> Z:\n        return Z()\n"
        "def f(x: A) -> int:\n    if isinstance(x, B):\n        return 1 + 's'\n    return 0\n"
        "def t() -> int:\n    return f(C())\n"), pycalls=["t()"]))
    out.append(Case("kRadd", None, [], "replay:F-C01-6-reverse-operator-fallback", src=(
        "class Meters:\n    def __init__(self, v: int) -> None:\n        self.v = v\n"
        "    def __add__(self, other: 'Meters') -> 'Meters':\n        return Meters(self.v + other.v)\n"
        "class Feet:\n    def __init__(self, f: int) -> None:\n        self.f = f\n"
        "    def __radd__(self, other: Meters) -> Meters:\n        return Meters(other.v + self.f // 3)\n"
        "def t() -> Meters:\n    return Meters(1) + Feet(3)\n"), pycalls=["t()"]))
    return out


EXPECTED_MODEL = {"kF19": (False, "ok"), "kF18": (False, "ok"), "kUnionSet": (True, "hole 1"), "kLoopCap": (True, "hole 2"),
                  "kMI": (True, "hole 3"), "kMasked": (True, "hole 4"),
                  "kFinallyJump": (True, "hole 6"), "kBoolSig": (True, "hole 7")}


def known_stream(ctx: Ctx) -> None:
    cases = known_programs()
    inmodel = [c for c in cases if c.prog is not None]
    correspond(ctx, inmodel, "known")
    # the model must classify its own witnesses as the Lean theorems say
    for c in inmodel:
        m = c.model
        if (m["wf"], m["tc"]) != EXPECTED_MODEL[c.name]:
            raise ToolFailure(f"driver classifies witness {c.name} as wf={m['wf']} tc={m['tc']}, expected {EXPECTED_MODEL[c.name]}")
    raw = [c for c in cases if c.prog is None]
    outside(ctx, raw, "known")


def outside(ctx: Ctx, cases: list[Case], stream: str) -> None:
    """programs outside the model: only the property's own oracle (testing)"""
    mres = R.check_batch({c.name: c.src for c in cases})
    accepted = [c for c in cases if not mres[c.name]["errors"] and not mres[c.name].get("crash")]
    for c in cases:
        if mres[c.name].get("crash"):
            raise ToolFailure(f"mypy crashed on {c.name}: {mres[c.name]['crash']}")
        ctx.dist(f"{stream}:mypy", "accepts" if c in accepted else "rejects")
        if c not in accepted and stream in ("wide", "flow", "spec"):
            key = f"{stream}_rejected_samples"
            ctx.coverage.setdefault(key, [])
            if len(ctx.coverage[key]) < 3:
                ctx.coverage[key].append({"templates": c.note, "errors": mres[c.name]["errors"][:3]})
    jobs = [{"name": c.name, "src": c.src, "calls": c.pycalls, "dead": mres[c.name]["dead"]} for c in accepted]
    rres = R.run_batch(jobs, ctx.tmp) if jobs else []
    for c, rr in zip(accepted, rres):
        ctx.case((stream, c.src), nontrivial=True)
        ctx.count("searched_only_programs")
        for call in rr["calls"]:
            ctx.dist(f"{stream}:run", call["out"].split(":")[0])
            ctx.count("searched_only_probe_events", len(call["log"]))
        fails = oracle(ctx, c.name, c.src, mres[c.name], rr, c.pycalls)
        if fails:
            report_failures(ctx, c, None, fails)


def wide_stream(ctx: Ctx, n: int) -> None:
    from . import wide
    w = wide.W(ctx.rng)
    cases = []
    for i in range(n):
        src, calls, names = w.module(ctx.rng.randint(2, 5))
        for nm in names:
            ctx.dist("wide_templates", nm)
        cases.append(Case(f"w{i}", None, [], "wide", ",".join(names), src=src, pycalls=calls))
    for i in range(0, len(cases), BATCH):
        outside(ctx, cases[i:i + BATCH], "wide")


def flow_stream(ctx: Ctx, n: int) -> None:
    """search only: the flow fuzzer (try/except/finally, or/and over related falsy-capable classes, repeated
    truthiness tests) with speculative uses — see flow.py"""
    from . import flow
    fz = flow.Flow(ctx.rng)
    mods = []
    for i in range(n):
        lines, spec, calls = fz.module()
        mods.append((f"fl{i}", lines, spec, calls))
    for k, v in sorted(fz.stats.items()):
        ctx.dist("flow_constructs", k, v)
    two_phase(ctx, mods, "flow")


def spec_stream(ctx: Ctx, n: int) -> None:
    """search only: speculative-statement templates (raise forms, overrides in front of *args / **kwargs, final
    classes and truthiness) — see spec.py"""
    from . import spec
    sp = spec.Spec(ctx.rng)
    mods = []
    for i in range(n):
        lines, sm, calls = sp.module()
        mods.append((f"sp{i}", lines, sm, calls))
    for k, v in sorted(sp.stats.items()):
        ctx.dist("spec_constructs", k, v)
    two_phase(ctx, mods, "spec")


def two_phase(ctx: Ctx, mods: list, stream: str) -> None:
    import re
    for i in range(0, len(mods), BATCH):
        chunk = mods[i:i + BATCH]
        # phase 1: which speculative uses does mypy reject?  (they are reverted to plain probes)
        res = R.check_batch({name: "\n".join(lines) + "\n" for name, lines, _, _ in chunk})
        cases = []
        for name, lines, spec, calls in chunk:
            if res[name].get("crash"):
                raise ToolFailure(f"mypy crashed on {stream} program {name}: {res[name]['crash']}")
            bad = set()
            for e in res[name]["errors"]:
                m = re.match(r"[^:]+:(\d+):", e)
                if m:
                    bad.add(int(m.group(1)) - 1)
            stray = [ln for ln in bad if ln not in spec]
            if stray:
                # not one of the planted uses: the generator produced an ill-typed program (a tool defect)
                raise ToolFailure(f"{stream} generator produced an ill-typed program {name}: {res[name]['errors'][:3]}")
            lines = list(lines)
            for ln in bad:
                lines[ln] = spec[ln]
            ctx.dist(f"{stream}_speculative_uses", "rejected by mypy (reverted)", len(bad))
            ctx.dist(f"{stream}_speculative_uses", "accepted by mypy (kept)", len(spec) - len(bad))
            cases.append(Case(name, None, [], stream, "", src="\n".join(lines) + "\n", pycalls=calls))
        outside(ctx, cases, stream)


def main(ctx: Ctx) -> None:
    ctx.level = "proof"
    ctx.coverage["rule"] = ("one case = one generated program (distinct by its Lean term / source text) with its argument "
                            "vectors; all are non-trivial (≥ 2 classes, functions with narrowing sites, loops, calls). "
                            "Streams: model (two-sided correspondence + oracle), perturbed (one ill-typing edit), known "
                            "(one replay per known unsound shape), wide / flow / spec (outside the model: oracle only = testing)")
    proved = ctx.prove("MypyVerif.Props.C01", MODEL_FILES + PROOF_FILES)
    ctx.trusted("model: MiniPy stages 1–3 (Model/Lang.lean = CPython's behaviour on the fragment, Model/LangTc.lean = mypy's rules "
                "on the fragment); both are validated against the real CPython / mypy on every run, on generated programs only",
                "harness/c01: generator, Python/Lean renderers, canonicalisation of mypy types (Literal erased to its fallback), "
                "the CPython child with its recording probe",
                "covered by theorem: programs of the fragment accepted by tc with WF; searched only (testing): the `wide` stream "
                "(generics, protocols, dataclasses, enums, tuples, containers, callables, overloads, TypedDict, NamedTuple, "
                "match, try/finally, break/continue, walrus, truthiness/equality narrowing, multiple inheritance)")
    ctx.assume("CPython 3.12 is the reference semantics (oracle)",
               "probe ids are distinct per program (the generator numbers them), see soundness_probe")
    known_stream(ctx)
    base = model_stream(ctx, ctx.pick(240, 2000))
    perturb_stream(ctx, base, ctx.pick(200, 2000))
    wide_stream(ctx, ctx.pick(60, 600))
    flow_stream(ctx, ctx.pick(80, 800))
    spec_stream(ctx, ctx.pick(40, 400))
    if not proved and not ctx.violations:
        ctx.violation("Lean development for C01 no longer builds", {"broken": ctx.broken_ties}, found_input=False)


def replay(ctx: Ctx, path: str) -> int:
    """Re-run one recorded case on the current tree: mypy's verdict and probe types, CPython's behaviour, the
    property's oracle, and (for model programs) `tc` / `eval` beside them.  Exit 1 if the oracle still fails
    or the two sides still differ."""
    body = json.load(open(path))
    det = body["replay"].get("detail", body["replay"])
    src, calls = det["source"], det.get("calls", [])
    my = R.check_batch({"replay": src})["replay"]
    print("mypy:", my["errors"] or "no errors", "| lines in blocks marked unreachable:", my["dead"])
    rr = R.run_batch([{"name": "replay", "src": src, "calls": calls, "dead": my["dead"]}], ctx.tmp)[0]
    if rr["load"]:
        print("module load:", rr["load"])
    for call, c in zip(calls, rr["calls"]):
        print(" ", call, "->", c["out"], c["msg"], ("unreachable lines executed: %s" % c["dead_hit"]) if c["dead_hit"] else "")
    fails = oracle(ctx, "replay", src, my, rr, calls)
    for f in fails[:10]:
        print("PROPERTY FAILS:", json.dumps(f))
    bad = bool(fails)
    if det.get("lean_term"):
        m = parse_model_line(ctx.lean_driver("Driver/C01.lean", [det["lean_term"]])[0])
        print(f"model: wf={m['wf']} tc={m['tc']}")
        accepted = not my["errors"]
        tck = m["tc"].split(" ")[0]
        if tck in ("ok", "type") and (tck == "ok") != accepted:
            print("DIFFERENCE: verdict"); bad = True
        if tck == "ok" and accepted:
            real_tm = {k: R.canon_type(t) for k, t in my["probes"].items()}
            for k in sorted(set(real_tm) | set(m["tm"])):
                if real_tm.get(k) != m["tm"].get(k):
                    print(f"DIFFERENCE: probe {k}: tc={m['tm'].get(k)} mypy={real_tm.get(k)}"); bad = True
        for call, mc, rc in zip(calls, m["calls"], rr["calls"]):
            ro, rlog = real_call_str(rc)
            if "timeout" in (ro, mc["out"]):
                continue
            if ro != mc["out"] or rlog != mc["log"]:
                print(f"DIFFERENCE: run {call}: eval={mc['out']} cpython={ro}"); bad = True
    return 1 if bad else 0
