"""C07 — parallel checking gives the sequential result under every schedule.

1. Lean: Props/C07 over Model/Sched.lean — `parallel_eq_sequential`, `schedules_agree`,
   `submit_after_deps`, `once` for every trace the coordinator model accepts.
2. Tie (trace inclusion): real `mypy -n N` runs with the coordinator's scheduling events logged from outside
   (batches sent, interface / implementation replies, fresh walks) under seed-perturbed schedules (sleeps in
   the workers via harness/shim/sitecustomize.py, seeded choice of the free worker); every logged trace must
   be accepted by the model's `step`.
3. Search = the property's oracle: per-file diagnostics and exit status of the parallel run vs the
   sequential run (same parser), and a warm rerun on the cache the parallel build left vs a cold run.
"""
from __future__ import annotations

import copy
import json
import os
import random
import shutil
from concurrent.futures import ThreadPoolExecutor

from harness.vlib import buildsim as B
from harness.vlib.core import Ctx, ToolFailure

MODEL_FILES = ["MypyVerif/Model/Sched.lean", "MypyVerif/Proofs/Sched.lean"]
SEQ = ["--native-parser"]


def programs(ctx: Ctx):
    out = []
    n = ctx.pick(4, 24)
    for i in range(n):
        rng = random.Random(f"c07:{ctx.seed}:{i}")
        w = B.gen_world(rng, (6, 8))
        if i % 2 == 0:      # wide and acyclic: several SCCs ready at once
            for m in w.mods.values():
                for d in list(m.imports):
                    if B._reaches(w, d, m.name):
                        m.imports[d] = "func"
        add_inference_across_imports(w)
        w2 = copy.deepcopy(w)
        B.random_edit(rng, w2, ["signature", "attr", "meth", "toggle_error", "add_import", "remove_import", "body"])
        B.random_edit(rng, w2, ["signature", "attr", "toggle_error"])
        out.append((f"g{i}", w, w2))
    out.append(("cycle-styles", mixed_style_cycles(), None))
    # a chain whose bottom module changes its interface while its dependents' sources stay the same: on the warm
    # parallel run the dependents are stale only through the new interface hash of the module below them
    wc = B.World()
    wc.mods["m2"] = B.Mod("m2", val_t="int")
    wc.mods["m1"] = B.Mod("m1", imports={"m2": "import"}, uses={"m2": ["call", "val"]}, via="m2")
    wc.mods["m0"] = B.Mod("m0", imports={"m1": "import"}, uses={"m1": ["via", "call"]})
    wc.mods["m3"] = B.Mod("m3", imports={"m2": "from"}, uses={"m2": ["call"]})
    wc2 = copy.deepcopy(wc)
    wc2.mods["m2"].ret_t = "str"
    wc2.mods["m2"].val_t = "str"
    out.append(("chain-iface", wc, wc2))
    # a program with a blocking error in one module
    rngb = random.Random(f"c07b:{ctx.seed}")
    wb = B.gen_world(rngb, (5, 6))
    out.append(("blocker", wb, None))
    return out


def add_inference_across_imports(w) -> None:
    """Module-level variables WITHOUT annotation that are read across module boundaries: inside an import cycle the
    order in which the members are processed decides whether such a read sees an inferred type or gives 'Cannot
    determine type' — the sequential and the parallel build must order the members alike."""
    for m in w.mods.values():
        me = B.ident(m.name)
        lines = [f"zv_{me} = [f_{me}(1)]"]
        for dep, style in m.imports.items():
            d = B.ident(dep)
            if dep not in w.mods or style == "func":
                continue
            if style == "from":
                m.from_extra.setdefault(dep, []).append(f"zv_{d}")
                lines.append(f"zr_{me}_{d} = zv_{d}")
            else:
                lines.append(f"zr_{me}_{d} = {dep}.zv_{d}")
            lines.append(f"reveal_type(zr_{me}_{d})")
        m.extra = "\n".join(lines)


def mixed_style_cycles():
    """Two twin import cycles whose members import each other in different styles (`import x` vs `from x import`),
    with the module names in opposite alphabetical order, plus a module outside the cycles."""
    w = B.World()
    for a, b in (("m0", "m1"), ("m3", "m2")):
        w.mods[a] = B.Mod(a, imports={b: "import"}, uses={b: ["call"]})
        w.mods[b] = B.Mod(b, imports={a: "from"}, uses={a: ["val"]})
    w.mods["m4"] = B.Mod("m4", imports={"m0": "import", "m1": "import", "m2": "import", "m3": "import"},
                         uses={"m0": ["call"], "m2": ["val"]}, ignore_missing=True)
    add_inference_across_imports(w)
    return w


def trace_tokens(sched: list[str]):
    g = next((l[2:] for l in sched if l.startswith("G ")), None)
    toks, checks = [], []
    inflight: dict[str, str] = {}
    ok_ids = True
    for l in sched:
        if l.startswith(("G ", "N ")):
            continue
        if l.startswith("S"):
            b, w = l[1:].split("@")
            inflight[w] = b
            toks.append(l)
        elif l.startswith("I"):
            w, ids = l[1:].split(":")
            if inflight.get(w) != ids:
                ok_ids = False
            toks.append(f"I{w}")
        elif l.startswith("M"):
            w, ids = l[1:].split(":")
            if inflight.get(w) != ids:
                ok_ids = False
            toks.append(f"M{w}")
        elif l.startswith("F"):
            toks.append(l)
    return g, toks, ok_ids


ENV_FAILURES = ("Cannot connect to build worker", "Failed to establish connection with worker")


def run_parallel(root: str, cache: str, args: list, **kw) -> dict:
    """One parallel build.  A worker process that does not come up in time on a loaded machine ('Cannot connect to
    build worker(s)') says nothing about the property: such a run is repeated (fresh cache directory) up to twice and
    then marked `env_failure`."""
    r = {}
    for attempt in range(3):
        r = B.run_mypy(root, cache, args, **kw)
        err = (r.get("stderr") or "") + (r.get("stdout") or "")
        if r.get("status") in (0, 1, 2) and not r.get("timeout") or not any(m in err for m in ENV_FAILURES):
            return r
        shutil.rmtree(cache, ignore_errors=True)
    r["env_failure"] = True
    return r


FLAG_SETS = [[], ["--warn-unused-ignores"], ["--warn-unused-ignores", "--strict-equality", "--warn-unreachable"], ["--show-error-context"]]


def one(ctx: Ctx, name: str, w0, w1, nworkers: int, sseed: int) -> dict:
    flags = FLAG_SETS[sseed % len(FLAG_SETS)]
    slow = {"VERIF_COORD_SLOW": "0.7"} if sseed % 2 == 1 else {}
    base = os.path.join(ctx.tmp, f"{name}-n{nworkers}-s{sseed}")
    shutil.rmtree(base, ignore_errors=True)
    os.makedirs(base)
    root = os.path.join(base, "src")
    B.materialize(w0, root, 1_700_000_002)
    if name == "blocker":
        p = os.path.join(root, sorted(w0.files())[0])
        with open(p, "a") as f:
            f.write("def broken(:\n")
        os.utime(p, (1_700_000_002, 1_700_000_002))
    files0 = {os.path.relpath(os.path.join(dp, fn), root): open(os.path.join(dp, fn)).read()
              for dp, _, fs in os.walk(root) for fn in fs}
    wlog = os.path.join(base, "worker-ops.log")
    par = run_parallel(root, os.path.join(base, "cpar"), ["-n", str(nworkers)] + flags, sched_log=True, sched_seed=sseed, scratch=base,
                       env_extra={"VERIF_WORKER_OPLOG": wlog})
    seq = B.run_mypy(root, os.path.join(base, "cseq"), SEQ + flags, scratch=base)
    rec = {"name": name, "n": nworkers, "sseed": sseed, "flags": flags, "files0": files0, "par": par, "seq": seq,
           "worker_ops": open(wlog).read().splitlines() if os.path.exists(wlog) else []}
    if seq.get("timeout") or seq.get("status") not in (0, 1, 2):
        raise ToolFailure(f"sequential run failed: {seq.get('status')} {seq.get('stderr', '')[-1200:]}")
    if par.get("env_failure"):
        rec["env_failure"] = True
        shutil.rmtree(base, ignore_errors=True)
        return rec
    if par.get("timeout") or par.get("status") not in (0, 1, 2):
        rec["par_crashed"] = (par.get("stderr") or "")[-1500:] or "timeout"
        shutil.rmtree(base, ignore_errors=True)
        return rec
    # the cache a parallel build leaves must be as good as a sequential one: warm rerun (sequential, then
    # after an edit parallel again) vs cold
    warm = B.run_mypy(root, os.path.join(base, "cpar"), SEQ + flags, scratch=base)
    rec["warm_same"] = warm
    if w1 is not None:
        B.materialize(w1, root, 1_700_000_004)
        rec["files1"] = {os.path.relpath(os.path.join(dp, fn), root): open(os.path.join(dp, fn)).read()
                         for dp, _, fs in os.walk(root) for fn in fs}
        rec["par2"] = B.run_mypy(root, os.path.join(base, "cpar"), ["-n", str(nworkers)] + flags, sched_log=True, sched_seed=sseed + 1, scratch=base,
                                 env_extra=slow)
        e2 = (rec["par2"].get("stderr") or "") + (rec["par2"].get("stdout") or "")
        if rec["par2"].get("status") not in (0, 1, 2) and any(m in e2 for m in ENV_FAILURES):
            rec["par2"] = None          # environment, not a verdict (see run_parallel)
            rec["env_failure_par2"] = True
        rec["cold2"] = B.run_mypy(root, os.path.join(base, "ccold2"), SEQ + flags, scratch=base)
        # … and back to the first version: whatever the parallel builds recorded (dependency hashes!) must
        # not make a later warm run — sequential or parallel — trust stale entries
        B.materialize(w0, root, 1_700_000_006)
        if name == "blocker":
            pass
        rec["back_seq"] = B.run_mypy(root, os.path.join(base, "cpar"), SEQ + flags, scratch=base)
        rec["back_cold"] = B.run_mypy(root, os.path.join(base, "ccold3"), SEQ + flags, scratch=base)
    shutil.rmtree(base, ignore_errors=True)
    return rec


def main(ctx: Ctx) -> None:
    ctx.coverage["rule"] = ("a case = one parallel build (program, N workers, schedule seed) compared with the sequential build, plus its warm reruns; "
                            "non-trivial when the logged schedule had ≥ 2 workers busy at once (overlapping batches); distinct by (program, N, seed)")
    proved = ctx.prove("MypyVerif.Props.C07", MODEL_FILES)
    ctx.trusted("model: Model/Sched.lean (coordinator: ready / submit batch / interface reply / implementation reply / fresh walk); batching and "
                "worker choice arbitrary; the per-SCC processing function is a parameter assumed local to the SCC's dependencies",
                "schedule perturbation and event logging: harness/shim/sitecustomize.py (workers) + harness/vlib/buildrun.py (coordinator), observation only",
                "not exhibited by the model: IPC timeouts, worker process death, OS scheduling; cross-file message order is not part of the comparison")
    progs = programs(ctx)
    jobs = []
    for i, (name, w0, w1) in enumerate(progs):
        ns = [2, 4] if ctx.quick() else [1, 2, 3, 5, 8]
        seeds = ctx.pick(2, 4)
        for n in ns if name != "blocker" else [2]:
            for s in range(seeds if name not in ("blocker",) else 1):
                jobs.append((name, w0, w1, n, ctx.seed * 100 + s * 7 + n))
    with ThreadPoolExecutor(max_workers=3) as ex:
        recs = list(ex.map(lambda j: one(ctx, *j), jobs))
    lines, owners = [], []
    for rec in recs:
        for key in ("par", "par2"):
            r = rec.get(key)
            if r and r.get("sched"):
                g, toks, ok_ids = trace_tokens(r["sched"])
                if g:
                    lines.append(f"{g} | {' '.join(toks)}")
                    owners.append((rec, key, ok_ids, toks))
    outs = ctx.lean_driver("Driver/C07.lean", lines) if lines else []
    rejected = []
    for (rec, key, ok_ids, toks), out in zip(owners, outs):
        ctx.count("traces_validated_against_impl")
        busy, overlap = set(), False
        for t in toks:
            if t.startswith("S"):
                busy.add(t.split("@")[1])
                overlap = overlap or len(busy) >= 2
            elif t.startswith("M"):
                busy.discard(t[1:])
        rec.setdefault("overlap", False)
        rec["overlap"] = rec["overlap"] or overlap
        ctx.dist("trace_events", str(min(len(toks) // 10 * 10, 60)) + "+")
        if not out.startswith("accepted") or not ok_ids:
            rejected.append({"program": rec["name"], "n": rec["n"], "seed": rec["sseed"], "run": key, "model": out, "ids_match": ok_ids,
                             "trace": toks, "graph": lines[outs.index(out)].split(" | ")[0] if out in outs else None})
    # worker-side store protocol: per module  [write data, commit]? remove meta_ex, write meta, commit, write meta_ex, commit
    proto_breaks = []
    import re as _re
    opre = _re.compile(r"^(\d+) (write|remove|commit_path|commit):(.*)$")
    for rec in recs:
        per = {}
        for line in rec.get("worker_ops", []):
            m = opre.match(line)
            if not m:
                continue
            pid, op, name = m.groups()
            mm = _re.match(r"^(.+?)\.(data|meta|meta_ex)\.(ff|json)$", name)
            if op == "commit":
                for k in per:
                    if k[0] == pid:
                        per[k].append("commit")
                continue
            if not mm:
                continue
            per.setdefault((pid, mm.group(1)), []).append("commit" if op == "commit_path" else f"{op}:{mm.group(2)}")
        for (pid, mod), seq_ops in per.items():
            if mod.split("/")[0] not in B.USER_PREFIXES:
                continue
            sig = " ".join(seq_ops)
            # collapse repeated commits
            sig = _re.sub(r"(commit )+", "commit ", sig + " ").strip()
            ok = _re.fullmatch(r"(write:data commit )?(commit )?remove:meta_ex write:meta commit write:meta_ex commit", sig) is not None
            ctx.dist("worker_store_sequence", "as-modelled" if ok else "other")
            if not ok:
                proto_breaks.append({"program": rec["name"], "n": rec["n"], "module": mod, "ops": sig})
    ctx.coverage["worker_store_protocol_breaks"] = len(proto_breaks)
    nskip = sum(1 for r in recs if r.get("env_failure"))
    if recs and nskip * 4 > len(recs):
        raise ToolFailure(f"{nskip} of {len(recs)} parallel builds could not start their workers (machine overloaded): no verdict")
    found = False
    for rec in recs:
        if rec.get("env_failure"):
            ctx.count("parallel_runs_skipped_worker_startup")
            continue
        if rec.get("env_failure_par2"):
            ctx.count("parallel_runs_skipped_worker_startup")
        if rec.get("par_crashed"):
            ctx.case((rec["name"], rec["n"], rec["sseed"]))
            if not found:
                found = True
                ctx.report({"class": "parallel-build-fails"},
                           f"-n {rec['n']} (schedule seed {rec['sseed']}) ends in an internal failure while the sequential build succeeds",
                           {"workers": rec["n"], "schedule_seed": rec["sseed"], "flags": rec.get("flags", []), "files": rec["files0"], "stderr": rec["par_crashed"]})
            continue
        ctx.case((rec["name"], rec["n"], rec["sseed"]), nontrivial=rec.get("overlap", False))
        ctx.dist("workers", str(rec["n"]))
        cmp_pairs = [("parallel vs sequential (cold)", rec["par"], rec["seq"], rec["files0"]),
                     ("sequential warm rerun on the parallel build's cache vs sequential cold", rec["warm_same"], rec["seq"], rec["files0"])]
        if rec.get("par2"):
            cmp_pairs.append(("parallel warm run after an edit vs sequential cold", rec["par2"], rec["cold2"], rec["files1"]))
        if "back_seq" in rec:
            cmp_pairs.append(("warm run after reverting the edit (cache written by two parallel builds) vs cold", rec["back_seq"], rec["back_cold"], rec["files0"]))
        for what, a, b, files in cmp_pairs:
            d = B.diff_outputs(B.canon_output(a), B.canon_output(b))
            if not d:
                continue
            ctx.count("disagreements_checked")
            replay = {"what": what, "workers": rec["n"], "schedule_seed": rec["sseed"], "flags": rec.get("flags", []), "files": files,
                      "files_before_edit": rec["files0"] if files is not rec["files0"] else None, "diff": d,
                      "schedule": (rec.get("par2") or rec["par"]).get("sched")}
            if B.only_once_note_diff(d):
                ctx.report({"class": "only-once-note-moves"}, f"{what}: differs only in an only_once note (-n {rec['n']})", replay)
            elif not found:
                found = True
                ctx.report({"class": "parallel-differs-from-sequential", "what": what},
                           f"{what}: -n {rec['n']}, schedule seed {rec['sseed']}: {d[:2]}", replay)
    if recs:
        r0 = next((r for r in recs if r["par"].get("sched")), recs[0])
        ctx.sample({"program": r0["name"], "workers": r0["n"], "schedule": [l for l in r0["par"].get("sched", []) if not l.startswith("N ")][:40],
                    "model": outs[0] if outs else None})
    if proto_breaks and not ctx.violations:
        ctx.violation("the store operations a parallel worker performs for a module differ from the modelled protocol "
                      "(write data, commit, remove meta_ex, write meta, commit, write meta_ex, commit — C04's Store.updateOps with the commits "
                      "that release the shard); parallel and sequential outputs agreed on everything run",
                      {"broken": "worker store-operation trace vs Model/Store.lean protocol (commit points)", "examples": proto_breaks[:5]}, found_input=False)
    if rejected and not ctx.violations:
        ctx.violation("a logged coordinator schedule is not a behaviour of the model (an SCC sent before its dependencies reported, sent twice, "
                      "or a busy worker reused); parallel and sequential outputs agreed on everything run",
                      {"broken": "trace inclusion Driver/C07 (Sched.step) vs mypy.build coordinator events", "examples": rejected[:3]}, found_input=False)
    if not proved and not ctx.violations:
        ctx.violation("Lean development for C07 no longer builds", {"broken": ctx.broken_ties}, found_input=False)


def replay(ctx: Ctx, path: str) -> int:
    body = json.load(open(path))
    det = body["replay"].get("detail", body["replay"])
    base = os.path.join(ctx.tmp, "replay")
    root = os.path.join(base, "src")

    def put(files, clock):
        shutil.rmtree(root, ignore_errors=True)
        for p, t in files.items():
            fp = os.path.join(root, p)
            os.makedirs(os.path.dirname(fp), exist_ok=True)
            open(fp, "w").write(t)
            os.utime(fp, (clock, clock))
    if det.get("files_before_edit"):
        put(det["files_before_edit"], 1_700_000_002)
        B.run_mypy(root, os.path.join(base, "cpar"), ["-n", str(det["workers"])] + det.get("flags", []), sched_seed=det["schedule_seed"], scratch=base)
    put(det["files"], 1_700_000_004)
    par = B.run_mypy(root, os.path.join(base, "cpar"), ["-n", str(det["workers"])] + det.get("flags", []), sched_seed=det["schedule_seed"], scratch=base)
    seq = B.run_mypy(root, os.path.join(base, "cseq"), SEQ, scratch=base)
    print(B.diff_outputs(B.canon_output(par), B.canon_output(seq)))
    return 0
