"""C05 — mypyc-compiled code behaves like the interpreted source (work in progress skeleton)."""
from __future__ import annotations
import json
from harness.vlib.core import Ctx
from concurrent.futures import ThreadPoolExecutor
from harness.c05 import vt, fr, bind

MODEL_FILES = ["MypyVerif/Model/VTable.lean", "MypyVerif/Model/ForRange.lean",
               "MypyVerif/Proofs/VTable.lean", "MypyVerif/Proofs/ForRange.lean"]

def main(ctx: Ctx) -> None:
    ctx.level = "partial"
    proved = ctx.prove("MypyVerif.Props.C05", MODEL_FILES)
    with ThreadPoolExecutor(max_workers=6) as pool:
        #fr.run(ctx, pool)
        bind.run(ctx, pool)
    #vt.run(ctx)
    if not proved and not ctx.violations:
        ctx.violation("Lean development for C05 no longer builds", {"broken": ctx.broken_ties}, found_input=False)

def replay(ctx: Ctx, path: str) -> int:
    body = json.load(open(path))
    det = body["replay"].get("detail", body["replay"])
    if det.get("kind", "").startswith("vtable"):
        vt.replay(ctx, det)
    elif det.get('kind') == 'range':
        fr.replay(ctx, det)
    elif det.get('kind') == 'bind':
        bind.replay(ctx, det)
    return 0
