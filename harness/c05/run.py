"""C05 — mypyc-compiled code behaves like the interpreted source.

Partial by design (DESIGN §4 C05): the end-to-end claim is only *searched*; proofs cover the logic slices.

1. Lean: Props/C05 —
     (a) vtable_dispatch_eq_mro_lookup   compute_vtable / specialize_parent_vtable vs Python's MRO lookup
     (b) forRange_visits_partial (+ not_forRange_visits … with the F12 witnesses)   ForRange vs range()
     (d) checkBlock_sound                 the verified error-edge checker
     (e) isMethodFinal_sound              ClassIR.is_method_final over the transitive subclass closure
     (f) forZip_takes_what_zip_takes      ForZip's exit-test order vs zip()'s left-to-right pulls
     (g) tryLowering_eq_python            handler scope = try body only ⇒ the emitted try statement behaves like CPython's
2. Ties, re-checked on every run:
     (a) vt.py    generated hierarchies through the real front half: ClassIR tables vs the model, entry by entry;
                  the real tables' dispatch vs CPython's own lookup
     (b) fr.py    final IR loop skeleton vs ForRange.emit (T); compiled loops vs model vs range() on boundary triples (K)
     (c) bind.py  compiled functions called from interpreted code and natively: accept/TypeError + bound values vs the
                  interpreted twin and the Lean model of CPython's binding (Model/PyBind.lean)
     (d) edges.py every function exported with translate/ir_export.py, every block through ErrEdges.checkBlock
3. Search: prog.py — generated programs compiled at opt 0 / 3 (thorough: + multi_file, separate) and driven by the same
   script as the .py; plus fixed probes for the known difference classes;
   ops.py — a battery of one-line functions over the primitive container / str / int operations and loop forms on
   boundary operands, compiled at opt 0 and 3;
   dun.py — generated hierarchies (depth up to 5, traits) with special methods introduced at any level, every class as
   static type × ==, !=, truthiness, `in`, str()… × instances of every subclass (is_method_final: Lean model + tie in vt.py);
   zipb.py — zip / enumerate / comprehension loops over all pairs of operand kinds × all length combinations, with
   the state of iterator / generator operands observed afterwards (ForZip: Lean model + tie);
   flow.py — try/except/else/finally/with/loop control flow: every clause with a guarded raise (matching / not matching the
   statement's own handlers) / return / break / continue, all firing combinations, event logs (try lowering: Lean model
   TryScope + handler scope read off the final IR);
   callb.py — interpreted callers into __init__ (legacy getargs parser), methods, classmethods, staticmethods, __call__,
   bound methods, interpreted subclasses: all parameter kinds × call shapes, bound values / TypeError vs the twin;
   alias.py — identity and aliasing of every list / dict / set / bytearray producing primitive (result is operand, mutate
   the result, compare the operands' final state);
   strb.py — every str / bytes primitive over an alphabet of all ASCII characters, non-ASCII white space, case-mapping
   specials and plane boundaries.
A compiled ≠ CPython observation is a concrete failure of C05: KNOWN-FINDING when it matches a listed class exactly,
VIOLATION otherwise.  A model ≠ implementation difference without such an observation: VIOLATION … no-failing-input-found.
"""
from __future__ import annotations

import json
from concurrent.futures import ThreadPoolExecutor

from harness.vlib.core import Ctx
from harness.c05.front import flush_nf
from harness.c05 import alias, callb, flow
from harness.c05 import bind, dun, edges, fr, ops, prog, strb, vt, zipb

MODEL_FILES = ["MypyVerif/Model/VTable.lean", "MypyVerif/Model/ForRange.lean", "MypyVerif/Model/ErrEdges.lean",
               "MypyVerif/Model/ForZip.lean", "MypyVerif/Proofs/ForZip.lean", "MypyVerif/Model/TryScope.lean",
               "MypyVerif/Proofs/VTable.lean", "MypyVerif/Proofs/ForRange.lean", "MypyVerif/Proofs/ErrEdges.lean",
               "MypyVerif/Model/PyBind.lean", "MypyVerif/Model/ArgMap.lean"]


def main(ctx: Ctx) -> None:
    ctx.level = "partial"
    ctx.coverage["rule"] = (
        "vtable: one case per generated hierarchy (non-trivial: > 2 classes), distinct by source; range: one case per "
        "(operand types, step, start, stop); binding: one case per (signature, call shape, caller kind); programs: one case "
        "per (program, build configuration); error edges are counted per function in traces_validated_against_impl.")
    proved = ctx.prove("MypyVerif.Props.C05", MODEL_FILES)
    ctx.trusted(
        "models: mypyc/irbuild/vtable.py (compute_vtable, specialize_parent_vtable), ClassIR.get_method_and_class, "
        "prepare_class_def's base selection, handle_ext_method's glue table; for_helpers.ForRange (init / gen_condition / "
        "gen_step) with the C semantics of the emitted add and compare; the block shape left by transform/exceptions.py",
        "C semantics assumed by Model/ForRange.lean: two's-complement wrap of signed add under -fno-strict-overflow; "
        "CPyTagged_Add / CPyTagged_IsLt_ exact (C15's subject)",
        "CPython 3.12 as executable reference (interpreted twins, range(), type.__mro__ lookup); Model/PyBind.lean (C12) "
        "as the model of CPython's argument binding",
        "translate/ir_export.py (C06's exporter) and harness/c05/edges.py's encoding of blocks; the ERR_MAGIC_OVERLAPPING "
        "two-block pattern is matched in Python, not by the Lean checker",
        "the generators: what they do not generate is not validated (distribution printed in the evidence)",
        "the END-TO-END property is searched, not proved: no model of irbuild / codegen / lib-rt as a whole")
    ctx.assume("mypy accepts the program and mypyc compiles it (compile-time crashes are reported separately as incidental)",
               "documented differences are outside: unboxed int/tuple identity, boundary type checks (incl. native-int range "
               "checks of a loop variable inferred as a native int), early binding; the text of TypeErrors raised for a bad "
               "call of a compiled function is normalised away")
    col = edges.Collector()
    with ThreadPoolExecutor(max_workers=6) as pool:
        # phase 1 of each part generates its inputs and submits its C compiles (≤ 6 at a time); the in-process
        # vtable part runs while they compile; phase 2 drives the compiled modules
        parts = [fr.run(ctx, pool, col), bind.run(ctx, pool, col), ops.run(ctx, pool, col), dun.run(ctx, pool, col),
                 zipb.run(ctx, pool, col), strb.run(ctx, pool, col), prog.run(ctx, pool, col),
                 flow.run(ctx, pool, col), callb.run(ctx, pool, col), alias.run(ctx, pool, col)]
        for g in parts:
            next(g)
        vt.run(ctx, col)
        # phase 2 (no randomness left in it): the batteries first, the parts with many known findings last
        for g in [parts[9], parts[7], parts[8], parts[3], parts[4], parts[5], parts[2], parts[6], parts[0], parts[1]]:
            next(g, None)
    edges.check(ctx, col)
    flush_nf(ctx)
    if not proved and not ctx.violations:
        ctx.violation("Lean development for C05 no longer builds", {"broken": ctx.broken_ties}, found_input=False)


def replay(ctx: Ctx, path: str) -> int:
    body = json.load(open(path))
    det = body["replay"].get("detail", body["replay"])
    kind = det.get("kind", "")
    print(body.get("what", ""))
    if kind.startswith("vtable"):
        vt.replay(ctx, det)
    elif kind == "range":
        fr.replay(ctx, det)
    elif kind == "bind":
        bind.replay(ctx, det)
    elif kind == "prog":
        prog.replay(ctx, det)
    elif kind == "ops":
        ops.replay(ctx, det)
    elif kind == "dun":
        dun.replay(ctx, det)
    elif kind == "zipb":
        zipb.replay(ctx, det)
    elif kind == "strb":
        strb.replay(ctx, det)
    elif kind == "flow":
        flow.replay(ctx, det)
    elif kind == "callb":
        callb.replay(ctx, det)
    elif kind == "alias":
        alias.replay(ctx, det)
    elif kind == "edges":
        print(det.get("ir", ""))
    else:
        print(json.dumps(det, indent=1)[:4000])
    return 0
