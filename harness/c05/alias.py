"""C05 search, part 6 — identity and aliasing of container-producing primitives.

For every list / dict / set / bytearray producing operator and primitive (`* n`, `n *`, `+`, slices, `.copy()`,
constructors, `sorted`, `reversed`, comprehensions, `|`, `&`, `-`, `^`, dict / set displays with `**` / `*`, and
the in-place forms `+=`, `*=`, `|=`, … which MUST alias) the function records `result is operand`, then *mutates
the result* and returns the result together with the final state of every operand: a result that shares storage
with an operand (or fails to, for the in-place forms) shows up in the operand's state.  Operands are created by the
(interpreted) caller, so this is also "effects on objects passed in from interpreted code"."""
from __future__ import annotations

import itertools
import os

from harness.vlib.core import Ctx, ToolFailure
from harness.c05.front import compile_ext, front, report, run_worker

LI = ["[]", "[4]", "[1, 2, 3]"]
NS = ["-1", "0", "1", "2"]
IX = ["0", "1", "-1", "5"]
DS = ["{}", "{'a': 1}", "{'b': 2, 'a': 1}"]
SS = ["set()", "{1}", "{1, 2, 3}"]
BA = ["bytearray()", "bytearray(b'a')", "bytearray(b'xyz')"]
LL = ["[[1], [2]]", "[[]]", "[]"]

MUT = {"list": "r.append(99)", "dict": "r['zz'] = 99", "set": "r.add(99)", "bytearray": "r.append(7)", "nested": "r[0].append(99) if r else None"}

# (name, params, statements producing r, kind of r, operands to report, argument pools)
TABLE = [
    ("l_mul", "l: list[int], n: int", "r = l * n", "list", "l", [LI, NS]),
    ("l_rmul", "l: list[int], n: int", "r = n * l", "list", "l", [LI, NS]),
    ("l_mul1", "l: list[int]", "r = l * 1", "list", "l", [LI]),
    ("l_mul_true", "l: list[int], f: bool", "r = l * f", "list", "l", [LI, ["True", "False"]]),
    ("l_add", "l: list[int], m: list[int]", "r = l + m", "list", "l, m", [LI, LI]),
    ("l_add_empty", "l: list[int]", "r = l + []", "list", "l", [LI]),
    ("l_radd_empty", "l: list[int]", "e: list[int] = []\n    r = e + l", "list", "l", [LI]),
    ("l_slice_all", "l: list[int]", "r = l[:]", "list", "l", [LI]),
    ("l_slice", "l: list[int], a: int, b: int", "r = l[a:b]", "list", "l", [LI, IX, IX]),
    ("l_slice_from0", "l: list[int]", "r = l[0:]", "list", "l", [LI]),
    ("l_slice_step", "l: list[int]", "r = l[::1]", "list", "l", [LI]),
    ("l_copy", "l: list[int]", "r = l.copy()", "list", "l", [LI]),
    ("l_list", "l: list[int]", "r = list(l)", "list", "l", [LI]),
    ("l_sorted", "l: list[int]", "r = sorted(l)", "list", "l", [LI]),
    ("l_reversed", "l: list[int]", "r = list(reversed(l))", "list", "l", [LI]),
    ("l_comp", "l: list[int]", "r = [x for x in l]", "list", "l", [LI]),
    ("l_star", "l: list[int]", "r = [*l]", "list", "l", [LI]),
    ("l_iadd", "l: list[int], m: list[int]", "r = l\n    r += m", "list", "l, m", [LI, LI]),
    ("l_imul", "l: list[int], n: int", "r = l\n    r *= n", "list", "l", [LI, NS]),
    ("l_extend_self", "l: list[int]", "r = l\n    r.extend(l)", "list", "l", [LI]),
    ("l_assign_slice", "l: list[int], m: list[int]", "r = l\n    r[:] = m", "list", "l, m", [LI, LI]),
    ("l_min_or", "l: list[int], m: list[int]", "r = l or m", "list", "l, m", [LI, LI]),
    ("l_tuple_roundtrip", "l: list[int]", "r = list(tuple(l))", "list", "l", [LI]),
    ("ll_mul", "l: list[list[int]], n: int", "r = l * n", "nested", "l", [LL, NS]),
    ("ll_copy", "l: list[list[int]]", "r = l.copy()", "nested", "l", [LL]),
    ("ll_slice", "l: list[list[int]]", "r = l[:]", "nested", "l", [LL]),
    ("ll_comp", "l: list[list[int]]", "r = [x for x in l]", "nested", "l", [LL]),
    ("ll_add", "l: list[list[int]]", "r = l + l", "nested", "l", [LL]),
    ("d_dict", "d: dict[str, int]", "r = dict(d)", "dict", "d", [DS]),
    ("d_copy", "d: dict[str, int]", "r = d.copy()", "dict", "d", [DS]),
    ("d_or", "d: dict[str, int], e: dict[str, int]", "r = d | e", "dict", "d, e", [DS, DS]),
    ("d_or_empty", "d: dict[str, int]", "r = d | {}", "dict", "d", [DS]),
    ("d_star", "d: dict[str, int]", "r = {**d}", "dict", "d", [DS]),
    ("d_star2", "d: dict[str, int], e: dict[str, int]", "r = {**d, **e}", "dict", "d, e", [DS, DS]),
    ("d_comp", "d: dict[str, int]", "r = {k: v for k, v in d.items()}", "dict", "d", [DS]),
    ("d_ior", "d: dict[str, int], e: dict[str, int]", "r = d\n    r |= e", "dict", "d, e", [DS, DS]),
    ("d_update", "d: dict[str, int], e: dict[str, int]", "r = d\n    r.update(e)", "dict", "d, e", [DS, DS]),
    ("d_fromkeys", "l: list[int]", "r0 = dict.fromkeys(l, 0)\n    r = {str(k): v for k, v in r0.items()}", "dict", "l", [LI]),
    ("s_set", "s: set[int]", "r = set(s)", "set", "s", [SS]),
    ("s_copy", "s: set[int]", "r = s.copy()", "set", "s", [SS]),
    ("s_or", "s: set[int], t: set[int]", "r = s | t", "set", "s, t", [SS, SS]),
    ("s_and", "s: set[int], t: set[int]", "r = s & t", "set", "s, t", [SS, SS]),
    ("s_sub", "s: set[int], t: set[int]", "r = s - t", "set", "s, t", [SS, SS]),
    ("s_xor", "s: set[int], t: set[int]", "r = s ^ t", "set", "s, t", [SS, SS]),
    ("s_or_empty", "s: set[int]", "e: set[int] = set()\n    r = s | e", "set", "s", [SS]),
    ("s_union", "s: set[int], t: set[int]", "r = s.union(t)", "set", "s, t", [SS, SS]),
    ("s_comp", "s: set[int]", "r = {x for x in s}", "set", "s", [SS]),
    ("s_star", "s: set[int]", "r = {*s}", "set", "s", [SS]),
    ("s_ior", "s: set[int], t: set[int]", "r = s\n    r |= t", "set", "s, t", [SS, SS]),
    ("s_isub", "s: set[int], t: set[int]", "r = s\n    r -= t", "set", "s, t", [SS, SS]),
    ("s_from_list", "l: list[int]", "r = set(l)", "set", "l", [LI]),
    ("b_ctor", "b: bytearray", "r = bytearray(b)", "bytearray", "b", [BA]),
    ("b_slice", "b: bytearray", "r = b[:]", "bytearray", "b", [BA]),
    ("b_add", "b: bytearray, c: bytearray", "r = b + c", "bytearray", "b, c", [BA, BA]),
    ("b_mul", "b: bytearray, n: int", "r = b * n", "bytearray", "b", [BA, NS]),
    ("b_iadd", "b: bytearray, c: bytearray", "r = b\n    r += c", "bytearray", "b, c", [BA, BA]),
    ("b_copy", "b: bytearray", "r = b.copy()", "bytearray", "b", [BA]),
]


def source() -> str:
    L = ["def same_obj(a: object, b: object) -> bool:", "    return a is b", ""]
    for name, params, prod, kind, ops, _ in TABLE:
        first = ops.split(",")[0].strip()
        # through a helper: after copy propagation `r is l` can become `l == l` in C, which gcc -Werror rejects
        ident = " or ".join(f"same_obj(r, {o.strip()})" for o in ops.split(","))
        shape = "[len(x) for x in r]" if kind == "nested" else "len(r)"
        inner = "(len(r) > 1 and same_obj(r[0], r[1]))" if kind == "nested" else "False"
        L += [f"def {name}({params}) -> object:", f"    {prod}", f"    same = {ident}", f"    inner = {inner}", f"    before = {shape}",
              f"    {MUT[kind]}", f"    return (same, inner, before, r, {ops})", ""]
    return "\n".join(L)


def run(ctx: Ctx, pool, col=None):
    """two-phase (generator)"""
    src = source()
    fr = front({"c05alias": src}, os.path.join(ctx.tmp, "mypy_cache_vt"))
    if fr.modules is None:
        raise ToolFailure("alias battery does not compile: %r %r" % (fr.errors[:4], fr.crash))
    if col is not None:
        col.add_modules("alias-battery", fr.modules)
    opts = [ctx.rng.choice(["0", "3"])] if ctx.quick() else ["0", "3"]
    futs = []
    for opt in opts:
        d = os.path.join(ctx.tmp, f"alias_O{opt}")
        os.makedirs(d, exist_ok=True)
        with open(os.path.join(d, "c05alias.py"), "w") as fh:
            fh.write(src)
        futs.append((opt, d, pool.submit(compile_ext, d, ["c05alias.py"], opt)))
    jobs, meta = [], []
    for name, params, prod, kind, ops, pools in TABLE:
        for c in itertools.product(*pools):
            jobs.append((len(jobs), f"{name}({', '.join(c)})"))
            meta.append((name, prod))
    yield
    ndiff = 0
    for opt, d, fut in futs:
        ok, log, secs = fut.result()
        if not ok:
            raise ToolFailure(f"mypyc could not compile the alias battery (opt {opt}):\n" + log[-2500:])
        res = run_worker(d, "c05alias", jobs, "alias", timeout=600)
        seen = set()
        for (idx, expr), (name, prod) in zip(jobs, meta):
            interp, comp = res[idx]
            ctx.case(("A", opt, expr))
            ctx.count("traces_validated_against_impl")
            ctx.dist("alias_result_is_operand (CPython)", name.split("_")[0] + ":" + ("aliases" if interp.startswith("ok (True") else "fresh"))
            if interp == comp:
                continue
            ndiff += 1
            ctx.count("disagreements_checked")
            if name in seen:
                continue
            seen.add(name)
            report(ctx, "alias", {"class": "aliasing-differs", "shape": "other", "function": name},
                   f"`{prod.splitlines()[-1]}` then mutate the result — {expr} (opt {opt}): (result is operand, inner shared, len before, "
                   f"result, operands after): compiled {comp[:170]}, CPython {interp[:170]}",
                   {"kind": "alias", "call": expr, "opt": opt, "compiled": comp, "cpython": interp}, cap=8)
    ctx.coverage["alias_functions"] = len(TABLE)
    ctx.coverage["alias_calls_per_opt_level"] = len(jobs)
    ctx.coverage["alias_differences"] = ndiff


def replay(ctx: Ctx, det: dict) -> None:
    d = os.path.join(ctx.tmp, "alias_replay")
    os.makedirs(d, exist_ok=True)
    with open(os.path.join(d, "c05alias.py"), "w") as fh:
        fh.write(source())
    ok, log, _ = compile_ext(d, ["c05alias.py"], det.get("opt", "0"))
    if not ok:
        print("compile failed:", log[-1500:])
        return
    res = run_worker(d, "c05alias", [(0, det["call"])], "rp")
    print("call     :", det["call"])
    print("CPython  :", res[0][0])
    print("compiled :", res[0][1])
