"""C05 (a) — vtable slice: generated hierarchies of native classes and traits run through mypyc's real front
half; `ClassIR.vtable` / `vtable_entries` / `trait_vtables` compared entry by entry with `Model/VTable.lean`;
and, independently of the model, the dispatch the real tables encode compared with CPython's own MRO lookup
on the same source (the property's oracle for this slice)."""
from __future__ import annotations

import json

from harness.vlib.core import Ctx, ToolFailure
from harness.c05.front import front, report, violation_nf

ARG_T = ["int", "object"]            # an override may widen the argument type
RET_T = ["object", "int", "bool"]    # … and narrow the return type
INIT_ARGS = ["", ", x: int = 0", ", y: object = None"]


def c3(bases_mros: list[list[str]], bases: list[str]) -> list[str] | None:
    seqs = [list(m) for m in bases_mros] + [list(bases)]
    out: list[str] = []
    while True:
        seqs = [s for s in seqs if s]
        if not seqs:
            return out
        for s in seqs:
            h = s[0]
            if not any(h in t[1:] for t in seqs):
                break
        else:
            return None
        out.append(h)
        for s in seqs:
            if s[0] == h:
                del s[0]


class Hierarchy:
    def __init__(self):
        self.classes: list[dict] = []   # name, trait, bases, mro, methods{name: (kind, arg, ret)}

    def by_name(self, n: str) -> dict:
        return next(c for c in self.classes if c["name"] == n)

    def source(self) -> str:
        L = ["from mypy_extensions import trait", ""]
        for ci, c in enumerate(self.classes):
            if c["trait"]:
                L.append("@trait")
            L.append(f"class {c['name']}({', '.join(c['bases'])}):" if c["bases"] else f"class {c['name']}:")
            body = []
            for mi, (m, (kind, arg, ret)) in enumerate(c["methods"].items()):
                val = {"int": str(100 * ci + mi), "object": str(100 * ci + mi), "bool": "True", "None": None}[ret]
                if kind == "prop":
                    body += ["    @property", f"    def {m}(self) -> {ret}:", f"        return {val}"]
                    if arg == "rw":
                        body += [f"    @{m}.setter", f"    def {m}(self, v: {ret}) -> None:", "        pass"]
                elif kind == "init":
                    body += [f"    def __init__(self{arg}) -> None:", "        pass"]
                else:
                    body += [f"    def {m}(self, x: {arg}) -> {ret}:", f"        return {val}"]
            L += body or ["    pass"]
            L.append("")
        return "\n".join(L)


def gen_hierarchy(rng, malformed: bool) -> Hierarchy:
    h = Hierarchy()
    n = rng.randint(2, 8)
    names_pool = ["m0", "m1", "m2", "m3", "p0", "p1"]
    for i in range(n):
        name = f"K{i}"
        trait = rng.random() < 0.4
        earlier = h.classes
        bases: list[str] = []
        nontraits = [c["name"] for c in earlier if not c["trait"]]
        traits = [c["name"] for c in earlier if c["trait"]]
        if not trait and nontraits and rng.random() < 0.7:
            bases.append(rng.choice(nontraits))
        elif trait and nontraits and rng.random() < 0.05:
            bases.append(rng.choice(nontraits))       # a trait deriving from a class (allowed, rare)
        k = rng.choice([0, 0, 1, 1, 2, 3]) if traits else 0
        for t in rng.sample(traits, min(k, len(traits))):
            bases.append(t)
        if malformed and rng.random() < 0.3 and len(bases) > 1:
            rng.shuffle(bases)                          # trait before the class / inconsistent order
        mro = None
        while True:
            mro = c3([h.by_name(b)["mro"] for b in bases], bases)
            if mro is not None or not bases:
                break
            bases.pop()
        mro = [name] + (mro or [])
        # drop redundant bases (ancestors of other bases keep the MRO but confuse nothing) — keep as generated
        methods: dict[str, tuple[str, str, str]] = {}
        for m in rng.sample(names_pool, rng.randint(0, 4)):
            inherited = [h.by_name(a)["methods"][m] for a in mro[1:] if m in h.by_name(a)["methods"]]
            if m.startswith("p"):
                if any(s[1] == "rw" for s in inherited) or (not inherited and m == "p0" and rng.random() < 0.4):
                    # a read-write property keeps its type and stays read-write in every override
                    methods[m] = ("prop", "rw", inherited[0][2] if inherited else "int")
                    if malformed and rng.random() < 0.2:
                        methods[m] = ("prop", "", "int")
                    continue
                lo = max([RET_T.index(s[2]) for s in inherited], default=0)
                ret = RET_T[rng.randint(lo, 2)] if rng.random() < 0.6 else RET_T[lo]
                if malformed and rng.random() < 0.2:
                    ret = rng.choice(RET_T)
                methods[m] = ("prop", "", ret)
            else:
                alo = max([ARG_T.index(s[1]) for s in inherited], default=0)
                rlo = max([RET_T.index(s[2]) for s in inherited], default=0)
                arg = ARG_T[rng.randint(alo, 1)] if rng.random() < 0.5 else ARG_T[alo]
                ret = RET_T[rng.randint(rlo, 2)] if rng.random() < 0.5 else RET_T[rlo]
                if malformed and rng.random() < 0.2:
                    arg, ret = rng.choice(ARG_T), rng.choice(RET_T)
                methods[m] = ("meth", arg, ret)
        if not trait and rng.random() < 0.25:
            methods["__init__"] = ("init", rng.choice(INIT_ARGS), "None")
        h.classes.append({"name": name, "trait": trait, "bases": bases, "mro": mro, "methods": methods})
    return h


# ------------------------------------------------------------------------------------ real tables
def dump_real(mod) -> dict:
    """Model-format view of the real ClassIR graph of one module (classes in definition order)."""
    from mypyc.sametype import is_same_method_signature
    classes = [c for c in mod.classes if c.is_ext_class]
    idx = {id(c): i for i, c in enumerate(classes)}
    names: dict[str, int] = {"__init__": 0}
    sigs: dict[str, list] = {}          # method name -> representatives of signature classes
    sig_ids: dict[int, int] = {}
    nonequiv = False

    def name_id(n: str) -> int:
        return names.setdefault(n, len(names))

    def sig_id(name: str, fn) -> int:
        nonlocal nonequiv
        if id(fn) in sig_ids:
            return sig_ids[id(fn)]
        reps = sigs.setdefault(name, [])
        hit = [j for j, r in enumerate(reps) if is_same_method_signature(r.sig, fn.sig)]
        if len(hit) > 1:
            nonequiv = True
        if hit:
            j = hit[0]
        else:
            reps.append(fn)
            j = len(reps) - 1
        sig_ids[id(fn)] = name_id(name) * 100 + j
        return sig_ids[id(fn)]

    owner: dict[int, tuple] = {}
    for c in classes:
        for fn in c.methods.values():
            owner[id(fn)] = ("d", idx[id(c)])
        for (base, _n), fn in c.glue_methods.items():
            owner[id(fn)] = ("g", idx[id(c)], idx.get(id(base), -1))

    def entry(e) -> str:
        o = owner.get(id(e.method))
        if o is None:
            return f"{idx.get(id(e.cls), -1)}.{name_id(e.name)}.?"
        if o[0] == "d":
            return f"{idx[id(e.cls)]}.{name_id(e.name)}.d.{o[1]}"
        return f"{idx[id(e.cls)]}.{name_id(e.name)}.g.{o[1]}.{o[2]}"

    out = {"classes": [], "names": names, "cls_names": [c.name for c in classes], "nonequiv": False, "shadow": False}
    for c in classes:
        if any(id(k) not in idx for k in c.mro):
            raise ToolFailure("ClassIR.mro contains a class outside the module")
        rec = {
            "trait": c.is_trait,
            "mro": [idx[id(k)] for k in c.mro],
            "methods": [(name_id(n), sig_id(n, fn)) for n, fn in c.methods.items()],
            "base": idx[id(c.base)] if c.base is not None else None,
            "vt": sorted((name_id(n), i) for n, i in (c.vtable or {}).items()),
            "es": [entry(e) for e in c.vtable_entries],
            "tv": [(idx[id(t)], [entry(e) for e in es]) for t, es in c.trait_vtables.items()],
            "children": [idx[id(k)] for k in (c.children or []) if id(k) in idx],
        }
        if any(e.shadow_method is not None for e in c.vtable_entries):
            out["shadow"] = True
        out["classes"].append(rec)
    out["nonequiv"] = nonequiv
    # ClassIR.is_method_final for every method name of the module, on every class
    inv = sorted((nid, n) for n, nid in names.items() if any(nid == m for r in out["classes"] for m, _ in r["methods"]))
    for c, r in zip(classes, out["classes"]):
        r["mf"] = ",".join(f"{nid}:{int(bool(c.is_method_final(n)))}" for nid, n in inv)
    return out


def model_line(real: dict) -> str:
    toks = []
    for r in real["classes"]:
        toks.append("%s:%s:%s:%s" % ("T" if r["trait"] else "C", ",".join(map(str, r["mro"])),
                                     ",".join(f"{n}/{s}" for n, s in r["methods"]), ",".join(map(str, r["children"]))))
    return "V " + " ".join(toks)


def real_class_line(r: dict) -> str:
    return "vt=%s es=%s tv=%s" % (",".join(f"{n}:{i}" for n, i in r["vt"]), ",".join(r["es"]),
                                  "+".join(f"{t}[{','.join(es)}]" for t, es in r["tv"]))


def cpython_lookup(src: str) -> dict[str, dict[str, str]]:
    """class name -> {attribute name -> name of the class whose body CPython's lookup finds}"""
    ns: dict = {"__name__": "c05_vt_exec"}
    exec(compile(src, "<c05-hierarchy>", "exec"), ns)
    out: dict[str, dict[str, str]] = {}
    for cname, cls in ns.items():
        if not isinstance(cls, type) or not cname.startswith("K"):
            continue
        d = {}
        for k in cls.__mro__:
            if k is object:
                continue
            for a in vars(k):
                if a.startswith("__") and a != "__init__":
                    continue
                d.setdefault(a, k.__name__)
        out[cname] = d
    return out


def real_dispatch_check(real: dict, src: str) -> list[dict]:
    """For every concrete class C, static receiver type D in mro(C) and method m visible on D: follow the *real*
    tables like the generated C does and compare the class whose body runs with CPython's lookup on C."""
    cls_names = real["cls_names"]
    inv_names = {v: k for k, v in real["names"].items()}
    py = cpython_lookup(src)
    bad = []
    n = 0
    for ci, c in enumerate(real["classes"]):
        if c["trait"]:
            continue
        for di in c["mro"]:
            d = real["classes"][di]
            for nid, slot in d["vt"]:
                name = inv_names[nid]
                pyname = name[len("__mypyc_setter__"):] if name.startswith("__mypyc_setter__") else name
                table = dict(c["tv"]).get(di) if d["trait"] else c["es"]
                n += 1
                if table is None or slot >= len(table):
                    bad.append({"runtime_class": cls_names[ci], "static_type": cls_names[di], "method": name,
                                "what": "no such vtable / slot"})
                    continue
                parts = table[slot].split(".")
                want = py.get(cls_names[ci], {}).get(pyname)
                got = cls_names[int(parts[3])] if len(parts) > 3 and parts[2] in "dg" else "?"
                if int(parts[1]) != nid or got != want:
                    bad.append({"runtime_class": cls_names[ci], "static_type": cls_names[di], "method": name,
                                "vtable_entry": table[slot], "compiled_runs": got, "cpython_runs": want})
    return bad, n


def run(ctx: Ctx, col=None) -> None:
    rng = ctx.rng
    n = ctx.pick(220, 2500)
    cache = ctx.tmp + "/mypy_cache_vt"
    cases = []
    for i in range(n):
        malformed = rng.random() < 0.12
        h = gen_hierarchy(rng, malformed)
        src = h.source()
        fr = front({"m": src}, cache)
        ctx.dist("vt_stream", "malformed" if malformed else "structured")
        if fr.crash is not None:
            kind = type(fr.crash).__name__
            ctx.dist("vt_front_half", "crash:" + kind)
            cases.append((h, src, None, fr))
            continue
        if fr.modules is None:
            ctx.dist("vt_front_half", "rejected")
            msg = fr.errors[0].split("error:")[-1].strip()[:60] if fr.errors else "?"
            ctx.dist("vt_reject_reason", "".join(ch if not ch.isdigit() else "#" for ch in msg))
            continue
        ctx.dist("vt_front_half", "compiled")
        real = dump_real(fr.modules["m"])
        if col is not None and i % 4 == 0:
            col.add_modules("hierarchies", fr.modules)
        cases.append((h, src, real, fr))
    compiled = [c for c in cases if c[2] is not None]
    crashed = [c for c in cases if c[2] is None]
    if len(compiled) < n // 4:
        raise ToolFailure(f"vtable generator: only {len(compiled)} of {n} hierarchies compiled")
    # --- the model on the same records
    lines = [model_line(c[2]) for c in compiled]
    # for crashed front halves, the record is rebuilt from the generator's own view (no ClassIR to dump)
    crash_lines = []
    for h, src, _, fr in crashed:
        crash_lines.append(gen_model_line(h))
    out = ctx.lean_driver("Driver/C05.lean", lines + crash_lines)
    if len(out) != len(lines) + len(crash_lines):
        raise ToolFailure("Driver/C05 V: wrong number of output lines")
    ndiff = 0
    for (h, src, real, fr), mline in zip(compiled, out):
        parts = mline.split(" ; ")
        ncls = len(real["classes"])
        ntr = sum(1 for c in real["classes"] if c["trait"])
        ctx.case(("V", src), nontrivial=ncls > 2)
        ctx.dist("vt_classes", str(ncls))
        ctx.dist("vt_traits", str(ntr))
        nglue = sum(e.split(".")[2] == "g" for c in real["classes"] for e in c["es"] + [x for _, es in c["tv"] for x in es])
        ctx.dist("vt_glue_entries", str(min(nglue, 5)) + ("+" if nglue >= 5 else ""))
        ctx.dist("vt_max_mro", str(max(len(c["mro"]) for c in real["classes"])))
        ctx.count("traces_validated_against_impl")
        bad, nd = real_dispatch_check(real, src)
        ctx.count("vt_dispatch_triples_vs_cpython", nd)
        if bad:
            report(ctx, "vt", {"class": "vtable-dispatch-differs-from-mro-lookup"},
                       "compiled dispatch runs %s.%s for a %s behind a receiver typed %s; CPython runs %s.%s" % (
                           bad[0].get("compiled_runs"), bad[0]["method"], bad[0]["runtime_class"], bad[0]["static_type"],
                           bad[0].get("cpython_runs"), bad[0]["method"]),
                       {"kind": "vtable", "source": src, "mismatches": bad[:5]})
        if real["nonequiv"] or real["shadow"]:
            ctx.dist("vt_outside_model", "nonequiv-sig" if real["nonequiv"] else "shadow")
            continue
        wf = "wf=1" in parts[0] and "sc=1" in parts[0]
        if not wf:
            # the theorem's hypothesis fails on a real ClassIR graph
            ctx.count("disagreements_checked")
            ndiff += 1
            if not bad:
                violation_nf(ctx, "vt-wf", "a real ClassIR graph violates the well-formedness the vtable theorems assume (WF / subclassesComplete)",
                             {"broken": "VTable.WF on dumped ClassIR", "kind": "vtable", "source": src,
                              "model_input": model_line(real)})
            continue
        mclasses = [p.strip() for p in parts[1:]]
        rclasses = [real_class_line(r) for r in real["classes"]]
        mstrip = [m.rsplit(" g=", 1)[0] for m in mclasses]
        mmf = [m.rsplit(" mf=", 1)[1] if " mf=" in m else "" for m in mclasses]
        rmf = [r["mf"] for r in real["classes"]]
        ctx.count("vt_is_method_final_answers_compared", sum(len(x.split(",")) for x in rmf if x))
        if mmf != rmf:
            ndiff += 1
            ctx.count("disagreements_checked")
            k = next((i for i, (a, b) in enumerate(zip(mmf, rmf)) if a != b), 0)
            inv_names = {v: kk for kk, v in real["names"].items()}
            bad_names = [inv_names.get(int(x.split(":")[0]), x) for x, y in zip(mmf[k].split(","), rmf[k].split(",")) if x != y]
            violation_nf(ctx, "vt-mf", "ClassIR.is_method_final(%s) on class %s differs from Model/VTable.lean isMethodFinal (impl %s, model %s); "
                         "a compiled-vs-CPython difference has to come from the special-method / program search" % (
                             ", ".join(bad_names[:3]), real["cls_names"][k], rmf[k], mmf[k]),
                         {"broken": "correspondence Driver/C05 `V` mf= vs ClassIR.is_method_final", "kind": "vtable", "source": src,
                          "class": real["cls_names"][k], "model": mmf[k], "impl": rmf[k]})
        if mstrip != rclasses:
            ndiff += 1
            ctx.count("disagreements_checked")
            if not bad:
                k = next((i for i, (a, b) in enumerate(zip(mstrip, rclasses)) if a != b), 0)
                violation_nf(ctx, "vt-corr", "vtable correspondence broken: Model/VTable.lean ≠ mypyc/irbuild/vtable.py on class %s "
                             "(real dispatch still agrees with CPython's MRO lookup on this hierarchy)" % real["cls_names"][k],
                             {"broken": "correspondence Driver/C05 `V` vs compute_vtable", "kind": "vtable", "source": src,
                              "class": real["cls_names"][k], "model": mstrip[k] if k < len(mstrip) else None,
                              "impl": rclasses[k]})
        elif any(" g=0" in m for m in mclasses):
            ndiff += 1
            violation_nf(ctx, "vt-glue", "model predicts a missing glue method (KeyError) but the front half compiled the hierarchy",
                         {"broken": "VTable.glueOk vs handle_ext_method", "kind": "vtable", "source": src})
    # crashes: the model must predict the KeyError (glue gap) — any other crash is reported as such
    for (h, src, _, fr), mline in zip(crashed, out[len(lines):]):
        kind = type(fr.crash).__name__
        predicted = " g=0" in mline
        ctx.case(("Vcrash", src))
        if kind == "KeyError" and predicted:
            ctx.count("vt_glue_gap_crashes_predicted")
            report(ctx, "vt", {"class": "compile-time-crash", "exception": "KeyError", "where": "specialize_parent_vtable",
                        "shape": "method-from-base-vs-unrelated-trait-signature"},
                       "mypyc dies with KeyError in specialize_parent_vtable (glue method never generated); "
                       "the model predicts the missing key", {"kind": "vtable-crash", "source": src})
        else:
            report(ctx, "vt", {"class": "compile-time-crash", "exception": kind, "predicted_by_model": predicted},
                       f"mypyc's front half died with {kind}: {fr.crash!r}"[:300], {"kind": "vtable-crash", "source": src})
    ctx.coverage["vt_hierarchies_compiled"] = len(compiled)
    ctx.coverage["vt_disagreements"] = ndiff
    if compiled:
        ctx.sample({"vtable_case": lines[0], "model": out[0][:400]})


def gen_model_line(h: Hierarchy) -> str:
    """Model input rebuilt from the generator's own view (used when mypyc crashed before we could dump)."""
    names = {"__init__": 0}
    idx = {c["name"]: i for i, c in enumerate(h.classes)}
    toks = []
    for c in h.classes:
        ms = []
        for m, (kind, arg, ret) in c["methods"].items():
            nid = names.setdefault(m, len(names))
            sid = nid * 100 + (ARG_T.index(arg) * 3 + RET_T.index(ret) if kind == "meth" else
                               RET_T.index(ret) if kind == "prop" else INIT_ARGS.index(arg))
            ms.append(f"{nid}/{sid}")
            if kind == "prop" and arg == "rw":
                sn = names.setdefault("__mypyc_setter__" + m, len(names))
                ms.append(f"{sn}/{sn * 100 + RET_T.index(ret)}")
        kids = [str(idx[k["name"]]) for k in h.classes if c["name"] in k["bases"]]
        toks.append("%s:%s:%s:%s" % ("T" if c["trait"] else "C", ",".join(str(idx[k]) for k in c["mro"]), ",".join(ms), ",".join(kids)))
    return "V " + " ".join(toks)


def replay(ctx: Ctx, det: dict) -> None:
    src = det["source"]
    fr = front({"m": src}, ctx.tmp + "/mypy_cache_vt")
    if fr.crash is not None:
        print("front half crashed:", repr(fr.crash))
        return
    if fr.modules is None:
        print("rejected:", fr.errors[:3])
        return
    real = dump_real(fr.modules["m"])
    out = ctx.lean_driver("Driver/C05.lean", [model_line(real)])
    print("model :", out[0])
    print("impl  :", " ; ".join(real_class_line(r) + " mf=" + r["mf"] for r in real["classes"]))
    bad, n = real_dispatch_check(real, src)
    print(f"dispatch triples checked against CPython: {n}, mismatches: {json.dumps(bad[:5])}")
