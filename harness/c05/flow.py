"""C05 search, part 7 — control flow of try / except / else / finally and `with`.

Generated functions: a try statement with one or two handlers (`except ValueError as e`, `except LookupError`, or a
bare `except`), optional `else:` and `finally:`, optionally inside a `for` loop, optionally with the body wrapped in
`with Ctxm(mode)` (exit returning falsy / truthy / raising), optionally nested inside an outer try/except.  Every
clause — try body, each handler, else, finally — contains one guarded action: raise an exception that matches the
statement's first handler / its second handler (through the base class) / none of them, raise through a call or a
dict lookup, `return`, `break`, `continue`.  The parameter `k` is a bit mask saying which clauses fire, so each
function is driven through all 2^n combinations.  Every clause appends to an event log; the log and the result
(return value or escaping exception) are compared with CPython."""
from __future__ import annotations

import os
import random

from harness.vlib.core import Ctx, ToolFailure
from harness.c05.front import compile_ext, front, report, run_worker, violation_nf

PRELUDE_MOD = '''LOG: list[str] = []

class Ctxm:
    def __init__(self, mode: int) -> None:
        self.mode = mode
    def __enter__(self) -> int:
        LOG.append('enter')
        return self.mode
    def __exit__(self, a: object, b: object, c: object) -> bool:
        LOG.append('exit ' + ('None' if b is None else type(b).__name__))
        if self.mode == 2:
            raise RuntimeError('from exit')
        return self.mode == 1

def boom(kind: int) -> int:
    LOG.append('boom')
    if kind == 0:
        raise ValueError('boom-v')
    if kind == 1:
        raise KeyError('boom-k')
    raise OSError('boom-o')

D: dict[str, int] = {'a': 1}

'''

ACTS = ["raise_v", "raise_k", "raise_i", "raise_o", "call_v", "call_k", "call_o", "lookup", "index", "return", "break", "continue",
        "zerodiv", "assert"]


def act_src(act: str, ind: str, clause: str) -> list[str]:
    if act == "raise_v":
        return [f"{ind}raise ValueError('{clause}-v')"]
    if act == "raise_k":
        return [f"{ind}raise KeyError('{clause}-k')"]
    if act == "raise_i":
        return [f"{ind}raise IndexError('{clause}-i')"]
    if act == "raise_o":
        return [f"{ind}raise OSError('{clause}-o')"]
    if act in ("call_v", "call_k", "call_o"):
        return [f"{ind}boom({['call_v', 'call_k', 'call_o'].index(act)})"]
    if act == "lookup":
        return [f"{ind}LOG.append(str(D['{clause}']))"]
    if act == "index":
        return [f"{ind}LOG.append(str([1, 2][k + 5]))"]
    if act == "zerodiv":
        return [f"{ind}LOG.append(str(1 // (k - k)))"]
    if act == "assert":
        return [f"{ind}assert k < 0, '{clause}-assert'"]
    if act == "return":
        return [f"{ind}return 'ret-{clause}'"]
    return [f"{ind}{act}"]


class Fn:
    def __init__(self, rng: random.Random, name: str):
        self.name = name
        self.h1 = rng.choice(["ValueError", "ValueError", "LookupError", "Exception", "bare"])
        self.h2 = rng.choice([None, "LookupError", "KeyError", "OSError", "(IndexError, ZeroDivisionError)"]) if self.h1 != "bare" else None
        self.has_else = rng.random() < 0.6
        self.has_finally = rng.random() < 0.5
        self.loop = rng.random() < 0.45
        self.with_mode = rng.choice([None, None, 0, 1, 2])
        self.outer = rng.random() < 0.3
        self.clauses = ["body", "h1"] + (["h2"] if self.h2 else []) + (["else"] if self.has_else else []) + \
                       (["fin"] if self.has_finally else [])
        self.acts = {}
        for c in self.clauses:
            pool = [a for a in ACTS if a not in ("break", "continue")]
            if self.loop and not self.has_finally:
                pool += ["break", "continue", "break", "continue"]      # (break/continue inside try/finally: unimplemented in mypyc)
            if c == "body":
                pool = [a for a in pool if a not in ("return",)] + ["raise_v", "raise_k", "call_v"]
            self.acts[c] = rng.choice(pool)

    def source(self) -> str:
        L = [f"def {self.name}(k: int) -> object:", "    LOG.append('start')"]
        ind = "    "
        if self.outer:
            L.append(f"{ind}try:")
            ind += "    "
        if self.loop:
            L.append(f"{ind}for i in range(2):")
            ind += "    "
            L.append(f"{ind}LOG.append('iter ' + str(i))")
        bit = {c: 1 << j for j, c in enumerate(self.clauses)}

        def clause(c: str, ind2: str) -> list[str]:
            out = [f"{ind2}LOG.append('{c}')", f"{ind2}if k & {bit[c]}:"]
            out += act_src(self.acts[c], ind2 + "    ", c)
            out.append(f"{ind2}LOG.append('{c} end')")
            return out

        L.append(f"{ind}try:")
        if self.with_mode is not None:
            L.append(f"{ind}    with Ctxm({self.with_mode}) as cm:")
            L += clause("body", ind + "        ")
        else:
            L += clause("body", ind + "    ")
        if self.h1 == "bare":
            L.append(f"{ind}except:")
        else:
            L.append(f"{ind}except {self.h1} as e1:")
            L.append(f"{ind}    LOG.append('caught1 ' + type(e1).__name__ + ' ' + str(e1))")
        L += clause("h1", ind + "    ")
        if self.h2:
            L.append(f"{ind}except {self.h2} as e2:")
            L.append(f"{ind}    LOG.append('caught2 ' + type(e2).__name__ + ' ' + str(e2))")
            L += clause("h2", ind + "    ")
        if self.has_else:
            L.append(f"{ind}else:")
            L += clause("else", ind + "    ")
        if self.has_finally:
            L.append(f"{ind}finally:")
            L += clause("fin", ind + "    ")
        L.append(f"{ind}LOG.append('after')")
        if self.loop:
            ind = ind[:-4]
            L.append(f"{ind}LOG.append('loop done')")
        if self.outer:
            ind = ind[:-4]
            L.append(f"{ind}except (ValueError, KeyError) as eo:")
            L.append(f"{ind}    LOG.append('outer caught ' + type(eo).__name__ + ' ' + str(eo))")
        L.append("    return 'ret-end'")
        return "\n".join(L) + "\n"


def handler_scope(fn_ir, ranges: dict[str, tuple[int, int]]) -> dict[str, bool] | None:
    """T tie: which clauses of the (single) try statement have their error branches routed to the statement's handler
    block — the block that calls CPy_CatchError — in the final IR.  `ranges`: clause -> (first line, last line)."""
    from mypyc.ir.ops import Branch, CallC, Goto
    catch_blocks = [b for b in fn_ir.blocks if any(isinstance(o, CallC) and o.function_name == "CPy_CatchError" for o in b.ops)]
    if len(catch_blocks) != 1:
        return None
    target = catch_blocks[0]

    def reaches(b) -> bool:
        for _ in range(12):
            if b is target:
                return True
            t = b.ops[-1] if b.ops else None
            if isinstance(t, Goto):
                b = t.label
            else:
                return False
        return False

    scope: dict[str, bool] = {}
    for b in fn_ir.blocks:
        t = b.ops[-1] if b.ops else None
        if isinstance(t, Branch) and t.traceback_entry is not None:
            line = t.traceback_entry[1]
            for c, (lo, hi) in ranges.items():
                if lo <= line <= hi:
                    scope[c] = scope.get(c, False) or reaches(t.true)
    return scope


PRELUDE = '''
def run(th):
    del LOG[:]
    try:
        r = th()
    except BaseException as e:
        return ("exc", type(e).__name__, str(e), type(e.__context__).__name__, list(LOG))
    return (r, list(LOG))
'''


def run(ctx: Ctx, pool, col=None):
    """two-phase (generator)"""
    rng = ctx.rng
    nf = ctx.pick(160, 400)
    cache = os.path.join(ctx.tmp, "mypy_cache_vt")
    fns = [Fn(random.Random(rng.getrandbits(64)), f"tf{i}") for i in range(nf)]
    for attempt in range(6):
        src = PRELUDE_MOD + "\n".join(f.source() for f in fns)
        fr = front({"c05flow": src}, cache)
        if fr.modules is not None or fr.crash is not None:
            break
        # drop functions mypy / mypyc reject (e.g. unreachable-code diagnostics), keep the rest
        import re
        lines = src.split("\n")
        bad = set()
        for m in fr.errors:
            mm = re.match(r"c05flow\.py:(\d+):", m)
            if mm:
                j = int(mm.group(1)) - 1
                while j >= 0 and not lines[j].startswith("def "):
                    j -= 1
                bad.add(lines[j][4:].split("(")[0])
        if not bad:
            break
        ctx.dist("flow_functions_rejected", fr.errors[0].split("error:")[-1].strip()[:60], len(bad))
        fns = [f for f in fns if f.name not in bad]
    if fr.modules is None:
        raise ToolFailure("control-flow battery does not compile: %r %r" % (fr.errors[:4], fr.crash))
    if col is not None:
        col.add_modules("control-flow", fr.modules)
    # --- T: handler scope of the real lowering vs Model/TryScope.lean `bodyOnly` (theorem tryLowering_eq_python)
    src_lines = src.split("\n")
    irs = {f.name: f for f in fr.modules["c05flow"].functions}
    nscope = 0
    for f in fns:
        if f.has_finally or f.with_mode is not None or f.outer or f.name not in irs:
            continue
        start = next(j for j, l in enumerate(src_lines) if l.startswith(f"def {f.name}("))
        ranges = {}
        j = start + 1
        while j < len(src_lines) and not src_lines[j].startswith("def "):
            for c in f.clauses:
                if src_lines[j].strip() == f"LOG.append('{c}')":
                    lo = j + 1
                if src_lines[j].strip() == f"LOG.append('{c} end')":
                    ranges[c] = (lo + 1, j + 1)
            j += 1
        sc = handler_scope(irs[f.name], ranges)
        if sc is None:
            continue
        nscope += 1
        ctx.count("traces_validated_against_impl")
        want = {c: c == "body" for c in sc}
        if sc != want:
            bad = [c for c in sc if sc[c] != want[c]]
            violation_nf(ctx, "flow-scope", f"final IR of {f.name}: error branches of the `{bad[0]}` clause "
                         f"{'reach' if sc[bad[0]] else 'do not reach'} the try statement's own handler block; Model/TryScope.lean assumes the "
                         "handler scope is the try body only",
                         {"broken": "translation tie: handler scope in the final IR vs TryScope.bodyOnly", "kind": "flow",
                          "function": f.source(), "name": f.name, "scope": sc})
    ctx.coverage["flow_handler_scopes_read_from_ir"] = nscope
    opts = [rng.choice(["0", "3"])] if ctx.quick() else ["0", "3"]
    futs = []
    for opt in opts:
        d = os.path.join(ctx.tmp, f"flow_O{opt}")
        os.makedirs(d, exist_ok=True)
        with open(os.path.join(d, "c05flow.py"), "w") as fh:
            fh.write(src)
        futs.append((opt, d, pool.submit(compile_ext, d, ["c05flow.py"], opt)))
    jobs, meta = [], []
    for f in fns:
        for k in range(1 << len(f.clauses)):
            jobs.append((len(jobs), f"run(lambda: {f.name}({k}))"))
            meta.append((f, k))
        ctx.dist("flow_shape", "%s%s%s%s%s" % ("try/except", "/except" if f.h2 else "", "/else" if f.has_else else "",
                                              "/finally" if f.has_finally else "", " in loop" if f.loop else ""))
        for c in f.clauses:
            ctx.dist("flow_action", f"{c}: {f.acts[c]}")
    yield
    ndiff = 0
    for opt, d, fut in futs:
        ok, log, secs = fut.result()
        if not ok:
            raise ToolFailure(f"mypyc could not compile the control-flow battery (opt {opt}):\n" + log[-2500:])
        ppath = os.path.join(d, "prelude.py")
        with open(ppath, "w") as fh:
            fh.write(PRELUDE)
        res = run_worker(d, "c05flow", jobs, "flow", prelude=ppath, timeout=900)
        seen = set()
        for (idx, expr), (f, k) in zip(jobs, meta):
            interp, comp = res[idx]
            ctx.case(("F", opt, f.source(), k))
            ctx.count("traces_validated_against_impl")
            if interp == comp:
                continue
            ndiff += 1
            ctx.count("disagreements_checked")
            if f.name in seen:
                continue
            seen.add(f.name)
            fired = [c for j, c in enumerate(f.clauses) if k & (1 << j)]
            report(ctx, "flow", {"class": "control-flow-differs", "shape": "other"},
                   f"{f.name}({k}) [actions fired in: {', '.join(fired) or '-'}; "
                   f"{', '.join(c + '=' + f.acts[c] for c in f.clauses)}] (opt {opt}): compiled {comp[:220]}, CPython {interp[:220]}",
                   {"kind": "flow", "function": f.source(), "name": f.name, "call": expr, "opt": opt, "compiled": comp, "cpython": interp},
                   cap=6)
    ctx.coverage["flow_functions"] = len(fns)
    ctx.coverage["flow_calls_per_opt_level"] = len(jobs)
    ctx.coverage["flow_differences"] = ndiff


def replay(ctx: Ctx, det: dict) -> None:
    d = os.path.join(ctx.tmp, "flow_replay")
    os.makedirs(d, exist_ok=True)
    with open(os.path.join(d, "c05flow.py"), "w") as fh:
        fh.write(PRELUDE_MOD + det["function"])
    ok, log, _ = compile_ext(d, ["c05flow.py"], det.get("opt", "0"))
    if not ok:
        print("compile failed:", log[-1500:])
        return
    ppath = os.path.join(d, "prelude.py")
    with open(ppath, "w") as fh:
        fh.write(PRELUDE)
    res = run_worker(d, "c05flow", [(0, det["call"])], "rp", prelude=ppath)
    print(det["function"])
    print("call     :", det["call"])
    print("CPython  :", res[0][0])
    print("compiled :", res[0][1])
