"""C05 search, part 3 — str / bytes primitives over an alphabet.

Every str method and operator mypyc has a primitive (or a specialisation) for — and a few it has none for, as a
control — is run on strings built around *every* ASCII character (all control and separator characters included),
the non-ASCII white space / line-break characters, case-mapping special cases, and the BMP / astral boundaries;
bytes operations on every byte value.  Compiled vs the interpreted twin, value and exception type + message.

The strings are built inside the worker (prelude) from code points, so no raw control character travels through a
file; one job evaluates one operation over one batch of strings and returns the list of canonical results."""
from __future__ import annotations

import os

from harness.vlib.core import Ctx, ToolFailure
from harness.c05.front import compile_ext, front, report, run_worker

SPECIAL = [0x85, 0xA0, 0xAD, 0xB5, 0xDF, 0xE9, 0xFF, 0x100, 0x130, 0x131, 0x149, 0x1C5, 0x1F0, 0x345, 0x390, 0x3A3, 0x3C2,
           0x587, 0x660, 0x6F5, 0x1680, 0x180E, 0x1E9E, 0x2000, 0x2001, 0x2002, 0x2003, 0x2004, 0x2005, 0x2006, 0x2007, 0x2008,
           0x2009, 0x200A, 0x200B, 0x200C, 0x2028, 0x2029, 0x202F, 0x205F, 0x2060, 0x2160, 0x2460, 0x3000, 0xFB00, 0xFB03,
           0xFEFF, 0xFF10, 0xFF21, 0xFFFD, 0xFFFF, 0x10000, 0x10400, 0x1D7CE, 0x1F600, 0x10FFFF]
CODEPOINTS = list(range(128)) + SPECIAL

# how a string is built around the character c (chr of the code point)
FORMS = ["c", "c[:0]", "c + 'x'", "'x' + c", "c + 'x' + c", "'a' + c + 'b'", "c + c", "c + ' x ' + c", "' ' + c + 'Ab1' + c + ' '"]

# one-parameter operations on s: str
UNARY = [
    "s.strip()", "s.lstrip()", "s.rstrip()", "s.split()", "s.rsplit()", "s.split(None, 1)", "s.splitlines()",
    "s.splitlines(True)", "s.isspace()", "s.isdigit()", "s.isalnum()", "s.isalpha()", "s.isdecimal()", "s.isnumeric()",
    "s.isidentifier()", "s.isupper()", "s.islower()", "s.istitle()", "s.isprintable()", "s.isascii()",
    "s.upper()", "s.lower()", "s.title()", "s.capitalize()", "s.swapcase()", "s.casefold()",
    "len(s)", "s.encode()", "s.encode('utf-8')", "s.encode('ascii')", "s.encode('latin-1')", "s.encode('ascii', 'replace')",
    "s.encode('utf8', 'surrogatepass')", "s.encode('utf-16')",
    "ord(s[0])", "ord(s[-1])", "s[0]", "s[-1]", "s[1:]", "s[:-1]", "s[::-1]", "s * 2", "[ch for ch in s]",
    "repr(s)", "str(s)", "f'{s}|{s!r}|{s:>4}'", "'%s|%r' % (s, s)", "'{}'.format(s)", "int(s)", "float(s)",
    "s.zfill(4)", "s.center(5)", "s.expandtabs()", "bool(s)", "1 if s else 0", "hash(s) == hash(s + '')",
    "s.strip().strip()", "s.partition(' ')", "s.rpartition(' ')", "s.count(' ')", "s.find(' ')", "s.rfind('x')",
    "s.startswith(' ')", "s.endswith('x')", "s.replace(' ', '_')", "s.replace('x', '')", "'-'.join(s)", "'-'.join([s, s])",
    "s == 'x'", "s != ' x '", "s < 'x'", "s >= 'a'", "'x' in s", "s in 'axb'", "s.removeprefix('x')", "s.removesuffix('x')",
    "s.split(' ')", "s.split('x')", "s.rsplit(' ', 1)", "s + 'x'", "min(s)", "max(s)", "sorted(s)", "s.index('x')",
]
# two-parameter operations on s: str, t: str  (t built from the same character)
BINARY = [
    "s.strip(t)", "s.lstrip(t)", "s.rstrip(t)", "s.split(t)", "s.rsplit(t)", "s.split(t, 1)", "s.find(t)", "s.rfind(t)",
    "s.count(t)", "s.startswith(t)", "s.endswith(t)", "s.replace(t, 'X')", "s.replace(t, 'X', 1)", "t.join([s, s])",
    "t in s", "s == t", "s != t", "s < t", "s + t", "s.removeprefix(t)", "s.removesuffix(t)", "s.partition(t)",
    "s.rpartition(t)", "s.index(t)", "s.startswith((t, 'x'))", "s.find(t, 1)", "s.count(t, 1)",
]
TFORMS = ["c", "c[:0]", "c + c", "c + 'x'"]

BYTES_UNARY = [
    "b.strip()", "b.split()", "b.decode()", "b.decode('utf-8')", "b.decode('latin-1')", "b.decode('ascii')",
    "b.decode('utf-8', 'replace')", "b.decode('ascii', 'ignore')", "b + b", "b * 2", "b[0]", "b[-1]", "b[1:]", "b[::-1]",
    "len(b)", "b == b'x'", "b != b'x'", "b < b'x'", "b'-'.join([b, b])", "b.hex()", "b.upper()", "b.isspace()",
    "b.startswith(b'x')", "b.endswith(b'x')", "ord(b[:1])", "bytes(b)", "bytearray(b)", "list(b)", "repr(b)",
    "b.translate(TABLE)", "b'%s|' % b", "bool(b)", "b.find(b'x')", "b.replace(b'x', b'yy')", "[v for v in b]", "b in b'axb'",
]
BFORMS = ["bytes([c])", "bytes([c]) + b'x'", "b'x' + bytes([c])", "bytes([c, 120, c])", "bytes([c, c])"]


def module_source() -> str:
    L = ["TABLE = bytes((i * 7 + 3) % 256 for i in range(256))", ""]
    for i, e in enumerate(UNARY):
        L += [f"def u{i}(s: str) -> object:", f"    return {e}", ""]
    for i, e in enumerate(BINARY):
        L += [f"def w{i}(s: str, t: str) -> object:", f"    return {e}", ""]
    for i, e in enumerate(BYTES_UNARY):
        L += [f"def y{i}(b: bytes) -> object:", f"    return {e}", ""]
    return "\n".join(L)


PRELUDE = '''
def _canon(v):
    t = type(v)
    if t is str:
        return ascii(v)
    if t in (int, bool, float, bytes, bytearray, type(None)):
        return repr(v)
    if t in (list, tuple):
        return t.__name__ + "[" + ", ".join(_canon(x) for x in v) + "]"
    return "<" + t.__name__ + ">" + ascii(v)

def each1(f, xs):
    out = []
    for x in xs:
        try:
            out.append("ok " + _canon(f(x)))
        except BaseException as e:
            out.append("exc %s: %s" % (type(e).__name__, ascii(str(e))))
    return out

def each2(f, xs, ts):
    out = []
    for x, t in zip(xs, ts):
        try:
            out.append("ok " + _canon(f(x, t)))
        except BaseException as e:
            out.append("exc %s: %s" % (type(e).__name__, ascii(str(e))))
    return out
'''


def run(ctx: Ctx, pool, col=None):
    """two-phase (generator)"""
    rng = ctx.rng
    src = module_source()
    cache = os.path.join(ctx.tmp, "mypy_cache_vt")
    fr = front({"c05str": src}, cache)
    if fr.modules is None:
        raise ToolFailure("str battery does not compile: %r %r" % (fr.errors[:4], fr.crash))
    if col is not None:
        col.add_modules("str-battery", fr.modules)
    opts = [rng.choice(["0", "3"])] if ctx.quick() else ["0", "3"]
    futs = []
    for opt in opts:
        d = os.path.join(ctx.tmp, f"str_O{opt}")
        os.makedirs(d, exist_ok=True)
        with open(os.path.join(d, "c05str.py"), "w") as fh:
            fh.write(src)
        futs.append((opt, d, pool.submit(compile_ext, d, ["c05str.py"], opt)))
    # batches of (code point, form): every code point, all forms in thorough, 3 random forms each in quick
    items = []
    for cp in CODEPOINTS:
        forms = list(range(len(FORMS))) if not ctx.quick() else sorted(rng.sample(range(len(FORMS)), 3))
        for f in forms:
            items.append((cp, f))
    nb = 8
    batches = [items[i::nb] for i in range(nb)]
    titems = [(cp, f, rng.randrange(len(TFORMS))) for cp, f in items if f in (0, 1, 4, 5, 7, 8)]
    tbatches = [titems[i::nb] for i in range(nb)]
    bitems = [(c, f) for c in range(256) for f in (range(len(BFORMS)) if not ctx.quick() else sorted(rng.sample(range(len(BFORMS)), 2)))]
    bbatches = [bitems[i::4] for i in range(4)]
    pre = [PRELUDE]
    for k, b in enumerate(batches):
        exprs = ", ".join("(lambda c: %s)(chr(%d))" % (FORMS[f], cp) for cp, f in b)
        pre.append(f"S{k} = [{exprs}]")
    for k, b in enumerate(tbatches):
        pre.append("X%d = [%s]" % (k, ", ".join("(lambda c: %s)(chr(%d))" % (FORMS[f], cp) for cp, f, _ in b)))
        pre.append("T%d = [%s]" % (k, ", ".join("(lambda c: %s)(chr(%d))" % (TFORMS[t], cp) for cp, _, t in b)))
    for k, b in enumerate(bbatches):
        pre.append("B%d = [%s]" % (k, ", ".join("(lambda c: %s)(%d)" % (BFORMS[f], c) for c, f in b)))
    jobs = []
    meta = []
    for i in range(len(UNARY)):
        for k in range(nb):
            jobs.append((len(jobs), f"each1(u{i}, S{k})"))
            meta.append(("u", i, k))
    for i in range(len(BINARY)):
        for k in range(nb):
            jobs.append((len(jobs), f"each2(w{i}, X{k}, T{k})"))
            meta.append(("w", i, k))
    for i in range(len(BYTES_UNARY)):
        for k in range(4):
            jobs.append((len(jobs), f"each1(y{i}, B{k})"))
            meta.append(("y", i, k))
    yield
    ndiff = ncalls = 0
    for opt, d, fut in futs:
        ok, log, secs = fut.result()
        if not ok:
            raise ToolFailure(f"mypyc could not compile the str battery (opt {opt}):\n" + log[-2500:])
        ppath = os.path.join(d, "prelude.py")
        with open(ppath, "w") as fh:
            fh.write("\n".join(pre) + "\n")
        res = run_worker(d, "c05str", jobs, "str", prelude=ppath, timeout=900)
        seen = set()
        for (idx, expr), (kind, i, k) in zip(jobs, meta):
            interp, comp = res[idx]
            opexpr = {"u": UNARY, "w": BINARY, "y": BYTES_UNARY}[kind][i]
            n = len({"u": batches, "w": tbatches, "y": bbatches}[kind][k])
            ncalls += n
            ctx.count("traces_validated_against_impl", n)
            ctx.dist("str_battery_kind", {"u": "str unary", "w": "str binary", "y": "bytes"}[kind], n)
            if interp == comp:
                continue
            # locate the differing items
            ia, ic = split_list(interp), split_list(comp)
            if ia is None or ic is None or len(ia) != len(ic):
                pairs = [(None, interp, comp)]
            else:
                src_items = {"u": batches, "w": tbatches, "y": bbatches}[kind][k]
                pairs = [(src_items[j], a, b) for j, (a, b) in enumerate(zip(ia, ic)) if a != b]
            for item, a, b in pairs:
                ndiff += 1
                ctx.count("disagreements_checked")
                shape = known_shape(kind, opexpr, item, a, b)
                if (opexpr, shape) in seen:
                    continue
                seen.add((opexpr, shape))
                what = describe(kind, item)
                report(ctx, "strb", {"class": "str-primitive-differs", "shape": shape, "operation": opexpr},
                       f"`{opexpr}` with {what} (opt {opt}): compiled {b[:150]}, CPython {a[:150]}",
                       {"kind": "strb", "operation": opexpr, "item": item, "opt": opt, "compiled": b, "cpython": a,
                        "function": f"{kind}{i}", "what": what}, cap=8)
    ctx.coverage["str_battery_operations"] = len(UNARY) + len(BINARY) + len(BYTES_UNARY)
    ctx.coverage["str_battery_code_points"] = len(CODEPOINTS)
    ctx.coverage["str_battery_calls"] = ncalls
    ctx.coverage["str_battery_differences"] = ndiff


def split_list(s: str):
    """worker canon of a list of str: `ok ['…', '…']` -> items"""
    if not s.startswith("ok ["):
        return None
    import ast
    try:
        v = ast.literal_eval(s[3:])
    except Exception:  # noqa: BLE001
        return None
    return v if isinstance(v, list) else None


def describe(kind: str, item) -> str:
    if item is None:
        return "(whole batch)"
    if kind == "y":
        return "b = " + BFORMS[item[1]].replace("c", str(item[0]))
    s = "s = " + FORMS[item[1]].replace("c", "chr(0x%x)" % item[0]) if True else ""
    if kind == "w":
        s += ", t = " + TFORMS[item[2]].replace("c", "chr(0x%x)" % item[0])
    return s


def known_shape(kind: str, opexpr: str, item, a: str, b: str) -> str:
    """narrow shape of a *known* difference on the unchanged tree, else "other" """
    if a == "exc IndexError: 'string index out of range'" and b == "exc IndexError: 'index out of range'":
        return "str-index-message"
    if opexpr == "s.lower()" and item is not None and item[0] == 0x3A3 and a != b and a.replace("\\u03c2", "\\u03c3") == b:
        # Greek capital sigma: CPython lower-cases a word-final sigma to U+03C2, CPyStr_Lower maps per character
        return "lower-final-sigma"
    return "other"


def replay(ctx: Ctx, det: dict) -> None:
    d = os.path.join(ctx.tmp, "str_replay")
    os.makedirs(d, exist_ok=True)
    with open(os.path.join(d, "c05str.py"), "w") as fh:
        fh.write(module_source())
    ok, log, _ = compile_ext(d, ["c05str.py"], det.get("opt", "0"))
    if not ok:
        print("compile failed:", log[-1500:])
        return
    item = det["item"]
    kind = det["function"][0]
    if kind == "y":
        arg = "(lambda c: %s)(%d)" % (BFORMS[item[1]], item[0])
        expr = f"each1({det['function']}, [{arg}])"
    elif kind == "u":
        arg = "(lambda c: %s)(chr(%d))" % (FORMS[item[1]], item[0])
        expr = f"each1({det['function']}, [{arg}])"
    else:
        arg = "(lambda c: %s)(chr(%d))" % (FORMS[item[1]], item[0])
        targ = "(lambda c: %s)(chr(%d))" % (TFORMS[item[2]], item[0])
        expr = f"each2({det['function']}, [{arg}], [{targ}])"
    ppath = os.path.join(d, "prelude.py")
    with open(ppath, "w") as fh:
        fh.write(PRELUDE)
    res = run_worker(d, "c05str", [(0, expr)], "rp", prelude=ppath)
    print("operation:", det["operation"], " ", det.get("what"))
    print("CPython  :", res[0][0])
    print("compiled :", res[0][1])
