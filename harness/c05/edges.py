"""C05 (d) — error-edge well-formedness of exported final IR.

Every function the C05 harness runs through the front half (vtable hierarchies, range-loop module, binding
module, generated programs) is dumped with C06's exporter (`translate/ir_export.py`, reused by import) and each
basic block is handed to the verified checker `ErrEdges.checkBlock` (Model/ErrEdges.lean, theorem
`checkBlock_sound`): every op with `error_kind ≠ ERR_NEVER` is followed — after reference-count ops on other
values only — by the branch on its error value.  The two-block expansion of ERR_MAGIC_OVERLAPPING (native ints,
floats) is recognised here, not in Lean, and counted separately."""
from __future__ import annotations

from harness.vlib.core import Ctx, ToolFailure
from harness.c05.front import report, violation_nf

EK = {0: "n", 1: "m", 2: "f", 3: "a"}


class Collector:
    def __init__(self):
        self.lines: list[str] = []
        self.meta: list[tuple[str, str]] = []      # (origin, function fullname)
        self.dumps: dict[int, dict] = {}
        self.overlap_ok = 0
        self.overlap_bad: list[tuple[str, str, int]] = []
        self.nops = 0
        self.nfallible = 0

    def add_modules(self, origin: str, mods: dict) -> None:
        from translate.ir_export import export_func
        for mname, m in mods.items():
            fns = list(m.functions)
            for fn in fns:
                try:
                    dump = export_func(fn, mname)
                except Exception as e:  # noqa: BLE001
                    raise ToolFailure(f"ir_export.export_func failed on {mname}.{fn.name}: {e!r}")
                self.add_dump(origin, dump)

    def add_dump(self, origin: str, dump: dict) -> None:
        vals = dump["values"]
        blocks = dump["blocks"]
        enc = []
        for bi, b in enumerate(blocks):
            ops = b["ops"]
            if not ops:
                enc.append("# u")
                continue
            term = ops[-1]
            body = ops[:-1] if term["op"] in ("Goto", "Branch", "Return", "Unreachable") else ops
            toks = []
            for oi, op in enumerate(body):
                ek = op.get("error_kind", 0)
                self.nops += 1
                if ek:
                    self.nfallible += 1
                if ek == 4:
                    if self.overlapping_ok(blocks, bi, oi, vals):
                        self.overlap_ok += 1
                    else:
                        self.overlap_bad.append((origin, dump["fullname"], bi))
                    ek = 0
                d = op.get("dest")
                toks.append("%s:%s:%s:%d" % ("-" if d is None else d, ",".join(str(s) for s in op["srcs"]),
                                             EK.get(ek, "m"), int(op["op"] in ("IncRef", "DecRef"))))
            if term["op"] == "Goto":
                t = f"g {term['label']}"
            elif term["op"] == "Branch":
                v = term["value"]
                lit = vals[v]["kind"] in ("int", "float")
                t = "b %s %s %d %d %d" % ("e" if term["kind"] == "IS_ERROR" else "b", "-" if lit else v,
                                          int(term["negated"]), term["true"], term["false"])
            elif term["op"] == "Return":
                t = "r"
            else:
                t = "u"
            enc.append(" ".join(toks) + " # " + t)
        self.dumps[len(self.lines)] = dump
        self.lines.append("E " + " ; ".join(enc))
        self.meta.append((origin, dump["fullname"]))

    @staticmethod
    def overlapping_ok(blocks, bi: int, oi: int, vals) -> bool:
        """`x = op [ERR_MAGIC_OVERLAPPING]; (TupleGet)*; c = x == <error value>; if c goto B2 else goto OK`
           with B2: `e = err_occurred(); if not is_error(e) goto ERR else goto OK`"""
        ops = blocks[bi]["ops"]
        d = ops[oi].get("dest")
        rest = ops[oi + 1:]
        cur = d
        k = 0
        while k < len(rest) and rest[k]["op"] in ("IncRef", "DecRef") and d not in rest[k]["srcs"]:
            k += 1
        while k < len(rest) and rest[k]["op"] == "TupleGet" and rest[k]["srcs"] == [cur]:
            cur = rest[k]["dest"]
            k += 1
        if k >= len(rest) or rest[k]["op"] not in ("ComparisonOp", "FloatComparisonOp") or cur not in rest[k]["srcs"]:
            return False
        c = rest[k]["dest"]
        k += 1
        while k < len(rest) and rest[k]["op"] in ("IncRef", "DecRef") and d not in rest[k]["srcs"]:
            k += 1
        if k != len(rest) - 1 or rest[k]["op"] != "Branch" or rest[k]["kind"] != "BOOL" or rest[k]["value"] != c:
            return False
        b2 = blocks[rest[k]["true"]]["ops"] if 0 <= rest[k]["true"] < len(blocks) else []
        if len(b2) < 2 or b2[0]["op"] != "CallC" or b2[0].get("function") != "PyErr_Occurred":
            return False
        br = b2[-1]
        return br["op"] == "Branch" and br["kind"] == "IS_ERROR" and br["negated"] and br["value"] == b2[0]["dest"] \
            and br["false"] == rest[k]["false"]


def check(ctx: Ctx, col: Collector) -> None:
    if not col.lines:
        return
    out = ctx.lean_driver("Driver/C05.lean", col.lines)
    if len(out) != len(col.lines):
        raise ToolFailure("Driver/C05 E: wrong number of output lines")
    bad = []
    for i, (o, (origin, fn)) in enumerate(zip(out, col.meta)):
        ctx.count("traces_validated_against_impl")
        ctx.dist("edges_origin", origin)
        if o != "ok":
            bad.append((i, o, origin, fn))
    ctx.coverage["edges_functions_checked"] = len(col.lines)
    ctx.coverage["edges_ops"] = col.nops
    ctx.coverage["edges_fallible_ops"] = col.nfallible
    ctx.coverage["edges_overlapping_patterns_checked_in_python"] = col.overlap_ok
    for i, o, origin, fn in bad[:3]:
        from translate.ir_export import pretty
        blk = int(o.split()[1]) if o.startswith("bad ") and o.split()[1].isdigit() else -1
        report(ctx, "edges", {"class": "error-edge-missing", "origin": origin},
                   f"final IR of {fn} ({origin}): block {blk} has a fallible op that is not followed by the branch on its "
                   "error value (checkBlock rejects it)",
                   {"kind": "edges", "function": fn, "block": blk, "ir": pretty(col.dumps[i])[:6000]})
    for origin, fn, bi in col.overlap_bad[:3]:
        report(ctx, "edges", {"class": "error-edge-missing", "origin": origin, "error_kind": "ERR_MAGIC_OVERLAPPING"},
                   f"final IR of {fn} ({origin}): block {bi}: an ERR_MAGIC_OVERLAPPING op is not followed by the "
                   "comparison + err_occurred() check", {"kind": "edges", "function": fn, "block": bi})
