"""C05 search, part 2 — a battery of one-line functions over the primitive container / str / int operations and the
loop forms, each driven on boundary operands: the compiled function vs its interpreted twin (value, exception type
and message).  Complements the random programs (prog.py), which exercise a given primitive with a given operand
shape only by chance."""
from __future__ import annotations

import itertools
import os
import re

from harness.vlib.core import Ctx, ToolFailure
from harness.c05.front import compile_ext, front, report, run_worker

LI = ["[]", "[4]", "[1, 2, 3]", "[5, -1, 5, 7, 0]"]
LS = ["[]", "['a']", "['b', '', 'a,c']"]
IDX = ["0", "1", "-1", "2", "-2", "3", "-3", "-4", "5", "-6"]
SMALL = ["0", "1", "-1", "2", "3", "7"]
INTS = ["0", "1", "-1", "7", "-7", "2", "-2", "4611686018427387903", "-4611686018427387904", "9223372036854775807",
        "18446744073709551616", "-18446744073709551617"]
STRS = ["''", "'a'", "'abc'", "'a,b,,c'", "' x y '", "'É!'"]
DS = ["{}", "{'a': 1}", "{'b': 2, 'a': 1, '': 0}"]
KEYS = ["'a'", "'b'", "''", "'zz'"]
SETS = ["set()", "{1}", "{1, 2, 3}", "{0, 5}"]
TUPS = ["()", "(1,)", "(1, 2, 3)"]

# (name, parameters, body, argument pools)
BATTERY: list[tuple[str, str, str, list[list[str]]]] = [
    # ---- list
    ("li_get", "l: list[int], i: int", "return l[i]", [LI, IDX]),
    ("li_get_0", "l: list[int]", "return l[0]", [LI]),
    ("li_get_m1", "l: list[int]", "return l[-1]", [LI]),
    ("li_get_m2", "l: list[int]", "return l[-2]", [LI]),
    ("li_get_2", "l: list[int]", "return l[2]", [LI]),
    ("li_set", "l: list[int], i: int", "l[i] = 9\n    return l", [LI, IDX]),
    ("li_set_m1", "l: list[int]", "l[-1] = 9\n    return l", [LI]),
    ("li_set_m3", "l: list[int]", "l[-3] = 9\n    return l", [LI]),
    ("li_pop", "l: list[int]", "x = l.pop()\n    return (x, l)", [LI]),
    ("li_pop_i", "l: list[int], i: int", "x = l.pop(i)\n    return (x, l)", [LI, IDX]),
    ("li_insert", "l: list[int], i: int", "l.insert(i, 9)\n    return l", [LI, IDX]),
    ("li_slice", "l: list[int], a: int, b: int", "return l[a:b]", [LI, IDX[:7], IDX[:7]]),
    ("li_slice_from", "l: list[int], a: int", "return l[a:]", [LI, IDX]),
    ("li_slice_to", "l: list[int], b: int", "return l[:b]", [LI, IDX]),
    ("li_slice_step", "l: list[int]", "return l[::-1] + l[::2]", [LI]),
    ("li_mul", "l: list[int], n: int", "return l * n", [LI, SMALL]),
    ("li_rmul", "l: list[int], n: int", "return n * l", [LI, SMALL]),
    ("li_add", "l: list[int], m: list[int]", "return l + m", [LI, LI]),
    ("li_iadd", "l: list[int], m: list[int]", "l += m\n    return l", [LI, LI]),
    ("li_in", "l: list[int], v: int", "return v in l", [LI, SMALL]),
    ("li_not_in", "l: list[int], v: int", "return v not in l", [LI, SMALL]),
    ("li_index", "l: list[int], v: int", "return l.index(v)", [LI, SMALL]),
    ("li_count", "l: list[int], v: int", "return l.count(v)", [LI, ["5", "1", "9"]]),
    ("li_remove", "l: list[int], v: int", "l.remove(v)\n    return l", [LI, ["5", "1", "9"]]),
    ("li_extend", "l: list[int], m: list[int]", "l.extend(m)\n    return l", [LI, LI]),
    ("li_reverse", "l: list[int]", "l.reverse()\n    return l", [LI]),
    ("li_sort", "l: list[int]", "l.sort()\n    return l", [LI]),
    ("li_sorted_rev", "l: list[int]", "return sorted(l, reverse=True)", [LI]),
    ("li_len", "l: list[int]", "return len(l)", [LI]),
    ("li_copy", "l: list[int]", "m = l.copy()\n    m.append(1)\n    return (l, m)", [LI]),
    ("li_clear", "l: list[int]", "l.clear()\n    return l", [LI]),
    ("li_eq", "l: list[int], m: list[int]", "return (l == m, l != m, l < m)", [LI, LI]),
    ("li_bool", "l: list[int]", "return 1 if l else 0", [LI]),
    ("li_min_max", "l: list[int]", "return (min(l), max(l))", [LI]),
    ("li_sum", "l: list[int]", "return sum(l)", [LI]),
    ("li_any_all", "l: list[int]", "return (any(x > 4 for x in l), all(x > 0 for x in l))", [LI]),
    ("li_del", "l: list[int], i: int", "del l[i]\n    return l", [LI, IDX]),
    ("li_unpack2", "l: list[int]", "a, b = l\n    return a - b", [LI + ["[1, 2]"]]),
    ("li_star_unpack", "l: list[int]", "a, *b = l\n    return (a, b)", [LI]),
    # ---- loops
    ("lp_iter", "l: list[int]", "return [x + 1 for x in l]", [LI]),
    ("lp_reversed", "l: list[int]", "return [x for x in reversed(l)]", [LI]),
    ("lp_enumerate", "l: list[int]", "return [(i, x) for i, x in enumerate(l)]", [LI]),
    ("lp_enumerate_start", "l: list[int]", "return [(i, x) for i, x in enumerate(l, 5)]", [LI]),
    ("lp_enumerate_stmt", "l: list[str]", "out: list[str] = []\n    for i, s in enumerate(l):\n        out.append(str(i) + s)\n    return out", [LS]),
    ("lp_zip", "l: list[int], m: list[str]", "return [(a, b) for a, b in zip(l, m)]", [LI, LS]),
    ("lp_zip3", "l: list[int], m: list[str]", "return [(a, b, c) for a, b, c in zip(l, m, l)]", [LI, LS]),
    ("lp_range1", "n: int", "return [i for i in range(n)]", [["0", "1", "4", "-2"]]),
    ("lp_range2", "a: int, b: int", "return [i for i in range(a, b)]", [["0", "-2", "3"], ["0", "2", "5", "-1"]]),
    ("lp_range3", "a: int, b: int", "return [i for i in range(a, b, 2)] + [i for i in range(b, a, -3)]", [["0", "-2", "3"], ["0", "7", "-5"]]),
    ("lp_range_len", "l: list[int]", "return [l[i] for i in range(len(l))]", [LI]),
    ("lp_reversed_range", "n: int", "return [i for i in reversed(range(n))]", [["0", "1", "4"]]),
    ("lp_while_break", "n: int", "i = 0\n    out: list[int] = []\n    while True:\n        if i >= n:\n            break\n        i += 1\n        if i % 2:\n            continue\n        out.append(i)\n    return out", [["0", "1", "5"]]),
    ("lp_for_else", "l: list[int], v: int", "for x in l:\n        if x == v:\n            return 'found'\n    else:\n        return 'else'", [LI, ["5", "9"]]),
    ("lp_loop_var_after", "n: int", "i = -1\n    for i in range(n):\n        pass\n    return i", [["0", "1", "4", "-2"]]),
    ("lp_loop_var_after2", "a: int, b: int", "i = -1\n    for i in range(a, b):\n        pass\n    return i", [["3"], ["3", "0", "5"]]),
    ("lp_loop_var_after_list", "l: list[int]", "x = -1\n    for x in l:\n        pass\n    return x", [LI]),
    ("lp_reassign_list", "l: list[int]", "out: list[int] = []\n    for x in l:\n        out.append(x)\n        l = [7, 8, 9]\n    return out", [["[1, 2, 3]", "[1]"]]),
    ("lp_reassign_str", "s: str", "out: list[str] = []\n    for c in s:\n        out.append(c)\n        s = 'xyz'\n    return out", [["'abc'", "'a'"]]),
    ("lp_reassign_tuple", "t: tuple[int, ...]", "out: list[int] = []\n    for x in t:\n        out.append(x)\n        t = (7, 8, 9)\n    return out", [["(1, 2, 3)"]]),
    ("lp_reassign_dict", "d: dict[str, int]", "out: list[str] = []\n    for k in d:\n        out.append(k)\n        d = {'p': 1, 'q': 2, 'r': 3}\n    return out", [["{'a': 1, 'b': 2}"]]),
    ("lp_dict_keys", "d: dict[str, int]", "return [k for k in d]", [DS]),
    ("lp_dict_items", "d: dict[str, int]", "return [(k, v) for k, v in d.items()]", [DS]),
    ("lp_dict_values", "d: dict[str, int]", "return [v for v in d.values()]", [DS]),
    ("lp_str", "s: str", "return [c for c in s]", [STRS]),
    ("lp_set_sorted", "s: set[int]", "return [x for x in sorted(s)]", [SETS]),
    ("lp_tuple", "t: tuple[int, ...]", "return [x * 2 for x in t]", [TUPS]),
    ("lp_nested", "l: list[int]", "return [(a, b) for a in l for b in l if a < b]", [LI]),
    ("lp_mutate_during", "l: list[int]", "out: list[int] = []\n    for x in l:\n        out.append(x)\n        if len(l) < 6:\n            l.append(x + 1)\n    return out", [LI]),
    # ---- str
    ("st_get", "s: str, i: int", "return s[i]", [STRS, IDX]),
    ("st_get_m1", "s: str", "return s[-1]", [STRS]),
    ("st_slice", "s: str, a: int, b: int", "return s[a:b]", [STRS, IDX[:6], IDX[:6]]),
    ("st_add", "s: str, t: str", "return s + t", [STRS, STRS]),
    ("st_mul", "s: str, n: int", "return s * n", [STRS, SMALL]),
    ("st_in", "s: str, t: str", "return s in t", [STRS, STRS]),
    ("st_cmp", "s: str, t: str", "return (s == t, s != t, s < t, s >= t)", [STRS, STRS]),
    ("st_find", "s: str, t: str", "return (s.find(t), s.rfind(t), s.count(t))", [STRS, STRS]),
    ("st_index", "s: str, t: str", "return s.index(t)", [STRS, STRS[1:]]),
    ("st_split", "s: str", "return (s.split(), s.split(','), s.rsplit(',', 1))", [STRS]),
    ("st_split_sep", "s: str, t: str", "return s.split(t)", [STRS, STRS]),
    ("st_join", "s: str, l: list[str]", "return s.join(l)", [STRS, LS]),
    ("st_replace", "s: str, a: str, b: str", "return s.replace(a, b)", [STRS, STRS[:4], STRS[:3]]),
    ("st_strip", "s: str", "return (s.strip(), s.lstrip(), s.rstrip(), s.strip('a'))", [STRS]),
    ("st_case", "s: str", "return (s.upper(), s.lower(), s.title(), s.capitalize())", [STRS]),
    ("st_starts", "s: str, t: str", "return (s.startswith(t), s.endswith(t))", [STRS, STRS]),
    ("st_starts_tuple", "s: str", "return s.startswith(('a', ' '))", [STRS]),
    ("st_len", "s: str", "return len(s)", [STRS]),
    ("st_bool", "s: str", "return 'y' if s else 'n'", [STRS]),
    ("st_ord", "s: str", "return ord(s)", [STRS]),
    ("st_chr", "i: int", "return chr(i)", [["0", "97", "233", "1114111", "1114112", "-1"]]),
    ("st_int", "s: str", "return int(s)", [["'12'", "'-7'", "' 3 '", "''", "'x'", "'1_0'", "'99999999999999999999'"]]),
    ("st_str", "i: int", "return str(i)", [INTS]),
    ("st_repr", "s: str", "return repr(s)", [STRS]),
    ("st_format", "s: str, i: int", "return f'{s}:{i}:{i:3d}:{s!r}'", [STRS, ["0", "-5", "1234"]]),
    ("st_percent", "s: str, i: int", "return '%s=%d' % (s, i)", [STRS, ["0", "-5"]]),
    ("st_dotformat", "s: str, i: int", "return '{}-{}'.format(s, i)", [STRS, ["0", "-5"]]),
    ("st_isx", "s: str", "return (s.isdigit(), s.isalpha(), s.isspace())", [STRS + ["'12'"]]),
    ("st_partition", "s: str", "return s.partition(',')", [STRS]),
    ("st_encode", "s: str", "return len(s.encode('utf-8'))", [STRS]),
    # ---- dict
    ("di_get", "d: dict[str, int], k: str", "return d[k]", [DS, KEYS]),
    ("di_get_m", "d: dict[str, int], k: str", "return d.get(k)", [DS, KEYS]),
    ("di_get_d", "d: dict[str, int], k: str", "return d.get(k, -1)", [DS, KEYS]),
    ("di_set", "d: dict[str, int], k: str", "d[k] = 9\n    return d", [DS, KEYS]),
    ("di_del", "d: dict[str, int], k: str", "del d[k]\n    return d", [DS, KEYS]),
    ("di_in", "d: dict[str, int], k: str", "return (k in d, k not in d)", [DS, KEYS]),
    ("di_pop", "d: dict[str, int], k: str", "x = d.pop(k)\n    return (x, d)", [DS, KEYS]),
    ("di_pop_d", "d: dict[str, int], k: str", "x = d.pop(k, -1)\n    return (x, d)", [DS, KEYS]),
    ("di_setdefault", "d: dict[str, int], k: str", "x = d.setdefault(k, 5)\n    return (x, d)", [DS, KEYS]),
    ("di_update", "d: dict[str, int], e: dict[str, int]", "d.update(e)\n    return d", [DS, DS]),
    ("di_len", "d: dict[str, int]", "return len(d)", [DS]),
    ("di_copy", "d: dict[str, int]", "e = d.copy()\n    e['n'] = 1\n    return (d, e)", [DS]),
    ("di_clear", "d: dict[str, int]", "d.clear()\n    return d", [DS]),
    ("di_popitem", "d: dict[str, int]", "x = d.popitem()\n    return (x, d)", [DS]),
    ("di_keys_list", "d: dict[str, int]", "return (list(d.keys()), list(d.values()), list(d.items()))", [DS]),
    ("di_comp", "l: list[int]", "return {x: x * x for x in l}", [LI]),
    ("di_merge", "d: dict[str, int], e: dict[str, int]", "return {**d, **e}", [DS, DS]),
    ("di_eq", "d: dict[str, int], e: dict[str, int]", "return d == e", [DS, DS]),
    ("di_or", "d: dict[str, int], e: dict[str, int]", "return d | e", [DS, DS]),
    # ---- set
    ("se_add", "s: set[int], v: int", "s.add(v)\n    return sorted(s)", [SETS, SMALL]),
    ("se_remove", "s: set[int], v: int", "s.remove(v)\n    return sorted(s)", [SETS, SMALL[:4]]),
    ("se_discard", "s: set[int], v: int", "s.discard(v)\n    return sorted(s)", [SETS, SMALL[:4]]),
    ("se_in", "s: set[int], v: int", "return v in s", [SETS, SMALL]),
    ("se_ops", "s: set[int], t: set[int]", "return (sorted(s | t), sorted(s & t), sorted(s - t), sorted(s ^ t))", [SETS, SETS]),
    ("se_cmp", "s: set[int], t: set[int]", "return (s == t, s <= t, s < t, s.isdisjoint(t))", [SETS, SETS]),
    ("se_len", "s: set[int]", "return len(s)", [SETS]),
    ("se_update", "s: set[int], l: list[int]", "s.update(l)\n    return sorted(s)", [SETS, LI]),
    ("se_comp", "l: list[int]", "return sorted({x % 3 for x in l})", [LI]),
    ("se_from_list", "l: list[int]", "return sorted(set(l))", [LI]),
    ("se_frozen", "l: list[int]", "return sorted(frozenset(l))", [LI]),
    ("se_clear", "s: set[int]", "s.clear()\n    return len(s)", [SETS]),
    # ---- tuple
    ("tu_get", "t: tuple[int, ...], i: int", "return t[i]", [TUPS, IDX[:6]]),
    ("tu_len", "t: tuple[int, ...]", "return len(t)", [TUPS]),
    ("tu_add", "t: tuple[int, ...], u: tuple[int, ...]", "return t + u", [TUPS, TUPS]),
    ("tu_in", "t: tuple[int, ...], v: int", "return v in t", [TUPS, SMALL[:4]]),
    ("tu_slice", "t: tuple[int, ...]", "return (t[1:], t[:-1], t[::-1])", [TUPS]),
    ("tu_fixed", "t: tuple[int, str]", "a, b = t\n    return (b, a, t[0], t[1], t == (a, b))", [["(1, 'a')", "(-5, '')"]]),
    ("tu_from_list", "l: list[int]", "return tuple(l)", [LI]),
    ("tu_cmp", "t: tuple[int, ...], u: tuple[int, ...]", "return (t == u, t < u)", [TUPS, TUPS]),
    ("tu_mul", "t: tuple[int, ...], n: int", "return t * n", [TUPS, SMALL[:4]]),
    # ---- int (value semantics are C15's; here: the exceptional paths and conversions)
    ("in_floordiv", "a: int, b: int", "return a // b", [INTS[:8], ["0", "1", "-1", "2", "-2", "7"]]),
    ("in_mod", "a: int, b: int", "return a % b", [INTS[:8], ["0", "1", "-1", "2", "-2", "7"]]),
    ("in_divmod", "a: int, b: int", "return divmod(a, b)", [INTS[:6], ["0", "2", "-2", "7"]]),
    ("in_truediv", "a: int, b: int", "return a / b", [INTS[:6], ["0", "2", "-4"]]),
    ("in_pow", "a: int, b: int", "return a ** b", [["0", "2", "-3", "10"], ["0", "1", "2", "5", "64"]]),
    ("in_pow3", "a: int, b: int", "return pow(a, b, 7)", [["0", "2", "-3", "10"], ["0", "1", "5"]]),
    ("in_shift", "a: int, b: int", "return (a << b, a >> b)", [INTS[:6], ["0", "1", "63", "64", "-1"]]),
    ("in_bool", "a: int", "return (bool(a), not a, 1 if a else 0)", [INTS]),
    ("in_float", "a: int", "return float(a)", [INTS]),
    ("in_from_float", "x: float", "return int(x)", [["0.0", "2.5", "-2.5", "1e30", "float('inf')", "float('nan')"]]),
    ("in_round", "x: float", "return (round(x), round(x, 1))", [["0.5", "1.5", "-2.5", "2.675"]]),
    ("in_abs_neg", "a: int", "return (abs(a), -a, +a, ~a)", [INTS]),
    ("in_chain", "a: int, b: int, c: int", "return (a < b < c, a <= b == c, a != b != c)", [SMALL[:4], SMALL[:4], SMALL[:4]]),
    ("in_minmax", "a: int, b: int", "return (min(a, b), max(a, b), min(a, b, 3))", [INTS[:6], INTS[:6]]),
    ("in_hex", "a: int", "return (hex(a), bin(a), oct(a))", [INTS[:8]]),
    ("in_bit_length", "a: int", "return a.bit_length()", [INTS]),
    # ---- exceptions / control flow
    ("ex_order", "k: int",
     "log: list[str] = []\n    try:\n        try:\n            log.append('a')\n            if k == 1:\n                raise ValueError('v')\n            if k == 2:\n                raise KeyError('k')\n            log.append('b')\n        except ValueError as e:\n            log.append('ve ' + str(e))\n            if k == 1:\n                raise RuntimeError('again') from e\n        else:\n            log.append('else')\n        finally:\n            log.append('fin')\n    except (KeyError, RuntimeError) as e2:\n        log.append(type(e2).__name__ + ' ' + str(e2) + ' ' + str(e2.__cause__ is not None))\n    return log",
     [["0", "1", "2"]]),
    ("ex_cause", "k: int", "try:\n        try:\n            raise KeyError('k')\n        except KeyError as e:\n            if k == 0:\n                raise ValueError('v') from e\n            if k == 1:\n                raise ValueError('v') from None\n            raise ValueError('v')\n    except ValueError as e2:\n        return (type(e2.__cause__).__name__, e2.__suppress_context__, type(e2.__context__).__name__)", [["0", "1", "2"]]),
    ("ex_finally_return", "k: int", "try:\n        if k:\n            raise ValueError('x')\n        return 'try'\n    except ValueError:\n        return 'except'\n    finally:\n        if k == 2:\n            return 'finally'", [["0", "1", "2"]]),
    ("ex_loop_finally", "n: int", "out: list[int] = []\n    try:\n        for i in range(n):\n            try:\n                if i == 3:\n                    raise KeyError(i)\n                out.append(i)\n            finally:\n                out.append(-i)\n    except KeyError as e:\n        out.append(100)\n    return out", [["0", "2", "5"]]),
    ("ex_loop_except_continue", "n: int", "out: list[int] = []\n    for i in range(n):\n        try:\n            if i % 2:\n                raise ValueError(str(i))\n            out.append(i)\n        except ValueError:\n            continue\n        out.append(-1)\n    return out", [["0", "2", "5"]]),
    ("ex_assert", "k: int", "assert k > 0, 'k must be positive: %d' % k\n    return k", [["1", "0", "-3"]]),
    ("ex_assert_nomsg", "k: int", "assert k > 0\n    return k", [["1", "0"]]),
    ("ex_args", "k: int", "try:\n        raise ValueError('a', k)\n    except ValueError as e:\n        return (str(e), e.args)", [["1"]]),
    ("ex_custom", "k: int", "try:\n        raise MyErr('boom')\n    except Exception as e:\n        return (type(e).__name__, str(e), isinstance(e, MyErr))", [["1"]]),
    ("ex_uncaught_custom", "k: int", "if k:\n        raise MyErr('boom %d' % k)\n    return 0", [["0", "3"]]),
    ("ex_nested_fn", "k: int", "def inner(q: int) -> int:\n        if q > 2:\n            raise IndexError('inner %d' % q)\n        return q + k\n    return [inner(i) for i in range(k)]", [["0", "2", "4"]]),
    ("ex_with", "k: int", "log: list[str] = []\n    try:\n        with Ctxm(log, k == 2) as c:\n            log.append('body ' + c)\n            if k:\n                raise ValueError('in with')\n    except ValueError as e:\n        log.append('caught ' + str(e))\n    return log", [["0", "1", "2"]]),
    ("pr_reflected_eq", "k: int", "del RLOG[:]\n    a: RfA = RfA(k)\n    b: RfA = RfB(k)\n    r = (a == b, b == a, a != b)\n    return (r, list(RLOG))", [["1"]]),
    ("pr_call_sub", "k: int", "return PrB(k, [1])(3)", [["5"]]),
    ("ge_basic", "n: int", "return list(count_up(n))", [["0", "3"]]),
    ("ge_send_next", "n: int", "it = count_up(n)\n    a = next(it, -1)\n    b = next(it, -1)\n    return (a, b, list(it))", [["0", "1", "4"]]),
    ("ge_stopiteration", "n: int", "it = count_up(n)\n    next(it)\n    return next(it)", [["0", "1", "3"]]),
    ("ge_closure", "n: int", "fs = [make_adder(i) for i in range(n)]\n    return [f(10) for f in fs]", [["0", "3"]]),
    ("ge_nonlocal", "n: int", "c = 0\n    def bump() -> int:\n        nonlocal c\n        c += n\n        return c\n    return [bump(), bump(), c]", [["1", "5"]]),
    ("ge_lambda_default", "n: int", "fs = [lambda q, i=i: q + i for i in range(n)]\n    return [f(1) for f in fs]", [["0", "3"]]),
]

PRELUDE = '''from typing import Callable, Iterator

class MyErr(Exception):
    pass

class Ctxm:
    def __init__(self, log: list[str], swallow: bool) -> None:
        self.log = log
        self.swallow = swallow
    def __enter__(self) -> str:
        self.log.append('enter')
        return 'c'
    def __exit__(self, a: object, b: object, c: object) -> bool:
        self.log.append('exit ' + ('None' if b is None else type(b).__name__))
        return self.swallow

class PrA:
    def __init__(self, key: int, items: list[int]) -> None:
        self.key = key
        self.items = items

class PrB(PrA):
    def __call__(self, x: int) -> int:
        return self.key * x

class RfA:
    def __init__(self, key: int) -> None:
        self.key = key
    def __eq__(self, other: object) -> bool:
        RLOG.append(type(self).__name__)
        return isinstance(other, RfA) and other.key == self.key
    def __hash__(self) -> int:
        return 1

class RfB(RfA):
    pass

RLOG: list[str] = []

def count_up(n: int) -> Iterator[int]:
    i = 0
    while i < n:
        yield i
        i += 1

def make_adder(k: int) -> Callable[[int], int]:
    def add(q: int) -> int:
        return q + k
    return add

'''

# exception messages known to differ: (regex, canonical replacement applied to both sides, shape of the known finding)
MESSAGE_RX = [
    (r"(?:string )?index out of range", "index out of range", "str-index-message"),
    (r"ValueError: (?:\S+|value) is not in list", "ValueError: <x> is not in list", "list-index-method-message"),
    (r"not enough values to unpack(?: \(expected at least \d+, got \d+\))?", "not enough values to unpack", "star-unpack-message"),
    (r"ord\(\) expected a character, but (?:a )?string of length", "ord() expected a character, but string of length", "ord-message"),
]


def known_shape(name: str, expr: str, interp: str, comp: str) -> str | None:
    """the narrow shape of a *known* difference, or None"""
    for rx, canon, sh in MESSAGE_RX:
        if interp.startswith("exc ") and re.sub(rx, canon, interp) == re.sub(rx, canon, comp):
            return sh
    if name.startswith("lp_loop_var_after") and interp == "ok -1" and comp in ("ok 0", "ok 3"):
        # ForRange.init assigns the loop variable from the start value before the first comparison
        return "range-loop-variable-assigned-when-range-is-empty"
    if name in ("lp_reassign_list", "lp_reassign_tuple") and interp in ("ok [1, 2, 3]", "ok [1]") and comp == "ok [1, 8, 9]":
        return "for-loop-sequence-variable-rebound-in-body"
    if name == "lp_reassign_str" and interp in ("ok ['a', 'b', 'c']", "ok ['a']") and comp == "ok ['a', 'y', 'z']":
        return "for-loop-sequence-variable-rebound-in-body"
    if name == "lp_reassign_dict" and interp == "ok ['a', 'b']" and \
            comp == "exc RuntimeError: dictionary changed size during iteration":
        return "for-loop-sequence-variable-rebound-in-body"
    if name == "pr_reflected_eq" and interp == "ok ((True, True, False), ['RfB', 'RfB', 'RfB'])" and \
            comp == "ok ((True, True, False), ['RfA', 'RfB', 'RfA'])":
        return "reflected-comparison-of-subclass-instance-not-tried-first"
    if name == "pr_call_sub" and interp == "ok 15" and comp != interp:
        # undefined behaviour (normally SIGSEGV): the subclass's object layout does not extend its base's
        return "call-introduced-in-subclass-breaks-object-layout"
    if name == "ex_order" and interp != comp and interp.replace("True", "False") == comp:
        return "raise-from-clause-ignored"
    if name == "ex_cause" and interp != comp and comp == "ok ('NoneType', False, 'KeyError')":
        # exactly what a plain `raise ValueError('v')` inside the handler gives
        return "raise-from-clause-ignored"
    return None


def source() -> str:
    out = [PRELUDE]
    for name, params, body, _ in BATTERY:
        out.append(f"def {name}({params}) -> object:\n    {body}\n")
    return "\n".join(out)


def run(ctx: Ctx, pool, col=None):
    """two-phase (generator)"""
    src = source()
    cache = os.path.join(ctx.tmp, "mypy_cache_vt")
    fr = front({"c05ops": src}, cache)
    if fr.modules is None:
        raise ToolFailure("ops battery does not compile: %r %r" % (fr.errors[:4], fr.crash))
    if col is not None:
        col.add_modules("ops-battery", fr.modules)
    opts = ["0", "3"]
    futs = []
    for opt in opts:
        d = os.path.join(ctx.tmp, f"ops_O{opt}")
        os.makedirs(d, exist_ok=True)
        with open(os.path.join(d, "c05ops.py"), "w") as fh:
            fh.write(src)
        futs.append((opt, d, pool.submit(compile_ext, d, ["c05ops.py"], opt)))
    jobs = []
    meta = []
    for name, params, body, pools in BATTERY:
        combos = list(itertools.product(*pools))
        if len(combos) > 60:
            combos = ctx.rng.sample(combos, 60)
        for c in combos:
            jobs.append((len(jobs), f"{name}({', '.join(c)})"))
            meta.append(name)
    yield
    ndiff = 0
    for opt, d, fut in futs:
        ok, log, secs = fut.result()
        if not ok:
            raise ToolFailure(f"mypyc could not compile the ops battery (opt {opt}):\n" + log[-2500:])
        res = run_worker(d, "c05ops", jobs, "ops", timeout=600)
        seen_fn = set()
        for (idx, expr), name in zip(jobs, meta):
            interp, comp = res[idx]
            ctx.case(("O", opt, expr))
            ctx.count("traces_validated_against_impl")
            ctx.dist("ops_group", name.split("_")[0])
            ctx.dist("ops_cpython_outcome", "ok" if interp.startswith("ok") else interp.split(":")[0][4:])
            if interp == comp:
                continue
            ndiff += 1
            ctx.count("disagreements_checked")
            shape = known_shape(name, expr, interp, comp)
            if name in seen_fn and shape is None:
                continue
            seen_fn.add(name)
            body = next(bd for n, _, bd, _ in BATTERY if n == name)
            obs = {"class": "primitive-op-differs", "shape": shape or "other", "function": name}
            report(ctx, "ops", obs, f"`{body.splitlines()[0]}` — {expr} (opt {opt}): compiled {comp[:160]}, CPython {interp[:160]}",
                   {"kind": "ops", "function": name, "call": expr, "opt": opt, "compiled": comp, "cpython": interp}, cap=8)
    ctx.coverage["ops_functions"] = len(BATTERY)
    ctx.coverage["ops_calls_per_opt_level"] = len(jobs)
    ctx.coverage["ops_differences"] = ndiff


def replay(ctx: Ctx, det: dict) -> None:
    d = os.path.join(ctx.tmp, "ops_replay")
    os.makedirs(d, exist_ok=True)
    with open(os.path.join(d, "c05ops.py"), "w") as fh:
        fh.write(source())
    ok, log, _ = compile_ext(d, ["c05ops.py"], det.get("opt", "0"))
    if not ok:
        print("compile failed:", log[-1500:])
        return
    res = run_worker(d, "c05ops", [(0, det["call"])], "rp")
    print("call     :", det["call"])
    print("CPython  :", res[0][0])
    print("compiled :", res[0][1])
