"""C05 search: generator of typed programs for the compiled-vs-interpreted differential.

One program = one module: native classes (single inheritance + traits, properties, a few dunders, an exception
class), functions over ints / bools / strs / lists / dicts / sets / tuples / Optional[class], generators, nested
functions and lambdas (closures, nonlocal), try/except/else/finally, loops over range / sequences / dicts /
enumerate / zip, comprehensions, container primitives.  Programs are well typed by construction (and checked by
mypy before they are compiled; a rejected program is counted and dropped).  Everything is derived from the
`random.Random` passed in.

`generate(rng, name)` returns (source, calls): `calls` are expressions the driver evaluates in the module's
namespace, each calling one top-level function with generated arguments."""
from __future__ import annotations

BIG = [2 ** 62, 2 ** 62 - 1, -2 ** 62, 2 ** 63 - 1, -2 ** 63, 2 ** 31, 2 ** 64 + 1, 10 ** 18]
INT, BOOL, STR, LI, LS, DSI, SI, TIS, FLT = "int", "bool", "str", "list[int]", "list[str]", "dict[str, int]", "set[int]", "tuple[int, str]", "float"
BASIC = [INT, INT, INT, BOOL, STR, STR, LI, LI, LS, DSI, SI, TIS]


class Cls:
    def __init__(self, name, trait, base, traits):
        self.name, self.trait, self.base, self.traits = name, trait, base, traits
        self.attrs: dict[str, str] = {}          # own attributes (name -> type), set in __init__
        self.methods: dict[str, tuple[list[tuple[str, str]], str]] = {}   # own: name -> (params, ret)
        self.props: dict[str, str] = {}
        self.dunders: set[str] = set()

    def ancestors(self, g) -> list["Cls"]:
        out = []
        if self.base:
            b = g.cls[self.base]
            out += [b] + b.ancestors(g)
        for t in self.traits:
            tt = g.cls[t]
            out += [tt] + tt.ancestors(g)
        return out

    def all_attrs(self, g) -> dict[str, str]:
        d: dict[str, str] = {}
        for c in reversed([self] + self.ancestors(g)):
            d.update(c.attrs)
        return d

    def all_methods(self, g):
        d = {}
        for c in reversed([self] + self.ancestors(g)):
            d.update(c.methods)
        return d

    def all_props(self, g):
        d = {}
        for c in reversed([self] + self.ancestors(g)):
            d.update(c.props)
        return d


class Gen:
    def __init__(self, rng, name: str):
        self.r = rng
        self.name = name
        self.cls: dict[str, Cls] = {}
        self.funcs: dict[str, tuple[list[tuple[str, str]], str]] = {}     # top-level functions: params, ret
        self.gens: dict[str, str] = {}                                    # generator functions: name -> item type
        self.out: list[str] = []
        self.nvar = 0
        self.feat: dict[str, int] = {}
        self.rw_props: set[str] = set()

    def f(self, k: str) -> None:
        self.feat[k] = self.feat.get(k, 0) + 1

    # ------------------------------------------------------------------ types
    def concrete(self) -> list[str]:
        return [c.name for c in self.cls.values() if not c.trait and c.name != "E0"]

    def subclasses(self, n: str) -> list[str]:
        return [c.name for c in self.cls.values() if not c.trait and (c.name == n or n in [a.name for a in c.ancestors(self)])]

    def rand_type(self, allow_cls=True) -> str:
        r = self.r
        if allow_cls and self.concrete() and r.random() < 0.2:
            k = r.choice([c for c in self.cls if c != "E0"])
            if self.subclasses(k):
                return k if r.random() < 0.7 else f"Optional[{k}]"
        return r.choice(BASIC)

    def fresh(self, ty: str) -> str:
        self.nvar += 1
        p = {INT: "i", BOOL: "b", STR: "s", LI: "li", LS: "ls", DSI: "d", SI: "st", TIS: "t", FLT: "x"}.get(ty, "o")
        return f"{p}{self.nvar}"

    # ------------------------------------------------------------ expressions
    def vars_of(self, env, ty):
        return [v for v, t in env.items() if t == ty]

    def lit(self, ty: str) -> str:
        r = self.r
        if ty == INT:
            return str(r.choice(BIG) + r.randint(-2, 2)) if r.random() < 0.12 else str(r.randint(-9, 40))
        if ty == BOOL:
            return r.choice(["True", "False"])
        if ty == STR:
            return repr(r.choice(["", "a", "bc", "Hello", "x y", "q,r,s", "zz9", "É", "ab" * 3, "\x1fq\x1c", "\u2003z ", "\x85t\x0b"]))
        if ty == FLT:
            return r.choice(["0.5", "2.0", "-1.25", "1e3"])
        if ty == LI:
            n = r.randint(0, 4)
            return "[" + ", ".join(self.lit(INT) for _ in range(n)) + "]" if n else "e_li()"
        if ty == LS:
            n = r.randint(0, 3)
            return "[" + ", ".join(self.lit(STR) for _ in range(n)) + "]" if n else "e_ls()"
        if ty == DSI:
            ks = r.sample(["a", "b", "c", "k", ""], r.randint(0, 3))
            return "{" + ", ".join(f"{k!r}: {self.lit(INT)}" for k in ks) + "}" if ks else "e_d()"
        if ty == SI:
            n = r.randint(0, 3)
            return "{" + ", ".join(str(r.randint(0, 9)) for _ in range(n)) + "}" if n else "e_si()"
        if ty == TIS:
            return f"({self.lit(INT)}, {self.lit(STR)})"
        if ty.startswith("Optional["):
            return "None" if r.random() < 0.4 else self.lit(ty[9:-1])
        return self.ctor(r.choice(self.subclasses(ty)))

    def ctor(self, k: str, env=None, depth=0) -> str:
        c = self.cls[k]
        attrs = c.all_attrs(self)
        args = [self.expr(t, env, depth + 1) if env is not None and depth < 2 else self.lit(t) for t in attrs.values()]
        return f"{k}({', '.join(args)})"

    def expr(self, ty: str, env: dict, depth: int = 0) -> str:
        r = self.r
        vs = self.vars_of(env, ty)
        if depth >= 3 or r.random() < 0.25:
            if vs and r.random() < 0.75:
                return r.choice(vs)
            if ty == BOOL:
                # never the literals True / False: mypy treats code guarded by them as unreachable and mypyc dies on
                # a lambda in such code (incidental finding, see README of the known findings)
                return f"({r.randint(0, 5)} {r.choice(['<', '==', '>='])} {r.randint(0, 5)})"
            return self.lit(ty)
        e = self.expr
        d = depth + 1
        if ty == INT:
            k = r.randint(0, 26)
            if k <= 3:
                return f"({e(INT, env, d)} {r.choice(['+', '-', '*', '+', '-'])} {e(INT, env, d)})"
            if k == 4:
                self.f("int-div-mod")
                return f"({e(INT, env, d)} {r.choice(['//', '%'])} {e(INT, env, d)})"       # may raise ZeroDivisionError
            if k == 5:
                return f"({e(INT, env, d)} {r.choice(['&', '|', '^'])} {e(INT, env, d)})"
            if k == 6:
                return f"({e(INT, env, d)} {r.choice(['<<', '>>'])} {r.randint(0, 66)})"
            if k == 7:
                return f"(-{e(INT, env, d)})"
            if k == 8:
                t = r.choice([LI, LS, STR, DSI, SI])
                return f"len({e(t, env, d)})"
            if k == 9:
                self.f("list-index")
                return f"{e(LI, env, d)}[{self.index(env, d)}]"                               # may raise IndexError
            if k == 10:
                self.f("dict-index")
                return f"{e(DSI, env, d)}[{e(STR, env, d)}]"                                  # may raise KeyError
            if k == 11:
                return f"{e(DSI, env, d)}.get({e(STR, env, d)}, {e(INT, env, d)})"
            if k == 12:
                return f"({e(INT, env, d)} if {e(BOOL, env, d)} else {e(INT, env, d)})"
            if k == 13:
                return f"{r.choice(['abs', 'int'])}({e(INT, env, d)})"
            if k == 14:
                return f"{r.choice(['min', 'max'])}({e(INT, env, d)}, {e(INT, env, d)})"
            if k == 15:
                return f"sum({e(LI, env, d)})"
            if k == 16:
                return f"int({e(BOOL, env, d)})"
            if k == 17:
                return f"{e(TIS, env, d)}[0]"
            if k == 18 and self.funcs:
                fn = r.choice(list(self.funcs))
                ps, ret = self.funcs[fn]
                if ret == INT:
                    self.f("call-function")
                    return f"{fn}({', '.join(e(t, env, d) for _, t in ps)})"
            if k in (19, 20):
                ov = [(v, t) for v, t in env.items() if t in self.cls]
                if ov:
                    v, t = r.choice(ov)
                    c = self.cls[t]
                    cands = [a for a, at in c.all_attrs(self).items() if at == INT] + \
                            [p for p, pt in c.all_props(self).items() if pt == INT]
                    ms = [(m, sig) for m, sig in c.all_methods(self).items() if sig[1] == INT]
                    if ms and r.random() < 0.6:
                        m, (ps, _) = r.choice(ms)
                        self.f("method-call")
                        return f"{v}.{m}({', '.join(e(pt, env, d) for _, pt in ps)})"
                    if cands:
                        self.f("attr-read")
                        return f"{v}.{r.choice(cands)}"
            if k == 21:
                self.f("str-find-count")
                return f"{e(STR, env, d)}.{r.choice(['find', 'count'])}({e(STR, env, d)})"
            if k == 22:
                return f"({e(INT, env, d)} ** {r.randint(0, 3)})"
            if k == 23:
                self.f("ord")
                return f"ord({e(STR, env, d)}[0])"                                            # may raise IndexError
            if k == 24 and self.gens:
                g, it = r.choice(list(self.gens.items()))
                if it == INT:
                    self.f("generator-consumed")
                    return f"sum({g}({r.randint(0, 6)}))"
            if k == 25:
                self.f("lambda-closure")
                return f"apply_fn(lambda q: q + {e(INT, env, d)}, {e(INT, env, d)})"
            return f"({e(INT, env, d)} + {self.lit(INT)})"
        if ty == BOOL:
            k = r.randint(0, 9)
            if k <= 2:
                a1, a2 = e(INT, env, d), e(INT, env, d)
                if a1 == a2:
                    a2 = f"({a2} + 1)"     # `x != x` on an int variable does not get through gcc -Werror (incidental)
                return f"({a1} {r.choice(['<', '<=', '==', '!=', '>', '>='])} {a2})"
            if k == 3:
                return f"({e(STR, env, d)} {r.choice(['==', '!=', '<', 'in'])} {e(STR, env, d)})"
            if k == 4:
                return f"({e(INT, env, d)} in {e(r.choice([LI, SI]), env, d)})"
            if k == 5:
                return f"({e(STR, env, d)} in {e(DSI, env, d)})"
            if k == 6:
                return f"(not {e(BOOL, env, d)})"
            if k == 7:
                return f"({e(BOOL, env, d)} {r.choice(['and', 'or'])} {e(BOOL, env, d)})"
            if k == 8:
                ov = [(v, t) for v, t in env.items() if t in self.cls or t.startswith("Optional[")]
                if ov:
                    v, t = r.choice(ov)
                    base = t[9:-1] if t.startswith("Optional[") else t
                    subs = [x for x in self.subclasses(base) if x != base or t.startswith("Optional[")]
                    if t.startswith("Optional[") and r.random() < 0.5:
                        return f"({v} is None)"
                    if subs:
                        self.f("isinstance")
                        return f"isinstance({v}, {r.choice(subs)})"
            if k == 9:
                a1, a2, a3 = e(INT, env, d), e(INT, env, d), e(INT, env, d)
                if a1 == a2 or a2 == a3:
                    a2 = f"({a2} + 1)"
                return f"({a1} < {a2} <= {a3})"
            return f"({e(LI, env, d)} == {e(LI, env, d)})"
        if ty == STR:
            k = r.randint(0, 13)
            if k <= 1:
                return f"({e(STR, env, d)} + {e(STR, env, d)})"
            if k == 2:
                return f"({e(STR, env, d)} * {r.randint(0, 3)})"
            if k == 3:
                return f"{e(STR, env, d)}.{r.choice(['upper', 'lower', 'strip', 'title'])}()"
            if k == 4:
                return f"{e(STR, env, d)}[{r.randint(-3, 2)}:{r.choice(['', '2', '-1', '5'])}]"
            if k == 5:
                return f"str({e(r.choice([INT, BOOL, LI, TIS]), env, d)})"
            if k == 6:
                self.f("f-string")
                a1, a2 = e(INT, env, d), e(STR, env, d)
                if any(ch in a1 + a2 for ch in "{}\"\\"):
                    return f"(str({a1}) + '-' + repr({a2}))"
                return 'f"{' + a1 + '}-{' + a2 + '!r}"'
            if k == 7:
                return f"{e(STR, env, d)}.join({e(LS, env, d)})"
            if k == 8:
                return f"{e(STR, env, d)}.replace({e(STR, env, d)}, {e(STR, env, d)})"
            if k == 9:
                self.f("str-index")
                return f"{e(STR, env, d)}[{self.index(env, d)}]"                               # may raise IndexError
            if k == 10:
                return f"{e(TIS, env, d)}[1]"
            if k == 11:
                return f"chr(97 + {e(INT, env, d)} % 26)"
            if k == 12:
                return f"('%s/%d' % ({e(STR, env, d)}, {e(INT, env, d)}))"
            return f"({e(STR, env, d)} if {e(BOOL, env, d)} else {e(STR, env, d)})"
        if ty == FLT:
            return f"({e(INT, env, d)} / {r.choice(['2', '4', '-8'])})"
        if ty == LI:
            k = r.randint(0, 10)
            if k == 0:
                return f"({e(LI, env, d)} + {e(LI, env, d)})"
            if k == 1:
                self.f("list-comprehension")
                return f"[{e(INT, dict(env, q=INT), d)} for q in range({r.randint(0, 5)})]"
            if k == 2:
                self.f("list-comprehension")
                return f"[q * 2 for q in {e(LI, env, d)} if q % 2 == {r.randint(0, 1)}]"
            if k == 3:
                return f"{e(LI, env, d)}[{r.randint(-2, 2)}:{r.choice(['', '3', '-1'])}]"
            if k == 4:
                return f"sorted({e(r.choice([LI, SI]), env, d)})"
            if k == 5:
                return f"list(range({r.randint(-2, 6)}))"
            if k == 6:
                return f"list({e(DSI, env, d)}.values())"
            if k == 7:
                return f"({e(LI, env, d)} * {r.randint(0, 2)})"
            if k == 8 and self.gens:
                g, it = r.choice(list(self.gens.items()))
                if it == INT:
                    self.f("generator-consumed")
                    return f"list({g}({r.randint(0, 6)}))"
            if k == 9:
                self.f("sorted-key-lambda")
                return f"sorted({e(LI, env, d)}, key=neg)"
            if k == 10:
                return f"[len(q) for q in {e(LS, env, d)}]"
            return self.lit(LI)
        if ty == LS:
            k = r.randint(0, 5)
            if k == 0:
                return f"{e(STR, env, d)}.split({r.choice(['', repr(','), repr(' ')])})"
            if k == 1:
                return f"[str(q) for q in {e(LI, env, d)}]"
            if k == 2:
                return f"sorted({e(DSI, env, d)})"
            if k == 3:
                return f"({e(LS, env, d)} + [{e(STR, env, d)}])"
            if k == 4:
                return f"list({e(DSI, env, d)}.keys())"
            return self.lit(LS)
        if ty == DSI:
            k = r.randint(0, 3)
            if k == 0:
                self.f("dict-comprehension")
                return f"{{str(q): q * q for q in {e(LI, env, d)}}}"
            if k == 1:
                return f"dict({e(DSI, env, d)})"
            if k == 2:
                return f"{{q: len(q) for q in {e(LS, env, d)}}}"
            return self.lit(DSI)
        if ty == SI:
            k = r.randint(0, 3)
            if k == 0:
                return f"set({e(LI, env, d)})"
            if k == 1:
                self.f("set-comprehension")
                return f"{{q % 5 for q in {e(LI, env, d)}}}"
            if k == 2:
                return f"({e(SI, env, d)} {r.choice(['|', '&', '-'])} {e(SI, env, d)})"
            return self.lit(SI)
        if ty == TIS:
            return f"({e(INT, env, d)}, {e(STR, env, d)})"
        if ty.startswith("Optional["):
            if r.random() < 0.3:
                return "None"
            return e(ty[9:-1], env, d)
        if ty in self.cls:
            subs = self.subclasses(ty)
            vs2 = [v for v, t in env.items() if t in subs]
            if vs2 and r.random() < 0.5:
                return r.choice(vs2)
            self.f("construct")
            return self.ctor(r.choice(subs), env, d)
        return self.lit(ty)

    def index(self, env, d) -> str:
        """an index in [-4, 4]: out of range for short sequences, but never beyond ssize_t (an index that does
        not fit a machine word raises OverflowError compiled / IndexError interpreted: known finding, probed
        separately in prog.PROBES so that it does not derail whole programs)"""
        ex = self.expr(INT, env, d)
        return ex if ex.lstrip("-").isdigit() and abs(int(ex)) < 100 else f"(({ex}) % 9 - 4)"

    def show(self, v: str, ty: str) -> str:
        """expression of type str describing value v"""
        if ty in self.cls or ty.startswith("Optional["):
            return f"show({v})"
        if ty == SI:
            return f"str(sorted({v}))"
        return f"repr({v})"

    # -------------------------------------------------------------- statements
    def bounded(self, ty: str, ex: str) -> str:
        if ty == INT:
            return f"({ex}) % 1000003"
        if ty == STR:
            return f"({ex})[:24]"
        if ty in (LI, LS):
            return f"({ex})[:12]"
        return ex

    def block(self, env: dict, depth: int, ind: str, ctx: dict) -> list[str]:
        r = self.r
        L: list[str] = []
        n = r.randint(1, 4) if depth else r.randint(3, 7)
        for _ in range(n):
            k = r.randint(0, 30)
            mut = [v for v in env if not v.startswith("p_") or True]
            if k <= 4:                                          # new variable
                ty = self.rand_type()
                v = self.fresh(ty)
                L.append(f"{ind}{v}: {ty} = {self.expr(ty, env)}")
                env[v] = ty
            elif k <= 7 and env:                                # reassign / augmented assign
                v = r.choice([x for x in env if x != "self"] or ["_"])
                if v == "_" or v in ctx.get("frozen", ()):
                    continue
                ty = env[v]
                if ty in (INT, STR, LI) and r.random() < 0.5:
                    self.f("augmented-assign")
                    op = "+=" if ty != INT else r.choice(["+=", "-=", "*=", "//=", "|=", "%="])
                    rhs = self.expr(ty, env, 1)
                    if ctx.get("loop") and ty != INT:
                        L.append(f"{ind}{v} = {self.bounded(ty, v + ' + ' + rhs)}")
                    elif ctx.get("loop") and op == "*=":
                        L.append(f"{ind}{v} = ({v} * {rhs}) % 1000003")
                    else:
                        L.append(f"{ind}{v} {op} {rhs}")
                else:
                    ex = self.expr(ty, env)
                    L.append(f"{ind}{v} = {self.bounded(ty, ex) if ctx.get('loop') else ex}")
            elif k == 8:
                v = r.choice(list(env)) if env else None
                if v and v != "self":
                    L.append(f"{ind}log({self.show(v, env[v])})")
            elif k <= 10 and depth < 3:                          # if / elif / else
                self.f("if")
                L.append(f"{ind}if {self.expr(BOOL, env)}:")
                L += self.block(dict(env), depth + 1, ind + "    ", ctx)
                # only the first branch may return: code after an if/else whose branches all return is unreachable
                # for mypy, and mypyc's behaviour on unchecked code is not the subject (it can even crash on it)
                noret = dict(ctx, ret=None)
                if r.random() < 0.3:
                    L.append(f"{ind}elif {self.expr(BOOL, env)}:")
                    L += self.block(dict(env), depth + 1, ind + "    ", noret)
                if r.random() < 0.5:
                    L.append(f"{ind}else:")
                    L += self.block(dict(env), depth + 1, ind + "    ", noret)
            elif k == 11 and depth < 2:                          # Optional narrowing
                ov = [v for v, t in env.items() if t.startswith("Optional[")]
                if ov:
                    self.f("optional-narrowing")
                    v = r.choice(ov)
                    L.append(f"{ind}if {v} is not None:")
                    e2 = dict(env); e2[v] = env[v][9:-1]
                    fz = dict(ctx, frozen=set(ctx.get("frozen", ())) | {v})
                    L += self.block(e2, depth + 1, ind + "    ", fz)
            elif k == 12 and depth < 2:                          # isinstance narrowing
                ov = [(v, t) for v, t in env.items() if t in self.cls and len(self.subclasses(t)) > 1]
                if ov:
                    self.f("isinstance-narrowing")
                    v, t = r.choice(ov)
                    sub = r.choice(self.subclasses(t))
                    L.append(f"{ind}if isinstance({v}, {sub}):")
                    e2 = dict(env); e2[v] = sub
                    fz = dict(ctx, frozen=set(ctx.get("frozen", ())) | {v})
                    L += self.block(e2, depth + 1, ind + "    ", fz)
            elif k <= 14 and depth < 2:                          # for loops
                self.f("for")
                kind = r.randint(0, 6)
                e2 = dict(env)
                c2 = dict(ctx, loop=True)
                its: list[str] = []       # iterable operands of this loop

                def it(ty: str) -> str:
                    ex = self.expr(ty, env, 2)
                    its.append(ex)
                    return ex
                if kind == 0:
                    v = self.fresh(INT)
                    a = r.choice(["", f"{r.randint(-3, 3)}, "])
                    st = r.choice(["", "", f", {r.choice([2, 3, -1, -2])}"]) if a else ""
                    L.append(f"{ind}for {v} in range({a}{self.expr(INT, env, 2)} % 7{st}):")
                    e2[v] = INT
                elif kind == 1:
                    v = self.fresh(INT)
                    L.append(f"{ind}for {v} in {it(r.choice([LI, LI, SI]))}:")
                    e2[v] = INT
                elif kind == 2:
                    v = self.fresh(STR)
                    L.append(f"{ind}for {v} in {it(r.choice([LS, DSI, STR]))}:")
                    e2[v] = STR
                elif kind == 3:
                    v, w = self.fresh(INT), self.fresh(STR)
                    self.f("enumerate")
                    L.append(f"{ind}for {v}, {w} in enumerate({it(LS)}):")
                    e2[v] = INT; e2[w] = STR
                elif kind == 4:
                    v, w = self.fresh(STR), self.fresh(INT)
                    self.f("dict-items")
                    L.append(f"{ind}for {v}, {w} in {it(DSI)}.items():")
                    e2[v] = STR; e2[w] = INT
                elif kind == 5:
                    v, w = self.fresh(INT), self.fresh(STR)
                    self.f("zip")
                    L.append(f"{ind}for {v}, {w} in zip({it(LI)}, {it(LS)}):")
                    e2[v] = INT; e2[w] = STR
                else:
                    gi = [g for g, it_ in self.gens.items() if it_ == INT]
                    v = self.fresh(INT)
                    if gi:
                        self.f("for-over-generator")
                        L.append(f"{ind}for {v} in {r.choice(gi)}({r.randint(0, 6)}):")
                    else:
                        L.append(f"{ind}for {v} in range(3):")
                    e2[v] = INT
                # a sequence *variable* iterated by the loop is not rebound in the body: compiled code would go on
                # with the new object (known finding C05-N7, probed in ops.py) and the whole program would diverge
                c2["frozen"] = set(c2.get("frozen", ())) | {x for x in its if x in env}
                body = self.block(e2, depth + 1, ind + "    ", c2)
                # (nothing after a `return`: mypy does not check unreachable code and mypyc can emit invalid C for it)
                if r.random() < 0.3 and not body[-1].startswith(ind + "    return"):
                    body.append(f"{ind}    if {self.expr(BOOL, e2, 2)}:")
                    body.append(f"{ind}        {r.choice(['break', 'continue'])}")
                L += body
                if r.random() < 0.15:
                    self.f("for-else")
                    L.append(f"{ind}else:")
                    L.append(f"{ind}    log('for-else')")
            elif k == 15 and depth < 2:                          # while
                self.f("while")
                v = self.fresh(INT)
                L.append(f"{ind}{v}: int = 0")
                env[v] = INT
                L.append(f"{ind}while {v} < {r.randint(1, 5)}:")
                L.append(f"{ind}    {v} += 1")
                fz = dict(ctx, loop=True, frozen=set(ctx.get("frozen", ())) | {v})
                L += self.block(dict(env), depth + 1, ind + "    ", fz)
            elif k <= 17 and depth < 2:                          # try
                self.f("try")
                L.append(f"{ind}try:")
                # the body starts with a call: a try body that cannot raise at all (`try: return 1`) makes the handler
                # and everything after the statement dead code, and mypyc then emits C that does not compile
                # (undeclared registers; incidental finding, see the report)
                body = [f"{ind}    log('try')"] + self.block(dict(env), depth + 1, ind + "    ", ctx)
                if r.random() < 0.4 and not body[-1].startswith(ind + "    return"):
                    exc = r.choice(["ValueError", "KeyError", "E0", "IndexError", "RuntimeError"])
                    self.f("raise")
                    body.append(f"{ind}    if {self.expr(BOOL, env, 2)}:")
                    body.append(f"{ind}        raise {exc}({self.expr(STR, env, 2)})")
                L += body
                excs = r.choice(["(ValueError, KeyError)", "IndexError", "Exception", "ZeroDivisionError", "(KeyError, IndexError, E0)", "E0"])
                ev = self.fresh("exc")
                L.append(f"{ind}except {excs} as {ev}:")
                L.append(f"{ind}    log(type({ev}).__name__ + ':' + str({ev}))")
                if r.random() < 0.3:
                    self.f("reraise")
                    L.append(f"{ind}    if {self.expr(BOOL, env, 2)}:")
                    L.append(f"{ind}        raise")
                if r.random() < 0.25 and not any(x.startswith(ind + "    return") for x in body):
                    # (an `else:` after a try body that always returns is unreachable: mypyc emits invalid C for it)
                    self.f("try-else")
                    L.append(f"{ind}else:")
                    L.append(f"{ind}    log('no-exc')")
                if r.random() < 0.35:
                    self.f("finally")
                    L.append(f"{ind}finally:")
                    L.append(f"{ind}    log('fin')")
            elif k == 18:                                        # container mutation
                lv = self.vars_of(env, LI)
                if lv:
                    self.f("list-mutation")
                    v = r.choice(lv)
                    L.append(ind + r.choice([
                        f"{v}.append({self.expr(INT, env, 2)})",
                        f"{v}.extend({self.expr(LI, env, 2)}[:4])",
                        f"{v}.insert({r.randint(-2, 3)}, {self.expr(INT, env, 2)})",
                        f"{v}.reverse()", f"{v}.sort()",
                        f"log(repr({v}.pop()))",                                               # may raise IndexError
                        f"{v}[{self.index(env, 2)}] = {self.expr(INT, env, 2)}",              # may raise IndexError
                        f"{v}.remove({self.expr(INT, env, 2)})",                               # may raise ValueError
                    ]))
            elif k == 19:
                dv = self.vars_of(env, DSI)
                if dv:
                    self.f("dict-mutation")
                    v = r.choice(dv)
                    L.append(ind + r.choice([
                        f"{v}[{self.expr(STR, env, 2)}] = {self.expr(INT, env, 2)}",
                        f"{v}.update({self.expr(DSI, env, 2)})",
                        f"log(repr({v}.pop({self.expr(STR, env, 2)}, -1)))",
                        f"del {v}[{self.expr(STR, env, 2)}]",                                  # may raise KeyError
                        f"log(repr({v}.setdefault({self.expr(STR, env, 2)}, {self.expr(INT, env, 2)})))",
                        f"{v}.clear()",
                    ]))
            elif k == 20:
                sv = self.vars_of(env, SI)
                if sv:
                    self.f("set-mutation")
                    v = r.choice(sv)
                    L.append(ind + r.choice([f"{v}.add({self.expr(INT, env, 2)})", f"{v}.discard({self.expr(INT, env, 2)})",
                                             f"{v}.remove({self.expr(INT, env, 2)})", f"{v}.update({self.expr(LI, env, 2)}[:3])"]))
            elif k == 21:                                        # attribute write / property set
                ov = [(v, t) for v, t in env.items() if t in self.cls and v not in ctx.get("frozen", ())]
                if ov:
                    v, t = r.choice(ov)
                    attrs = self.cls[t].all_attrs(self)
                    if attrs:
                        self.f("attr-write")
                        a = r.choice(list(attrs))
                        ex = self.expr(attrs[a], env, 1)
                        L.append(f"{ind}{v}.{a} = {self.bounded(attrs[a], ex) if ctx.get('loop') else ex}")
            elif k == 22:                                        # method call as statement
                ov = [(v, t) for v, t in env.items() if t in self.cls]
                if ov:
                    v, t = r.choice(ov)
                    ms = self.cls[t].all_methods(self)
                    if ms:
                        m = r.choice(list(ms))
                        ps, ret = ms[m]
                        self.f("method-call")
                        call = f"{v}.{m}({', '.join(self.expr(pt, env, 2) for _, pt in ps)})"
                        L.append(f"{ind}log({self.show(call, ret)})" if ret != "None" else f"{ind}{call}")
            elif k == 23 and depth < 2 and not ctx.get("nested"):  # nested function with closure
                self.f("nested-function")
                fn = self.fresh("fn").replace("o", "inner")
                cap = r.choice(self.vars_of(env, INT) or ["0"])
                L.append(f"{ind}def {fn}(q: int) -> int:")
                if r.random() < 0.4 and cap != "0" and cap not in ctx.get("frozen", ()) and not cap.startswith("p_") and ctx.get("fn"):
                    self.f("nonlocal")
                    L.append(f"{ind}    nonlocal {cap}")
                    L.append(f"{ind}    {cap} = ({cap} + q) % 1000003")
                    L.append(f"{ind}    return {cap}")
                else:
                    L.append(f"{ind}    return q * 2 + {cap}")
                L.append(f"{ind}log(repr({fn}({self.expr(INT, env, 2)})))")
                if r.random() < 0.5:
                    L.append(f"{ind}log(repr([{fn}(q) for q in range(3)]))")
            elif k == 24:
                self.f("assert")
                L.append(f"{ind}assert {self.expr(BOOL, env, 2)}, {self.expr(STR, env, 2)}")
            elif k == 25:
                tv = self.vars_of(env, TIS)
                if tv:
                    self.f("tuple-unpack")
                    a, b = self.fresh(INT), self.fresh(STR)
                    L.append(f"{ind}{a}, {b} = {r.choice(tv)}")
                    env[a] = INT; env[b] = STR
            elif k == 26 and self.gens:
                g, it = r.choice(list(self.gens.items()))
                self.f("next-on-generator")
                v = self.fresh("it")
                L.append(f"{ind}{v} = {g}({r.randint(0, 4)})")
                L.append(f"{ind}log(repr(next({v}, {self.lit(it)})))")
                L.append(f"{ind}log(repr(next({v}, {self.lit(it)})))")
            elif k == 27 and ctx.get("ret") and depth > 0:
                L.append(f"{ind}return {self.expr(ctx['ret'], env)}")
                break
            elif k == 28 and self.funcs:
                fn = r.choice(list(self.funcs))
                ps, ret = self.funcs[fn]
                self.f("call-function")
                call = fn + '(' + ', '.join(self.expr(t, env, 2) for _, t in ps) + ')'
                L.append(f"{ind}log({self.show(call, ret)})" if ret != "None" else f"{ind}{call}")
            elif k == 29 and depth < 2:
                self.f("with")
                L.append(f"{ind}with CM({self.expr(STR, env, 2)}) as {self.fresh(STR)}:")
                L += self.block(dict(env), depth + 1, ind + "    ", ctx)
            else:
                v = self.fresh(INT)
                L.append(f"{ind}{v}: int = {self.expr(INT, env)}")
                env[v] = INT
        if not L:
            L.append(f"{ind}pass")
        return L

    # ------------------------------------------------------------------ classes
    def gen_classes(self) -> None:
        r = self.r
        o = self.out
        o += ["class E0(Exception):", "    pass", ""]
        self.cls["E0"] = Cls("E0", False, None, [])
        o += ["class CM:", "    def __init__(self, tag: str) -> None:", "        self.tag = tag",
              "    def __enter__(self) -> str:", "        log('enter ' + self.tag)", "        return self.tag",
              "    def __exit__(self, a: object, b: object, c: object) -> None:", "        log('exit ' + self.tag)", ""]
        n = r.randint(2, 5)
        for i in range(n):
            trait = r.random() < 0.3
            name = f"{'T' if trait else 'K'}{i}"
            nontr = [c.name for c in self.cls.values() if not c.trait and c.name != "E0"]
            trs = [c.name for c in self.cls.values() if c.trait]
            base = r.choice(nontr) if (not trait and nontr and r.random() < 0.6) else None
            traits = []
            if trs and r.random() < 0.5:
                cand = r.choice(trs)
                anc = [a.name for a in (self.cls[base].ancestors(self) if base else [])]
                if cand not in anc:
                    traits = [cand]
            c = Cls(name, trait, base, traits)
            self.cls[name] = c
            inherited_attrs = c.all_attrs(self)
            inherited_m = c.all_methods(self)
            inherited_p = c.all_props(self)
            if not trait:
                for j in range(r.randint(0 if inherited_attrs else 1, 2)):
                    c.attrs[f"a{i}{j}"] = r.choice([INT, INT, STR, LI])
            if trait:
                o.append("@trait")
            bases = ([base] if base else []) + traits
            o.append(f"class {name}({', '.join(bases)}):" if bases else f"class {name}:")
            body: list[str] = []
            if not trait:
                allattrs = c.all_attrs(self)
                params = ", ".join(f"{a}: {t}" for a, t in allattrs.items())
                body.append(f"    def __init__(self{', ' + params if params else ''}) -> None:")
                if base and self.cls[base].all_attrs(self) and r.random() < 0.7:
                    self.f("super-init")
                    body.append(f"        super().__init__({', '.join(self.cls[base].all_attrs(self))})")
                    rest = {a: t for a, t in allattrs.items() if a not in self.cls[base].all_attrs(self)}
                else:
                    rest = allattrs
                for a in rest:
                    body.append(f"        self.{a} = {a}")
                if not rest and not (base and self.cls[base].all_attrs(self)):
                    body.append("        pass")
            env0 = {"self": name}
            selfattrs = c.all_attrs(self)
            # methods: some new, some overriding (same signature)
            for j in range(r.randint(1, 3)):
                if inherited_m and r.random() < 0.5:
                    m = r.choice(list(inherited_m))
                    ps, ret = inherited_m[m]
                    self.f("method-override")
                else:
                    m = f"m{i}{j}"
                    ps = [(f"p_{q}", r.choice([INT, STR, BOOL, LI])) for q in range(r.randint(0, 2))]
                    ret = r.choice([INT, INT, STR, BOOL, LI, "None"])
                if m in c.methods:
                    continue
                c.methods[m] = (ps, ret)
                body.append(f"    def {m}(self{''.join(', ' + p + ': ' + t for p, t in ps)}) -> {ret}:")
                env = dict(env0)
                env.update({p: t for p, t in ps})
                env.update({f"self.{a}": t for a, t in selfattrs.items()} if not trait else {})
                mb: list[str] = []
                if m in inherited_m and r.random() < 0.5 and (base and m in self.cls[base].all_methods(self)):
                    self.f("super-call")
                    call = f"super().{m}({', '.join(p for p, _ in ps)})"
                    mb.append(f"        log({self.show(call, ret)})" if ret != "None" else f"        {call}")
                envm = {k: v for k, v in env.items() if k != "self"}
                mb += self.block(envm, 1, "        ", {"ret": ret if ret != "None" else None, "fn": False, "nested": True,
                                                       "frozen": {p for p, _ in ps}})
                if ret != "None" and not mb[-1].startswith("        return"):
                    mb.append(f"        return {self.expr(ret, envm)}")
                body += mb
            # property
            if r.random() < 0.5 and not trait and selfattrs:
                p = f"pr{i}"
                pt = r.choice([INT, STR])
                c.props[p] = pt
                self.f("property")
                envp = {f"self.{a}": t for a, t in selfattrs.items()}
                body += ["    @property", f"    def {p}(self) -> {pt}:", f"        return {self.expr(pt, envp, 1)}"]
                ia = [a for a, t in selfattrs.items() if t == pt]
                if ia and r.random() < 0.5:
                    self.rw_props.add(p)
                    self.f("property-setter")
                    body += [f"    @{p}.setter", f"    def {p}(self, v: {pt}) -> None:", f"        self.{ia[0]} = v"]
            elif trait and r.random() < 0.5:
                p = f"pr{i}"
                c.props[p] = INT
                self.f("trait-property")
                body += ["    @property", f"    def {p}(self) -> int:", f"        return {r.randint(0, 9)}"]
            for p0 in inherited_p:
                if p0 not in c.props and p0 not in self.rw_props and r.random() < 0.3 and not trait and selfattrs:
                    self.f("property-override")
                    c.props[p0] = inherited_p[p0]
                    envp = {f"self.{a}": t for a, t in selfattrs.items()}
                    body += ["    @property", f"    def {p0}(self) -> {inherited_p[p0]}:",
                             f"        return {self.expr(inherited_p[p0], envp, 1)}"]
            if not trait and r.random() < 0.4:
                ia = [a for a, t in selfattrs.items() if t == INT]
                la = [a for a, t in selfattrs.items() if t == LI]
                dk = r.choice(["__len__", "__eq__", "__bool__", "__getitem__", "__add__", "__str__", "__contains__"])
                if dk not in c.dunders:
                    if dk == "__len__" and la:
                        body += ["    def __len__(self) -> int:", f"        return len(self.{la[0]})"]
                    elif dk == "__eq__" and ia:
                        body += ["    def __eq__(self, other: object) -> bool:",
                                 f"        return isinstance(other, {name}) and self.{ia[0]} == other.{ia[0]}"]
                    elif dk == "__bool__" and ia:
                        body += ["    def __bool__(self) -> bool:", f"        return self.{ia[0]} > 0"]
                    elif dk == "__getitem__" and la:
                        body += ["    def __getitem__(self, i: int) -> int:", f"        return self.{la[0]}[i]"]
                    elif dk == "__add__" and ia:
                        body += ["    def __add__(self, other: int) -> int:", f"        return self.{ia[0]} + other"]
                    elif dk == "__str__":
                        body += ["    def __str__(self) -> str:", f"        return '{name}!'"]
                    elif dk == "__contains__" and la:
                        body += ["    def __contains__(self, x: int) -> bool:", f"        return x in self.{la[0]}"]
                    else:
                        dk = ""
                    if dk:
                        c.dunders.add(dk)
                        self.f("dunder " + dk)
            if not body:
                body = ["    pass"]
            o += body
            o.append("")

    # ---------------------------------------------------------------- functions
    def gen_generator(self, idx: int) -> None:
        r = self.r
        name = f"gen{idx}"
        it = INT
        self.out.append(f"def {name}(n: int) -> Iterator[int]:")
        env = {"n": INT}
        L = []
        style = r.randint(0, 3)
        if style == 0:
            L += ["    for q in range(n):", f"        yield {self.expr(INT, dict(env, q=INT), 2)}"]
        elif style == 1:
            self.f("generator-try-finally")
            L += ["    try:", "        for q in range(n):", "            if q == 4:", "                return",
                  f"            yield q * {r.randint(1, 5)}", "    finally:", f"        log('{name} done')"]
        elif style == 2:
            L += ["    k = 0", "    while k < n:", "        k += 1", "        if k % 2:", "            continue", "        yield k",
                  f"    yield {self.lit(INT)}"]
        else:
            self.f("yield-from")
            L += [f"    yield from range(n)", f"    yield from [{self.lit(INT)}, {self.lit(INT)}]"]
        self.out += L + [""]
        self.gens[name] = it
        self.f("generator")

    def gen_function(self, idx: int) -> None:
        r = self.r
        name = f"f{idx}"
        ps = [(f"p_{q}", self.rand_type()) for q in range(r.randint(0, 3))]
        ret = r.choice([INT, INT, STR, BOOL, LI, DSI, TIS, "None"] + ([r.choice(self.concrete())] if self.concrete() and r.random() < 0.3 else []))
        sig = ", ".join(f"{p}: {t}" for p, t in ps)
        self.out.append(f"def {name}({sig}) -> {ret}:")
        env = {p: t for p, t in ps}
        body = self.block(env, 0, "    ", {"ret": ret if ret != "None" else None, "fn": True, "frozen": set()})
        if ret != "None":
            body.append(f"    return {self.expr(ret, env)}")
        self.out += body + [""]
        self.funcs[name] = (ps, ret)

    def arg_value(self, ty: str) -> str:
        r = self.r
        if ty.startswith("Optional["):
            return "None" if r.random() < 0.3 else self.arg_value(ty[9:-1])
        if ty in self.cls:
            return self.ctor(r.choice(self.subclasses(ty)))
        return self.lit(ty)


PRELUDE = '''from typing import Callable, Iterator, Optional
from mypy_extensions import trait

LOG: list[str] = []

def log(x: str) -> None:
    LOG.append(x)

def apply_fn(fn: Callable[[int], int], x: int) -> int:
    return fn(x)

def neg(q: int) -> int:
    return -q

def e_li() -> list[int]:
    return []

def e_ls() -> list[str]:
    return []

def e_d() -> dict[str, int]:
    return {}

def e_si() -> set[int]:
    return set()

'''


def generate(rng, name: str, split: bool = False):
    """Returns ({module name: source}, main module name, calls, features).  With `split` the classes, helpers and
    generators live in `<name>_lib` and the functions in `<name>` import them (cross-module native calls,
    inheritance and attribute access when compiled)."""
    g = Gen(rng, name)
    g.out = []
    g.gen_classes()
    # `show` knows the classes of this module
    show = ["def show(x: object) -> str:", "    if x is None:", "        return 'None'"]
    for c in g.cls.values():
        if c.trait or c.name == "E0":
            continue
    # most-derived first so that isinstance picks the runtime class
    order = sorted([c for c in g.cls.values() if not c.trait and c.name != "E0"], key=lambda c: -len(c.ancestors(g)))
    for c in order:
        attrs = c.all_attrs(g)
        parts = " + ',' + ".join(f"repr(x.{a})" for a in attrs) or "''"
        show += [f"    if isinstance(x, {c.name}):", f"        return '<{c.name} ' + {parts} + '>'"]
    show += ["    return repr(x)", ""]
    classes_src = g.out
    g.out = []
    ngen = rng.randint(1, 2)
    for i in range(ngen):
        g.gen_generator(i)
    nf = rng.randint(3, 5)
    for i in range(nf):
        g.gen_function(i)
    fn_start = next(i for i, l in enumerate(g.out) if l.startswith("def f0("))
    lib_part = PRELUDE + "\n".join(classes_src) + "\n" + "\n".join(show) + "\n" + "\n".join(g.out[:fn_start]) + "\n"
    main_part = "\n".join(g.out[fn_start:]) + "\n"
    if split:
        names = ["LOG", "log", "apply_fn", "neg", "e_li", "e_ls", "e_d", "e_si", "show", "CM"] + list(g.cls) + list(g.gens)
        hdr = ("from typing import Callable, Iterator, Optional\n"
               f"from {name}_lib import {', '.join(names)}\n\n")
        sources = {name + "_lib": lib_part, name: hdr + main_part}
    else:
        sources = {name: lib_part + main_part}
    calls = []
    for fn, (ps, ret) in g.funcs.items():
        for _ in range(rng.randint(2, 4)):
            args = [g.arg_value(t) for _, t in ps]
            calls.append((fn, args, [t for _, t in ps]))
    for gn in g.gens:
        for n in (0, 3, 7):
            calls.append((gn, [str(n)], [INT]))
    return sources, name, calls, g.feat
