"""C05 search, part 5 — zip / enumerate / comprehension loops over mixed operand kinds.

Every pair (and a sample of triples) of operand kinds — list, tuple, str, bytes, range, dict, set-free: typed
Iterable, an iterator object handed in by the caller, a native generator with logging side effects, enumerate(list),
reversed(list) — as a `for … in zip(…)` statement or comprehension, for all combinations of operand lengths 0..3;
single-operand `for`, `enumerate(…)`, `enumerate(…, start)`, early `break`.  Besides the collected items, every
function returns what is *left* in each iterator / generator operand afterwards, and the call's log records each
`yield` of the generators: the state of an iterator passed in from interpreted code after the call is part of the
observable behaviour.

K tie: the number of items taken from each iterator operand is compared with `ForZip.run` of Model/ForZip.lean
(theorem forZip_takes_what_zip_takes); the oracle is the interpreted twin."""
from __future__ import annotations

import itertools
import os

from harness.vlib.core import Ctx, ToolFailure
from harness.c05.front import compile_ext, front, report, run_worker, violation_nf

# kind -> (parameter type, expression used inside zip(), observable?)
KINDS = {
    "L": ("list[int]", "{p}", False),
    "T": ("tuple[int, ...]", "{p}", False),
    "S": ("str", "{p}", False),
    "B": ("bytes", "{p}", False),
    "R": ("int", "range({p})", False),
    "D": ("dict[int, int]", "{p}", False),
    "X": ("Iterable[int]", "{p}", False),
    "I": ("Iterator[int]", "{p}", True),
    "G": ("int", "g{i}", True),
    "E": ("list[int]", "enumerate({p})", False),
    "V": ("list[int]", "reversed({p})", False),
}


def arg_for(kind: str, pos: int, n: int) -> str:
    base = 10 * (pos + 1)
    vals = [base + j for j in range(n)]
    if kind in ("L", "E", "V", "X"):
        return repr(vals)
    if kind == "T":
        return repr(tuple(vals))
    if kind == "S":
        return repr("abcd"[:n])
    if kind == "B":
        return repr(b"wxyz"[:n])
    if kind in ("R", "G"):
        return str(n)
    if kind == "D":
        return repr({v: 0 for v in vals})
    if kind == "I":
        return f"iter({vals!r})"
    raise AssertionError(kind)


class Fn:
    def __init__(self, name: str, kinds: tuple[str, ...], form: str):
        self.name, self.kinds, self.form = name, kinds, form

    def source(self) -> str:
        ps = ", ".join(f"a{i}: {KINDS[k][0]}" for i, k in enumerate(self.kinds))
        L = [f"def {self.name}({ps}) -> object:"]
        for i, k in enumerate(self.kinds):
            if k == "G":
                L.append(f"    g{i} = noisy('g{i}', a{i})")
        ops = [KINDS[k][1].format(p=f"a{i}", i=i) for i, k in enumerate(self.kinds)]
        xs = [f"x{i}" for i in range(len(ops))]
        n = len(ops)
        if self.form == "stmt":
            L += ["    out: list[object] = []", f"    for {', '.join(xs)} in zip({', '.join(ops)}):",
                  f"        out.append(({', '.join(xs)},))"]
        elif self.form == "comp":
            L += [f"    out = [({', '.join(xs)},) for {', '.join(xs)} in zip({', '.join(ops)})]"]
        elif self.form == "enumzip":
            L += ["    out: list[object] = []", f"    for j, ({', '.join(xs)}) in enumerate(zip({', '.join(ops)})):",
                  f"        out.append((j, {', '.join(xs)}))"]
        elif self.form == "for":
            L += ["    out: list[object] = []", f"    for x0 in {ops[0]}:", "        out.append(x0)"]
        elif self.form == "forbreak":
            L += ["    out: list[object] = []", f"    for x0 in {ops[0]}:", "        out.append(x0)", "        if len(out) >= 2:",
                  "            break"]
        elif self.form == "enum":
            L += ["    out: list[object] = []", f"    for j, x0 in enumerate({ops[0]}):", "        out.append((j, x0))"]
        elif self.form == "enumstart":
            L += [f"    out = [(j, x0) for j, x0 in enumerate({ops[0]}, 7)]"]
        elif self.form == "zipbreak":
            L += ["    out: list[object] = []", f"    for {', '.join(xs)} in zip({', '.join(ops)}):",
                  f"        out.append(({', '.join(xs)},))", "        if len(out) >= 1:", "            break"]
        rests = []
        for i, k in enumerate(self.kinds):
            if k == "I":
                rests.append(f"list(a{i})")
            elif k == "G":
                rests.append(f"list(g{i})")
            else:
                rests.append("None")
        L.append(f"    return (out, [{', '.join(rests)}])")
        return "\n".join(L) + "\n"


PRELUDE_MOD = '''from typing import Iterable, Iterator

LOG: list[str] = []

def noisy(tag: str, n: int) -> Iterator[int]:
    for i in range(n):
        LOG.append(tag + ' yields ' + str(i))
        yield 100 + i
    LOG.append(tag + ' exhausted')

'''

PRELUDE = '''
def run(th):
    del LOG[:]
    try:
        r = th()
    except BaseException as e:
        return ("exc", type(e).__name__, str(e), list(LOG))
    return (r, list(LOG))
'''


def gen_functions(ctx: Ctx) -> list[Fn]:
    rng = ctx.rng
    ks = list(KINDS)
    fns: list[Fn] = []
    for a, b in itertools.product(ks, ks):
        forms = ["stmt", "comp"] if not ctx.quick() else [rng.choice(["stmt", "comp"])]
        # operand pairs with an observable operand get both forms
        if KINDS[a][2] or KINDS[b][2]:
            forms = ["stmt", "comp"]
        for f in forms:
            fns.append(Fn(f"z_{a}{b}_{f}", (a, b), f))
    triples = [t for t in itertools.product(ks, ks, ks) if any(KINDS[k][2] for k in t)]
    for t in rng.sample(triples, ctx.pick(40, 160)):
        fns.append(Fn(f"z_{''.join(t)}_{len(fns)}", t, rng.choice(["stmt", "comp", "enumzip"])))
    for a, b in rng.sample(list(itertools.product(ks, ks)), ctx.pick(16, 60)):
        fns.append(Fn(f"ez_{a}{b}_{len(fns)}", (a, b), rng.choice(["enumzip", "zipbreak"])))
    for k in ks:
        for f in ("for", "forbreak", "enum", "enumstart"):
            fns.append(Fn(f"s_{k}_{f}", (k,), f))
    return fns


def run(ctx: Ctx, pool, col=None):
    """two-phase (generator)"""
    rng = ctx.rng
    fns = gen_functions(ctx)
    src = PRELUDE_MOD + "\n".join(f.source() for f in fns)
    cache = os.path.join(ctx.tmp, "mypy_cache_vt")
    fr = front({"c05zip": src}, cache)
    if fr.modules is None:
        raise ToolFailure("zip battery does not compile: %r %r" % (fr.errors[:4], fr.crash))
    if col is not None:
        col.add_modules("loop-battery", fr.modules)
    opts = [rng.choice(["0", "3"])] if ctx.quick() else ["0", "3"]
    futs = []
    for opt in opts:
        d = os.path.join(ctx.tmp, f"zip_O{opt}")
        os.makedirs(d, exist_ok=True)
        with open(os.path.join(d, "c05zip.py"), "w") as fh:
            fh.write(src)
        futs.append((opt, d, pool.submit(compile_ext, d, ["c05zip.py"], opt)))
    jobs, meta = [], []
    for f in fns:
        combos = list(itertools.product(range(4), repeat=len(f.kinds)))
        if len(combos) > 16:
            combos = rng.sample(combos, ctx.pick(12, 32))
        for lens in combos:
            args = ", ".join(arg_for(k, i, n) for i, (k, n) in enumerate(zip(f.kinds, lens)))
            jobs.append((len(jobs), f"run(lambda: {f.name}({args}))"))
            meta.append((f, lens))
    # the model: what a zip loop takes from each operand
    zcases = [(j, f, lens) for j, (f, lens) in enumerate(meta) if f.form in ("stmt", "comp", "enumzip") and len(f.kinds) > 1]
    mout = ctx.lean_driver("Driver/C05.lean", ["Z " + " ".join(map(str, lens)) for _, _, lens in zcases])
    if len(mout) != len(zcases):
        raise ToolFailure("Driver/C05 Z: wrong number of output lines")
    model = {}
    for (j, f, lens), line in zip(zcases, mout):
        body = int(line.split("body=")[1].split()[0])
        taken = [int(x) for x in line.split("taken=")[1].split(",")]
        model[j] = (body, taken)
    yield
    ndiff = 0
    model_bad = []
    for opt, d, fut in futs:
        ok, log, secs = fut.result()
        if not ok:
            raise ToolFailure(f"mypyc could not compile the loop battery (opt {opt}):\n" + log[-2500:])
        ppath = os.path.join(d, "prelude.py")
        with open(ppath, "w") as fh:
            fh.write(PRELUDE)
        res = run_worker(d, "c05zip", jobs, "zip", prelude=ppath, timeout=900)
        seen = set()
        for (idx, expr), (f, lens) in zip(jobs, meta):
            interp, comp = res[idx]
            ctx.case(("Z", opt, expr))
            ctx.count("traces_validated_against_impl")
            ctx.dist("loop_form", f.form)
            ctx.dist("loop_operand_kinds", "".join(sorted(set(f.kinds))))
            # K: items taken from the observable operands vs the model
            if idx in model and comp.startswith("ok (("):
                taken_c = taken_from(comp, f, lens)
                body, taken_m = model[idx]
                for i, k in enumerate(f.kinds):
                    if KINDS[k][2] and taken_c is not None and taken_c[i] is not None and taken_c[i] != taken_m[i]:
                        model_bad.append((f, lens, i, taken_c[i], taken_m[i], expr, opt))
            if interp == comp:
                continue
            ndiff += 1
            ctx.count("disagreements_checked")
            key = (f.form, tuple(f.kinds))
            if key in seen:
                continue
            seen.add(key)
            report(ctx, "zipb", {"class": "loop-differs", "shape": "other", "form": f.form, "operand_kinds": "".join(f.kinds)},
                   f"`{f.source().splitlines()[-4 if f.form != 'comp' else -2].strip()}` (operand kinds {''.join(f.kinds)}) — "
                   f"{expr[12:-1]} (opt {opt}): compiled {comp[:200]}, CPython {interp[:200]}",
                   {"kind": "zipb", "function": f.source(), "name": f.name, "call": expr, "opt": opt, "compiled": comp, "cpython": interp},
                   cap=6)
    if model_bad:
        f, lens, i, tc, tm, expr, opt = model_bad[0]
        violation_nf(ctx, "zip-model", f"zip loop over operand kinds {''.join(f.kinds)} with lengths {list(lens)}: compiled code took {tc} item(s) "
                     f"from operand {i}, Model/ForZip.lean says {tm}; no difference from CPython seen",
                     {"broken": "correspondence compiled zip loop vs ForZip.run", "kind": "zipb", "function": f.source(), "name": f.name,
                      "call": expr, "opt": opt})
    ctx.coverage["loop_battery_functions"] = len(fns)
    ctx.coverage["loop_battery_calls_per_opt_level"] = len(jobs)
    ctx.coverage["loop_battery_zip_cases_vs_model"] = len(zcases)
    ctx.coverage["loop_battery_differences"] = ndiff
    ctx.coverage["loop_battery_model_disagreements"] = len(model_bad)


def taken_from(comp: str, f: Fn, lens) -> list | None:
    """items taken from each observable operand, from the `rest` lists the function returned"""
    import ast
    try:
        v = ast.literal_eval(comp[3:])
        rests = v[0][1]
    except Exception:  # noqa: BLE001
        return None
    out = []
    for i, k in enumerate(f.kinds):
        out.append(lens[i] - len(rests[i]) if KINDS[k][2] and rests[i] is not None else None)
    return out


def replay(ctx: Ctx, det: dict) -> None:
    d = os.path.join(ctx.tmp, "zip_replay")
    os.makedirs(d, exist_ok=True)
    with open(os.path.join(d, "c05zip.py"), "w") as fh:
        fh.write(PRELUDE_MOD + det["function"])
    ok, log, _ = compile_ext(d, ["c05zip.py"], det.get("opt", "0"))
    if not ok:
        print("compile failed:", log[-1500:])
        return
    ppath = os.path.join(d, "prelude.py")
    with open(ppath, "w") as fh:
        fh.write(PRELUDE)
    res = run_worker(d, "c05zip", [(0, det["call"])], "rp", prelude=ppath)
    print(det["function"])
    print("call     :", det["call"])
    print("CPython  :", res[0][0])
    print("compiled :", res[0][1])
