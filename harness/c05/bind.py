"""C05 (c) — call binding of compiled functions.

Enumerated signatures (positional-only / ordinary / defaults / *args / keyword-only / **kwargs) × call shapes
(positional, keyword, *tuple, **dict actuals):
  * every call is made from interpreted code into the compiled function (wrapper: emitwrapper.py + getargs*.c)
    and into its interpreted twin: accept / TypeError and the bound values are compared;
  * the Lean model of CPython's binding (`Model/PyBind.lean`, shared with C12) is run on the same
    (signature, call) pairs: compiled accept/TypeError vs the model is the correspondence, CPython the oracle;
  * calls that mypy accepts are also compiled as *native* calls (caller and callee in the same compiled module,
    arguments mapped at compile time) and their results compared with the interpreted twin.
Documented difference normalised away: the *text* of the TypeError raised for a bad call (compiled functions
report argument errors like C extension functions do)."""
from __future__ import annotations

import itertools
import os
import re

from harness.vlib.core import Ctx, ToolFailure
from harness.c05.front import compile_ext, front, run_worker, report, violation_nf

NAMES = ["a", "b", "c", "d", "e", "f", "g"]
NUM = {n: i + 1 for i, n in enumerate(NAMES)}
NUM.update({"z": 26, "va": 90, "kw": 91})


class Sig:
    def __init__(self, npos, nnorm, ndef, var, kws, kwv):
        it = iter(NAMES)
        self.pos = [next(it) for _ in range(npos)]
        self.norm = [next(it) for _ in range(nnorm)]
        self.ndef = ndef
        self.var = var
        self.kws = [(next(it), d) for d in kws]
        self.kwv = kwv

    def text(self, typed: bool = True) -> str:
        ann = ": int" if typed else ""
        allp = self.pos + self.norm
        parts = []
        for i, p in enumerate(allp):
            d = i >= len(allp) - self.ndef
            parts.append(f"{p}{ann} = {100 + i}" if d else f"{p}{ann}")
            if i == len(self.pos) - 1:
                parts.append("/")
        if self.var:
            parts.append(f"*va{ann}")
        elif self.kws:
            parts.append("*")
        for j, (k, d) in enumerate(self.kws):
            parts.append(f"{k}{ann} = {200 + j}" if d else f"{k}{ann}")
        if self.kwv:
            parts.append(f"**kw{ann}")
        return ", ".join(parts)

    def ret(self) -> str:
        items = self.pos + self.norm + (["va"] if self.var else []) + [k for k, _ in self.kws] + (["kw"] if self.kwv else [])
        return "(" + ", ".join(items) + ("," if len(items) == 1 else "") + ")"

    def model(self) -> str:
        return "%s;%s;%d;%s;%s;%s" % (
            ",".join(str(NUM[p]) for p in self.pos), ",".join(str(NUM[p]) for p in self.norm), self.ndef,
            "90" if self.var else "-", ",".join(f"{NUM[k]}:{int(d)}" for k, d in self.kws), "91" if self.kwv else "-")

    def model_as_compiled(self) -> str:
        """the signature as the compiled wrapper treats it: positional-only parameters are ordinary ones
        (`Sig.asCompiled` in Props/C05.lean)"""
        allp = self.pos + self.norm
        return "%s;%s;%d;%s;%s;%s" % (
            "", ",".join(str(NUM[p]) for p in allp), self.ndef,
            "90" if self.var else "-", ",".join(f"{NUM[k]}:{int(d)}" for k, d in self.kws), "91" if self.kwv else "-")

    def key(self):
        return (len(self.pos), len(self.norm), self.ndef, self.var, tuple(d for _, d in self.kws), self.kwv)


def all_sigs(maxn: int) -> list[Sig]:
    out = []
    for npos in range(0, maxn + 1):
        for nnorm in range(0, maxn + 1 - npos):
            for nkw in range(0, maxn + 1 - npos - nnorm):
                for var in (False, True):
                    for kwv in (False, True):
                        for ndef in range(0, npos + nnorm + 1):
                            for kwdefs in itertools.product([False, True], repeat=nkw):
                                out.append(Sig(npos, nnorm, ndef, var, kwdefs, kwv))
    return out


ATOMS = ["1", "a=11", "b=12", "c=13", "z=19", "*t0", "*t1", "*t2", "**d_a", "**d_ab", "**d_z", "**d0"]
ATOM_MODEL = {"1": "p", "a=11": "n1", "b=12": "n2", "c=13": "n3", "z=19": "n26", "*t0": "t0", "*t1": "t1", "*t2": "t2",
              "**d_a": "d1", "**d_ab": "d1,2", "**d_z": "d26", "**d0": "d"}
PRELUDE = "t0 = ()\nt1 = (21,)\nt2 = (21, 22)\nd_a = {'a': 31}\nd_ab = {'a': 31, 'b': 32}\nd_z = {'z': 39}\nd0 = {}\n"
TYPED_PRELUDE = ("from typing import TypedDict\n"
                 "class DA(TypedDict):\n    a: int\nclass DAB(TypedDict):\n    a: int\n    b: int\n"
                 "class DZ(TypedDict):\n    z: int\nclass D0(TypedDict):\n    pass\n"
                 "t0: tuple[()] = ()\nt1: tuple[int] = (21,)\nt2: tuple[int, int] = (21, 22)\n"
                 "d_a: DA = {'a': 31}\nd_ab: DAB = {'a': 31, 'b': 32}\nd_z: DZ = {'z': 39}\nd0: D0 = {}\n")


def all_calls(maxa: int) -> list[tuple[str, ...]]:
    out = []
    for n in range(0, maxa + 1):
        for combo in itertools.product(ATOMS, repeat=n):
            ok = True
            seen_kw = seen_ss = False
            kwnames = set()
            for c in combo:
                if c == "1":
                    if seen_kw or seen_ss:
                        ok = False
                elif c.startswith("**"):
                    seen_ss = True
                elif c.startswith("*"):
                    if seen_ss:
                        ok = False
                else:
                    seen_kw = True
                    nm = c.split("=")[0]
                    if nm in kwnames:
                        ok = False
                    kwnames.add(nm)
            if ok:
                out.append(combo)
    return out


def call_text(combo: tuple[str, ...]) -> str:
    # distinct positional values
    out, k = [], 0
    for c in combo:
        if c == "1":
            k += 1
            out.append(str(k))
        else:
            out.append(c)
    return ", ".join(out)


def keyword_names(combo) -> list[str]:
    ks = []
    for c in combo:
        if "=" in c:
            ks.append(c.split("=")[0])
        elif c == "**d_a":
            ks.append("a")
        elif c == "**d_ab":
            ks += ["a", "b"]
        elif c == "**d_z":
            ks.append("z")
    return ks


def shape_obs(sig: Sig, combo, caller: str, comp: str, interp: str) -> dict:
    kws = keyword_names(combo)
    posonly_kw = any(k in sig.pos for k in kws)
    dup = len(set(kws)) < len(kws)
    return {"class": "binding-differs", "caller": caller,
            "shape": "duplicate-keyword-through-double-star" if dup else
                     "keyword-names-positional-only-parameter" if posonly_kw else "other",
            "has_varkw": sig.kwv,
            "compiled": "raises" if comp.startswith("exc ") else "binds",
            "cpython": "raises" if interp.startswith("exc ") else "binds"}


def norm_exc(s: str) -> str:
    """argument-binding TypeErrors: keep the type, drop the message"""
    if s.startswith("exc TypeError"):
        return "exc TypeError"
    return s


def run(ctx: Ctx, pool, col=None):
    """two-phase (generator): up to the submitted C compile, `yield`, then the compiled runs"""
    rng = ctx.rng
    sigs = all_sigs(ctx.pick(3, 4))
    calls = all_calls(ctx.pick(3, 4))
    nsig = ctx.pick(140, 600)
    ncall = ctx.pick(70, 220)
    # every signature with ≤ 2 parameters, a sample of the larger ones
    small = [s for s in sigs if len(s.pos) + len(s.norm) + len(s.kws) <= 2]
    big = [s for s in sigs if s not in small]
    rng.shuffle(big)
    chosen = small + big[: max(0, nsig - len(small))]
    ctx.coverage["bind_signatures_enumerated"] = len(sigs)
    ctx.coverage["bind_call_shapes_enumerated"] = len(calls)
    short_calls = [c for c in calls if len(c) <= 2]
    long_calls = [c for c in calls if len(c) > 2]
    lines = []
    for i, s in enumerate(chosen):
        lines.append(f"def f{i}({s.text()}) -> object:\n    return {s.ret()}\n")
    # native callers: candidate calls, filtered by mypy below
    pairs = []           # (sig index, combo)
    for i, s in enumerate(chosen):
        cs = list(short_calls) if len(short_calls) <= ncall // 2 else rng.sample(short_calls, ncall // 2)
        cs += rng.sample(long_calls, min(len(long_calls), ncall - len(cs)))
        for c in cs:
            pairs.append((i, c))
    native_cand = rng.sample(pairs, min(len(pairs), ctx.pick(1600, 5000)))
    callers = {}
    for j, (i, c) in enumerate(native_cand):
        callers[f"g{j}"] = (i, c)
    src_funcs = TYPED_PRELUDE + "\n" + "\n".join(lines)

    def caller_src(names) -> str:
        return "\n".join(f"def {g}() -> object:\n    return f{callers[g][0]}({call_text(callers[g][1])})\n" for g in names)

    cache = os.path.join(ctx.tmp, "mypy_cache_vt")
    keep = list(callers)
    for _round in range(4):
        src = src_funcs + "\n" + caller_src(keep)
        fr = front({"c05bind": src}, cache)
        if fr.crash is not None:
            raise ToolFailure("mypyc front half crashed on the binding module: %r" % fr.crash)
        if fr.modules is not None:
            break
        # drop callers with errors (line -> function)
        bad_lines = set()
        for m in fr.errors:
            mm = re.match(r"c05bind\.py:(\d+):", m)
            if mm:
                bad_lines.add(int(mm.group(1)))
        if not bad_lines:
            raise ToolFailure("binding module rejected: " + "; ".join(fr.errors[:3]))
        src_lines = src.split("\n")
        bad_fns = set()
        for ln in bad_lines:
            k = ln - 1
            while k >= 0 and not src_lines[k].startswith("def "):
                k -= 1
            name = src_lines[k][4:].split("(")[0]
            if not name.startswith("g"):
                raise ToolFailure("binding module: error outside a caller: " + "; ".join(fr.errors[:3]))
            bad_fns.add(name)
        keep = [g for g in keep if g not in bad_fns]
    else:
        raise ToolFailure("binding module still rejected after filtering: " + "; ".join(fr.errors[:3]))
    if col is not None:
        col.add_modules("binding", fr.modules)
    ctx.coverage["bind_native_calls_accepted_by_mypy"] = len(keep)
    ctx.coverage["bind_native_calls_rejected_by_mypy"] = len(callers) - len(keep)
    d = os.path.join(ctx.tmp, "bind")
    os.makedirs(d, exist_ok=True)
    with open(os.path.join(d, "c05bind.py"), "w") as fh:
        fh.write(src)
    opt = rng.choice(["0", "3"])
    fut = pool.submit(compile_ext, d, ["c05bind.py"], opt)
    # the model on the same pairs, meanwhile
    mlines = [f"{chosen[i].model()} | {' '.join(ATOM_MODEL[a].replace('d1,2', 'd1,2') for a in c)}" for i, c in pairs]
    acts = [' '.join(ATOM_MODEL[a] for a in c) for _, c in pairs]
    mboth = ctx.lean_driver("Driver/C12Bind.lean", mlines + [f"{chosen[i].model_as_compiled()} | {a}" for (i, _), a in zip(pairs, acts)])
    if len(mboth) != 2 * len(mlines):
        raise ToolFailure("Driver/C12Bind: wrong number of output lines")
    mout, mcomp = mboth[:len(mlines)], mboth[len(mlines):]
    yield
    ok, log, secs = fut.result()
    if not ok:
        raise ToolFailure("mypyc could not compile the binding module:\n" + log[-2500:])
    ctx.coverage["bind_compile_s"] = round(secs, 1)
    ctx.coverage["bind_opt_level"] = opt
    jobs = [(k, f"f{i}({call_text(c)})") for k, (i, c) in enumerate(pairs)]
    base = len(jobs)
    jobs += [(base + k, f"{g}()") for k, g in enumerate(keep)]
    pre = os.path.join(d, "prelude.py")
    with open(pre, "w") as fh:
        fh.write(PRELUDE)
    res = run_worker(d, "c05bind", jobs, "bind", prelude=pre, timeout=600)
    ndiff = nmsg = 0
    reported = set()
    model_diffs = []
    model_bad = []
    for k, ((i, c), ml) in enumerate(zip(pairs, mout)):
        interp, comp = res[k]
        # K: the compiled wrapper vs the model of what the code does (CPython's binding of the signature with the
        # positional-only marker dropped)
        mc = re.search(r"py=(\S+)", mcomp[k])
        if mc is not None and mc.group(1) != "unknown" and (mc.group(1) != "ok") != comp.startswith("exc TypeError"):
            model_bad.append((chosen[i], c, comp, mcomp[k]))
        s = chosen[i]
        ctx.case(("B", s.key(), c), nontrivial=bool(c))
        ctx.count("traces_validated_against_impl")
        ctx.dist("bind_nparams", str(len(s.pos) + len(s.norm) + len(s.kws) + s.var + s.kwv))
        ctx.dist("bind_nactuals", str(len(c)))
        ctx.dist("bind_cpython_outcome", "binds" if interp.startswith("ok") else interp.split(":")[0][4:])
        mpy = re.search(r"py=(\S+)", ml)
        mraises = mpy is not None and mpy.group(1) not in ("ok", "unknown")
        if mpy is not None and mpy.group(1) != "unknown" and mraises != interp.startswith("exc TypeError"):
            raise ToolFailure(f"PyBind model disagrees with CPython on f({s.text(False)}) called f({call_text(c)}): {ml} / {interp}")
        if interp.startswith("exc TypeError") and comp.startswith("exc TypeError") and interp != comp:
            nmsg += 1
        if norm_exc(interp) == norm_exc(comp):
            continue
        ndiff += 1
        ctx.count("disagreements_checked")
        obs = shape_obs(s, c, "interpreted", comp, interp)
        keyr = (obs["shape"], obs["has_varkw"], obs["compiled"], obs["cpython"])
        if keyr in reported and obs["shape"] != "other":
            continue
        reported.add(keyr)
        report(ctx, "bind", obs, f"`def f({s.text()})` called from interpreted code as f({call_text(c)}) (opt {opt}): compiled {comp[:120]}, "
                        f"CPython {interp[:120]} (PyBind model: {mpy.group(1) if mpy else '?'})",
                   {"kind": "bind", "signature": s.text(), "ret": s.ret(), "call": call_text(c), "caller": "interpreted", "opt": opt,
                    "compiled": comp, "cpython": interp})
    nnat = 0
    for k, g in enumerate(keep):
        interp, comp = res[base + k]
        i, c = callers[g]
        s = chosen[i]
        ctx.case(("Bn", s.key(), c), nontrivial=bool(c))
        ctx.count("traces_validated_against_impl")
        ctx.dist("bind_native_cpython_outcome", "binds" if interp.startswith("ok") else interp.split(":")[0][4:])
        if norm_exc(interp) == norm_exc(comp):
            continue
        nnat += 1
        ctx.count("disagreements_checked")
        obs = shape_obs(s, c, "native", comp, interp)
        keyr = ("n", obs["shape"], obs["has_varkw"], obs["compiled"], obs["cpython"])
        if keyr in reported and obs["shape"] != "other":
            continue
        reported.add(keyr)
        report(ctx, "bind", obs, f"`def f({s.text()})` called from compiled code as f({call_text(c)}) (opt {opt}): compiled {comp[:120]}, "
                        f"CPython {interp[:120]}",
                   {"kind": "bind", "signature": s.text(), "ret": s.ret(), "call": call_text(c), "caller": "native", "opt": opt,
                    "compiled": comp, "cpython": interp})
    ctx.coverage["bind_compiled_vs_model_of_compiled_disagreements"] = len(model_bad)
    if model_bad:
        sg, c, comp, ml = model_bad[0]
        violation_nf(ctx, "bind-model", f"compiled wrapper of `def f({sg.text()})` called f({call_text(c)}) gives {comp[:100]}, the model of "
                     f"the compiled binding (PyBind on Sig.asCompiled) says {ml}; every difference from CPython seen is a listed one",
                     {"broken": "correspondence compiled wrapper vs PyBind.pyCall ∘ asCompiled", "kind": "bind",
                      "signature": sg.text(), "ret": sg.ret(), "call": call_text(c), "caller": "interpreted", "opt": opt})
    ctx.coverage["bind_calls_from_interpreted"] = len(pairs)
    ctx.coverage["bind_calls_native"] = len(keep)
    ctx.coverage["bind_differences_interpreted_caller"] = ndiff
    ctx.coverage["bind_differences_native_caller"] = nnat
    ctx.coverage["bind_typeerror_message_differs (normalised)"] = nmsg
    ctx.sample({"bind_case": f"def f({chosen[len(chosen) // 2].text()})", "model_line": mlines[len(mlines) // 2],
                "model": mout[len(mlines) // 2]})


def replay(ctx: Ctx, det: dict) -> None:
    d = os.path.join(ctx.tmp, "bind_replay")
    os.makedirs(d, exist_ok=True)
    src = TYPED_PRELUDE + f"\ndef f({det['signature']}) -> object:\n    return {det['ret']}\n"
    expr = f"f({det['call']})"
    if det.get("caller") == "native":
        src += f"def g() -> object:\n    return f({det['call']})\n"
        expr = "g()"
    with open(os.path.join(d, "c05bind.py"), "w") as fh:
        fh.write(src)
    ok, log, _ = compile_ext(d, ["c05bind.py"], det.get("opt", "0"))
    if not ok:
        print("compile failed:", log[-1500:])
        return
    pre = os.path.join(d, "prelude.py")
    with open(pre, "w") as fh:
        fh.write(PRELUDE)
    res = run_worker(d, "c05bind", [(0, expr)], "rp", prelude=pre)
    print(src.split("\n\n")[-1] if False else f"def f({det['signature']}) ...;  {expr}  [{det.get('caller')} caller]")
    print("CPython  :", res[0][0])
    print("compiled :", res[0][1])
