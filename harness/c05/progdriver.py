"""C05 program driver — the *same* script drives the interpreted source and every compiled build.

    python progdriver.py <dir> <jobs.json> <out.txt> [expect-compiled]

<dir> is put first on sys.path (it holds either the .py files only, or the .py files plus their compiled .so);
jobs.json is `[[module, [[function, [arg expression, …]], …]], …]`.  For every call the arguments are built by
evaluating the argument expressions in the module's namespace, the function is called (a generator is drained
into a list), and one line is written (flushed before the next call, so a crash is attributable):

    <module>\t<k>\t<ok repr | exc Type: message>\t<LOG lines joined>\t<show() of every argument after the call>
"""
from __future__ import annotations

import importlib
import json
import os
import sys
import types


def main() -> int:
    d, jobs_path, out = sys.argv[1:4]
    expect_compiled = len(sys.argv) > 4
    sys.path.insert(0, d)
    sys.setrecursionlimit(3000)
    jobs = json.load(open(jobs_path))
    fd = os.open(out, os.O_WRONLY | os.O_CREAT | os.O_APPEND, 0o644)
    for mod_name, calls in jobs:
        try:
            mod = importlib.import_module(mod_name)
        except BaseException as e:  # noqa: BLE001
            os.write(fd, ("%s\t-1\timport-failed %s: %s\t\t\n" % (mod_name, type(e).__name__, str(e).replace("\n", " "))).encode())
            continue
        compiled = getattr(mod, "__file__", "").endswith(".so")
        if compiled != expect_compiled:
            print("module %s: compiled=%s, expected %s (%s)" % (mod_name, compiled, expect_compiled, mod.__file__), file=sys.stderr)
            return 3
        ns = vars(mod)
        show = ns["show"]
        log = ns["LOG"]
        for k, (fn, arg_exprs) in enumerate(calls):
            del log[:]
            os.write(fd, ("%s\t%d\t" % (mod_name, k)).encode())
            args = []
            try:
                args = [eval(a, ns) for a in arg_exprs]
                r = ns[fn](*args)
                if isinstance(r, types.GeneratorType) or (hasattr(r, "__next__") and not isinstance(r, (str, bytes))):
                    r = list(r)
                    res = "ok " + repr(r)
                else:
                    res = "ok " + show(r)
            except BaseException as e:  # noqa: BLE001 - the exception *is* the observation
                res = "exc %s: %s" % (type(e).__name__, str(e))
            try:
                after = " ; ".join(show(a) for a in args)
            except BaseException as e:  # noqa: BLE001
                after = "show-failed %s" % type(e).__name__
            fields = [res, " | ".join(log), after]
            line = "\t".join(f.replace("\t", " ").replace("\n", " ").replace("\r", " ") for f in fields)
            os.write(fd, line.encode("utf-8", "backslashreplace") + b"\n")
    os.close(fd)
    return 0


if __name__ == "__main__":
    sys.exit(main())
