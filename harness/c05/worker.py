"""C05 worker: evaluates the same expressions against a mypyc-compiled module and its interpreted twin.

    python worker.py <dir> <module> <jobs.jsonl> <out.txt> [prelude.py]

`<dir>` holds `<module>.py` (the source) and the compiled `<module>.*.so`.  The twin is the source exec'd as
plain Python under the name `<module>_interp`.  Each job line is `[idx, "<expression>"]`; the expression is
evaluated with the module's globals (plus the names the optional prelude defines) — first interpreted, then
compiled — and one line is appended to <out.txt>, flushed in two steps so that a crash or hang of compiled
code is attributable to a job:

    <idx>\tI <canon>\tC <canon>\n          canon = `ok <repr>` | `exc <Type>: <message>`
"""
from __future__ import annotations

import importlib
import json
import os
import sys


def canon(v) -> str:
    t = type(v)
    if t in (int, str, bool, float, type(None), bytes, bytearray):
        return repr(v)
    if t is list:
        return "[" + ", ".join(canon(x) for x in v) + "]"
    if t is tuple:
        return "(" + ", ".join(canon(x) for x in v) + ("," if len(v) == 1 else "") + ")"
    if t is dict:
        return "{" + ", ".join(canon(k) + ": " + canon(x) for k, x in v.items()) + "}"
    if t is set or t is frozenset:
        return t.__name__ + "{" + ", ".join(sorted(canon(x) for x in v)) + "}"
    return f"<{t.__name__}>"


def run(expr: str, ns: dict) -> str:
    try:
        v = eval(expr, ns)
    except BaseException as e:  # noqa: BLE001 - the exception *is* the observation
        return "exc %s: %s" % (type(e).__name__, str(e).replace("\n", " ").replace("\t", " "))
    return "ok " + canon(v).replace("\n", " ").replace("\t", " ")


def main() -> int:
    d, mod, jobs, out = sys.argv[1:5]
    prelude = sys.argv[5] if len(sys.argv) > 5 else None
    sys.path.insert(0, d)
    sys.set_int_max_str_digits(0)
    src = open(os.path.join(d, mod + ".py")).read()
    ins: dict = {"__name__": mod + "_interp"}
    exec(compile(src, mod + "_interp.py", "exec"), ins)
    comp = importlib.import_module(mod)
    if not getattr(comp, "__file__", "").endswith(".so"):
        print("%s is not the compiled module: %r" % (mod, getattr(comp, "__file__", None)), file=sys.stderr)
        return 3
    cns = dict(vars(comp))
    if prelude:
        psrc = open(prelude).read()
        exec(compile(psrc, "prelude.py", "exec"), ins)
        exec(compile(psrc, "prelude.py", "exec"), cns)
    fd = os.open(out, os.O_WRONLY | os.O_CREAT | os.O_APPEND, 0o644)
    with open(jobs) as f:
        for line in f:
            idx, expr = json.loads(line)
            os.write(fd, ("%d\tI %s" % (idx, run(expr, ins))).encode())
            os.write(fd, ("\tC %s\n" % run(expr, cns)).encode())
    os.close(fd)
    return 0


if __name__ == "__main__":
    sys.exit(main())
