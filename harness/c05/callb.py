"""C05 (c), extended — call binding of every kind of native callable, driven from INTERPRETED callers.

The signatures and call shapes of bind.py (positional-only / ordinary with and without defaults / *args / keyword-
only with and without defaults / **kwargs × too few, exact, too many positionals, keywords, unknown keywords,
*tuple and **dict actuals) applied to: `__init__` (tp_init wrapper → lib-rt getargs.c vgetargskeywords, the
legacy tuple/dict parser), instance methods, classmethods, staticmethods, `__call__` (vectorcall wrappers →
getargsfast.c) and calls through a bound method object and through `type.__call__` with an explicit `*args/**kw`
forwarding interpreted subclass.  Compared with the interpreted twin: the bound values (all parameters, *args
tuple, **kwargs dict) or the TypeError (type only — message texts of compiled wrappers differ by design)."""
from __future__ import annotations

import os

from harness.vlib.core import Ctx, ToolFailure
from harness.c05.bind import PRELUDE, Sig, all_calls, all_sigs, call_text, norm_exc, shape_obs
from harness.c05.front import compile_ext, front, report, run_worker

KINDS = ["init", "method", "classmethod", "staticmethod", "call", "bound", "subinit"]

# an interpreted subclass forwarding to the native __init__ (super().__init__(*a, **k) goes through tp_init too)
SUB_PRELUDE = '''
def make_sub(base):
    class Sub(base):
        def __init__(self, *a, **k):
            super().__init__(*a, **k)
    return Sub
'''


def class_src(i: int, s: Sig) -> str:
    sig = s.text()
    ret = s.ret()
    sep = ", " if sig else ""
    return (f"class I{i}:\n"
            f"    def __init__(self{sep}{sig}) -> None:\n"
            f"        self.bound: object = {ret}\n"
            f"@mypyc_attr(allow_interpreted_subclasses=True)\n"
            f"class J{i}:\n"
            f"    def __init__(self{sep}{sig}) -> None:\n"
            f"        self.bound: object = {ret}\n"
            f"class M{i}:\n"
            f"    def m(self{sep}{sig}) -> object:\n"
            f"        return {ret}\n"
            f"    @classmethod\n"
            f"    def cm(cls{sep}{sig}) -> object:\n"
            f"        return {ret}\n"
            f"    @staticmethod\n"
            f"    def sm({sig}) -> object:\n"
            f"        return {ret}\n"
            f"    def __call__(self{sep}{sig}) -> object:\n"
            f"        return {ret}\n")


def expr_for(kind: str, i: int, call: str) -> str:
    if kind == "init":
        return f"I{i}({call}).bound"
    if kind == "subinit":
        return f"make_sub(J{i})({call}).bound"
    if kind == "method":
        return f"M{i}().m({call})"
    if kind == "bound":
        return f"(lambda f: f({call}))(M{i}().m)"
    if kind == "classmethod":
        return f"M{i}.cm({call})"
    if kind == "staticmethod":
        return f"M{i}.sm({call})"
    return f"M{i}()({call})"


def run(ctx: Ctx, pool, col=None):
    """two-phase (generator)"""
    rng = ctx.rng
    sigs = all_sigs(3)
    calls = all_calls(3)
    nsig = ctx.pick(48, 200)
    # signatures where the two parsers can differ are always in: *args and/or keyword-only and/or **kwargs present
    rich = [s for s in sigs if (s.var or s.kws or s.kwv) and len(s.pos) + len(s.norm) + len(s.kws) <= 2]
    rest = [s for s in sigs if s not in rich]
    rng.shuffle(rich); rng.shuffle(rest)
    chosen = rich[: nsig * 2 // 3] + rest[: nsig - min(len(rich), nsig * 2 // 3)]
    src = "from mypy_extensions import mypyc_attr\n\n" + "\n".join(class_src(i, s) for i, s in enumerate(chosen))
    fr = front({"c05call": src}, os.path.join(ctx.tmp, "mypy_cache_vt"))
    if fr.modules is None:
        raise ToolFailure("call battery does not compile: %r %r" % (fr.errors[:4], fr.crash))
    if col is not None:
        col.add_modules("call-battery", fr.modules)
    opt = rng.choice(["0", "3"])
    d = os.path.join(ctx.tmp, "callb")
    os.makedirs(d, exist_ok=True)
    with open(os.path.join(d, "c05call.py"), "w") as fh:
        fh.write(src)
    fut = pool.submit(compile_ext, d, ["c05call.py"], opt)
    # call shapes: positional counts 0..3 are always in, the rest sampled
    basic = [c for c in calls if all(a == "1" for a in c)]
    others = [c for c in calls if c not in basic]
    jobs, meta = [], []
    ncall = ctx.pick(14, 40)
    for i, s in enumerate(chosen):
        cs = basic + rng.sample(others, ncall)
        for c in cs:
            for kind in KINDS:
                if kind in ("bound", "subinit") and rng.random() < 0.5:
                    continue
                jobs.append((len(jobs), expr_for(kind, i, call_text(c))))
                meta.append((s, c, kind))
    yield
    ok, log, secs = fut.result()
    if not ok:
        raise ToolFailure("mypyc could not compile the call battery:\n" + log[-2500:])
    pre = os.path.join(d, "prelude.py")
    with open(pre, "w") as fh:
        fh.write(PRELUDE + SUB_PRELUDE)
    res = run_worker(d, "c05call", jobs, "callb", prelude=pre, timeout=900)
    ndiff = 0
    seen = set()
    for (idx, expr), (s, c, kind) in zip(jobs, meta):
        interp, comp = res[idx]
        ctx.case(("C", kind, s.key(), c), nontrivial=bool(c))
        ctx.count("traces_validated_against_impl")
        ctx.dist("call_battery_callee_kind", kind)
        ctx.dist("call_battery_cpython_outcome", kind + ":" + ("binds" if interp.startswith("ok") else interp.split(":")[0][4:]))
        if norm_exc(interp) == norm_exc(comp):
            continue
        ndiff += 1
        ctx.count("disagreements_checked")
        obs = shape_obs(s, c, "interpreted", comp, interp)
        obs["callee"] = kind
        npos = sum(1 if a == "1" else {"*t0": 0, "*t1": 1, "*t2": 2}.get(a, 0) for a in c)
        if obs["shape"] == "other" and kind in ("init", "subinit") and s.kwv and not s.var and npos > len(s.pos) + len(s.norm) \
                and obs["compiled"] == "binds" and obs["cpython"] == "raises":
            # vgetargskeywords: the "too many positional arguments" test is skipped whenever the format starts with '%'
            # (the callee takes *args OR **kwargs); with **kwargs only, the surplus positionals are silently dropped
            obs["shape"] = "constructor-with-varkw-drops-surplus-positionals"
        keyr = (kind, obs["shape"], obs["has_varkw"], obs["compiled"], obs["cpython"])
        if keyr in seen:
            continue
        seen.add(keyr)
        report(ctx, "callb", obs, f"`def {'__init__' if 'init' in kind else kind}(… {s.text()})` called from interpreted code as {expr} "
                                  f"(opt {opt}): compiled {comp[:130]}, CPython {interp[:130]}",
               {"kind": "callb", "signature": s.text(), "ret": s.ret(), "expr": expr, "callee": kind, "opt": opt,
                "compiled": comp, "cpython": interp, "source": class_src(0, s), "expr0": expr_for(kind, 0, call_text(c))}, cap=8)
    ctx.coverage["call_battery_signatures"] = len(chosen)
    ctx.coverage["call_battery_calls"] = len(jobs)
    ctx.coverage["call_battery_differences"] = ndiff
    ctx.coverage["call_battery_opt_level"] = opt


def replay(ctx: Ctx, det: dict) -> None:
    d = os.path.join(ctx.tmp, "callb_replay")
    os.makedirs(d, exist_ok=True)
    with open(os.path.join(d, "c05call.py"), "w") as fh:
        fh.write("from mypy_extensions import mypyc_attr\n\n" + det["source"])
    ok, log, _ = compile_ext(d, ["c05call.py"], det.get("opt", "0"))
    if not ok:
        print("compile failed:", log[-1500:])
        return
    pre = os.path.join(d, "prelude.py")
    with open(pre, "w") as fh:
        fh.write(PRELUDE + SUB_PRELUDE)
    res = run_worker(d, "c05call", [(0, det["expr0"])], "rp", prelude=pre)
    print(det["source"])
    print("call     :", det["expr0"])
    print("CPython  :", res[0][0])
    print("compiled :", res[0][1])
