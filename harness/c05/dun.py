"""C05 search, part 4 — special methods in class hierarchies, used through base-typed values.

Generated hierarchies of native classes (depth up to 5, optionally a trait mixin) in which each special method
(__eq__, __ne__, __bool__, __len__, __contains__, __str__, __repr__, __lt__, __getitem__, __add__, __call__,
__iter__) is introduced at a random level (root, middle, leaf, trait — or nowhere) and possibly overridden again
below.  For *every* class T of the hierarchy as static type, one-line functions apply the operators that reach
those methods implicitly — `a == b`, `a != b` (also against object / Optional operands), truthiness in all its forms
(`if x`, `not x`, `bool(x)`, `x and y`, `any(l)`, comprehension filters, Optional[T]), `x in list/tuple`,
`list.count`, str()/repr()/f-string — plus the operators that need the method statically where T has it.  Every
function is called with instances of every concrete subclass of T; compiled vs interpreted twin: value, exception,
and the log of which special methods ran."""
from __future__ import annotations

import os
import random

from harness.vlib.core import Ctx, ToolFailure
from harness.c05.front import compile_ext, front, report, run_worker

DUNDERS = ["__eq__", "__ne__", "__bool__", "__len__", "__contains__", "__str__", "__repr__", "__lt__", "__getitem__",
           "__add__", "__call__", "__iter__"]


def dunder_src(cls: str, ci: int, d: str, root: str) -> list[str]:
    tag = f"        LOG.append('{cls}.{d}')"
    if d == "__eq__":
        cmp_ = "other.key == self.key" if ci % 2 == 0 else "other.key % 2 == self.key % 2"
        return ["    def __eq__(self, other: object) -> bool:", tag, f"        return isinstance(other, {root}) and {cmp_}",
                "    def __hash__(self) -> int:", "        return 7"]
    if d == "__ne__":
        # symmetric on purpose: with a subclass instance on the right CPython tries the reflected method first, compiled
        # code calls the left operand's (final) method directly — known finding C05-N12, probed in ops.py
        return ["    def __ne__(self, other: object) -> bool:", tag,
                f"        return not (isinstance(other, {root}) and abs(other.key - self.key) <= {ci % 2})"]
    if d == "__bool__":
        return ["    def __bool__(self) -> bool:", tag, f"        return self.key > {ci % 2}"]
    if d == "__len__":
        return ["    def __len__(self) -> int:", tag, f"        return len(self.items) * {1 + ci % 2}"]
    if d == "__contains__":
        return ["    def __contains__(self, x: int) -> bool:", tag, f"        return (x + {ci % 2}) in self.items"]
    if d == "__str__":
        return ["    def __str__(self) -> str:", tag, f"        return '{cls}s(%d)' % self.key"]
    if d == "__repr__":
        return ["    def __repr__(self) -> str:", tag, f"        return '{cls}r(%d)' % self.key"]
    if d == "__lt__":
        return [f"    def __lt__(self, other: {root}) -> bool:", tag, f"        return self.key < other.key"]
    if d == "__getitem__":
        return ["    def __getitem__(self, i: int) -> int:", tag, f"        return self.items[i] + {ci}"]
    if d == "__add__":
        return ["    def __add__(self, other: int) -> int:", tag, f"        return self.key + other + {ci}"]
    if d == "__call__":
        return ["    def __call__(self, x: int) -> int:", tag, f"        return self.key * x + {ci}"]
    if d == "__iter__":
        return ["    def __iter__(self) -> Iterator[int]:", tag, f"        return iter(self.items + [{ci}])"]
    raise AssertionError(d)


class Hier:
    def __init__(self, rng: random.Random, prefix: str):
        self.prefix = prefix
        n = rng.randint(3, 6)
        self.names = [f"{prefix}K{i}" for i in range(n)]
        self.base: list[int | None] = [None]
        for i in range(1, n):
            # mostly a chain (depth >= 3 is the point), sometimes a branch
            self.base.append(i - 1 if rng.random() < 0.65 else rng.randrange(i))
        self.trait = rng.random() < 0.35
        self.trait_name = f"{prefix}Tr"
        self.with_trait = [i for i in range(n) if self.trait and rng.random() < 0.4 and not self.inherits_trait(i)]
        # where each special method is introduced / overridden (-1 = the trait)
        self.defs: dict[int, list[str]] = {i: [] for i in range(-1, n)}
        for d in DUNDERS:
            if rng.random() < 0.25:
                continue
            levels = list(range(n)) + ([-1] if self.trait and self.with_trait and d in ("__bool__", "__len__", "__str__") else [])
            first = rng.choice(levels)
            if d == "__call__":
                # only at the root: a subclass that introduces __call__ gets a `vectorcall` field in front of the
                # inherited attributes and the object layout no longer matches its base (known finding C05-N8,
                # probed separately in ops.py: it crashes the process)
                first = 0
            self.defs[first].append(d)
            if first >= 0:
                for j in range(first + 1, n):
                    if first in self.ancestors(j) and rng.random() < 0.25 and d != "__call__":
                        self.defs[j].append(d)

    def inherits_trait(self, i: int) -> bool:
        return False

    def ancestors(self, i: int) -> list[int]:
        out = []
        b = self.base[i]
        while b is not None:
            out.append(b)
            b = self.base[b]
        return out

    def has_trait(self, i: int) -> bool:
        return any(j in self.with_trait for j in [i] + self.ancestors(i))

    def resolves(self, i: int, d: str) -> bool:
        """does class i find a user-defined d (own, ancestors, trait)?"""
        if any(d in self.defs[j] for j in [i] + self.ancestors(i)):
            return True
        return self.has_trait(i) and d in self.defs[-1]

    def definer(self, i: int, d: str) -> int | None:
        for j in [i] + self.ancestors(i):
            if d in self.defs[j]:
                return j
        return -1 if self.has_trait(i) and d in self.defs[-1] else None

    def static_has(self, t: int, d: str) -> bool:
        return self.resolves(t, d) if t >= 0 else d in self.defs[-1]

    def subclasses(self, t: int) -> list[int]:
        n = len(self.names)
        if t == -1:
            return [i for i in range(n) if self.has_trait(i)]
        return [i for i in range(n) if i == t or t in self.ancestors(i)]

    def depth(self) -> int:
        return 1 + max(len(self.ancestors(i)) for i in range(len(self.names)))

    def tname(self, t: int) -> str:
        return self.trait_name if t == -1 else self.names[t]

    def source(self) -> list[str]:
        L = []
        root = self.names[0]
        if self.trait:
            L += ["@trait", f"class {self.trait_name}:", "    def tag(self) -> str:", "        return 'trait'"]
            for d in self.defs[-1]:
                if d == "__bool__":
                    L += ["    def __bool__(self) -> bool:", f"        LOG.append('{self.trait_name}.__bool__')", "        return False"]
                elif d == "__len__":
                    L += ["    def __len__(self) -> int:", f"        LOG.append('{self.trait_name}.__len__')", "        return 0"]
                elif d == "__str__":
                    L += ["    def __str__(self) -> str:", f"        LOG.append('{self.trait_name}.__str__')", "        return 'Tr!'"]
            L.append("")
        for i, name in enumerate(self.names):
            bases = ([self.names[self.base[i]]] if self.base[i] is not None else []) + ([self.trait_name] if i in self.with_trait else [])
            L.append(f"class {name}({', '.join(bases)}):" if bases else f"class {name}:")
            body = []
            if i == 0:
                body += ["    def __init__(self, key: int, items: list[int]) -> None:", "        self.key = key",
                         "        self.items = items"]
            for d in self.defs[i]:
                body += dunder_src(name, i, d, root)
            L += body or ["    pass"]
            L.append("")
        return L

    def functions(self) -> list[tuple[str, int, str, str, int]]:
        """(function name, static type, params, body, arity kind) — arity kind: 1 = x, 2 = a b, 3 = x + list"""
        out = []
        n = len(self.names)
        for t in ([-1] if self.trait and self.with_trait else []) + list(range(n)):
            T = self.tname(t)
            s = f"_{T}"
            out += [
                ("eq" + s, t, f"a: {T}, b: {T}", "return a == b", 2),
                ("ne" + s, t, f"a: {T}, b: {T}", "return a != b", 2),
                ("eq_if" + s, t, f"a: {T}, b: {T}", "if a == b:\n        return 'eq'\n    return 'ne'", 2),
                ("eq_obj" + s, t, f"a: {T}, b: object", "return a == b", 2),
                ("eq_rev" + s, t, f"a: object, b: {T}", "return a != b", 2),
                ("eq_opt" + s, t, f"a: Optional[{T}], b: Optional[{T}]", "return (a == b, a != b)", 22),
                ("eq_mixed" + s, t, f"a: Optional[{T}], b: {T}", "return a == b", 21),
                ("truth" + s, t, f"x: {T}", "return 1 if x else 0", 1),
                ("truth_if" + s, t, f"x: {T}", "if x:\n        return 'T'\n    else:\n        return 'F'", 1),
                ("nott" + s, t, f"x: {T}", "return not x", 1),
                ("boolf" + s, t, f"x: {T}", "return bool(x)", 1),
                ("truth_opt" + s, t, f"x: Optional[{T}]", "if x:\n        return 'T'\n    return 'F'", 11),
                ("not_opt" + s, t, f"x: Optional[{T}]", "return (not x, 1 if x else 0, bool(x))", 11),
                ("while_opt" + s, t, f"x: Optional[{T}]", "n = 0\n    while x and n < 2:\n        n += 1\n    return n", 11),
                ("and_or" + s, t, f"a: {T}, b: {T}", "return (type(a and b).__name__, type(a or b).__name__)", 2),
                ("anyall" + s, t, f"x: {T}, l: list[{T}]", "return (any(l), all(l), [i for i, e in enumerate(l) if e], len([e for e in l if not e]))", 3),
                ("in_list" + s, t, f"x: {T}, l: list[{T}]", "return (x in l, x not in l, l.count(x))", 3),
                ("in_tuple" + s, t, f"a: {T}, b: {T}", "return a in (b, b)", 2),
                ("in_opt_list" + s, t, f"x: {T}, l: list[{T}]", "m: list[Optional[" + T + "]] = [None]\n    m.extend(l)\n    return x in m", 3),
                ("str_" + s, t, f"x: {T}", "return (str(x), f'{x}|{x:>8}', '%s' % x, '{}'.format(x))", 10),
                ("repr_" + s, t, f"x: {T}", "return (repr(x), f'{x!r}', '%r' % x, str([x]))", 12),
            ]
            if self.static_has(t, "__len__"):
                out.append(("len_" + s, t, f"x: {T}", "return len(x)", 1))
            if self.static_has(t, "__getitem__"):
                out.append(("getitem" + s, t, f"x: {T}", "return (x[0], x[-1])", 1))
            if self.static_has(t, "__contains__"):
                out.append(("contains" + s, t, f"x: {T}", "return (1 in x, 2 not in x)", 1))
            if self.static_has(t, "__add__"):
                out.append(("add" + s, t, f"x: {T}", "return x + 5", 1))
            if self.static_has(t, "__lt__"):
                out.append(("lt" + s, t, f"a: {T}, b: {T}", "return (a < b, [e.key for e in sorted([a, b, a])])", 2))
            if self.static_has(t, "__call__"):
                out.append(("call" + s, t, f"x: {T}", "return x(3)", 1))
            if self.static_has(t, "__iter__"):
                out.append(("iter" + s, t, f"x: {T}", "return ([v for v in x], list(x), sum(x))", 1))
        return out


INST = ["(0, [])", "(1, [1])", "(2, [])", "(3, [1, 2])"]

PRELUDE = '''
def run(th):
    del LOG[:]
    try:
        r = th()
    except BaseException as e:
        return ("exc", type(e).__name__, str(e), list(LOG))
    return (r, list(LOG))
'''


def build(rng: random.Random, nh: int) -> tuple[str, list[Hier]]:
    hs = [Hier(rng, f"H{i}") for i in range(nh)]
    L = ["from typing import Iterator, Optional", "from mypy_extensions import trait", "", "LOG: list[str] = []", ""]
    for h in hs:
        L += h.source()
        for name, t, params, body, _k in h.functions():
            L += [f"def {name}({params}) -> object:", f"    {body}", ""]
    return "\n".join(L), hs


def run(ctx: Ctx, pool, col=None):
    """two-phase (generator)"""
    rng = ctx.rng
    nh = ctx.pick(5, 16)
    cache = os.path.join(ctx.tmp, "mypy_cache_vt")
    src = hs = None
    for attempt in range(8):
        sub = random.Random(rng.getrandbits(64))
        src, hs = build(sub, nh)
        fr = front({"c05dun": src}, cache)
        if fr.modules is not None:
            break
        ctx.dist("dun_front_half", "crash" if fr.crash is not None else "rejected: " + (fr.errors[0].split("error:")[-1].strip()[:50] if fr.errors else "?"))
    else:
        raise ToolFailure("special-method battery: no generated module passes the front half: %r %r" % (fr.errors[:3], fr.crash))
    ctx.dist("dun_front_half", "compiled")
    if col is not None:
        col.add_modules("special-methods", fr.modules)
    for h in hs:
        ctx.dist("dun_hierarchy_depth", str(h.depth()))
        for i, ds in h.defs.items():
            lvl = "trait" if i == -1 else "depth %d" % len(h.ancestors(i))
            for d in ds:
                ctx.dist("dun_special_method_level", f"{d} @ {lvl}")
    opts = [rng.choice(["0", "3"])] if ctx.quick() else ["0", "3"]
    futs = []
    for opt in opts:
        d = os.path.join(ctx.tmp, f"dun_O{opt}")
        os.makedirs(d, exist_ok=True)
        with open(os.path.join(d, "c05dun.py"), "w") as fh:
            fh.write(src)
        futs.append((opt, d, pool.submit(compile_ext, d, ["c05dun.py"], opt)))
    jobs = []
    meta = []
    for h in hs:
        for name, t, params, body, kind in h.functions():
            subs = h.subclasses(t)
            insts = [f"{h.names[c]}{a}" for c in subs for a in INST]
            if not insts:
                continue
            if kind in (1, 11, 10, 12):
                cands = [(x,) for x in insts]
                if kind == 11:
                    cands.append(("None",))
                if kind == 12:
                    cands = [(f"{h.names[c]}{a}",) for c in subs if h.resolves(c, "__repr__") for a in INST[:2]]
                if kind == 10:
                    cands = [(f"{h.names[c]}{a}",) for c in subs if h.resolves(c, "__str__") or h.resolves(c, "__repr__") for a in INST[:2]]
            elif kind in (2, 21, 22):
                cands = [(a, b) for a in insts for b in insts]
                if kind == 22:
                    cands += [("None", a) for a in insts[:4]] + [(a, "None") for a in insts[:4]] + [("None", "None")]
                if kind == 21:
                    cands += [("None", a) for a in insts[:6]]
                if name.startswith("eq_obj"):
                    cands += [(a, o) for a in insts[:6] for o in ("1", "None", "'s'")]
                if name.startswith("eq_rev"):
                    cands += [(o, a) for a in insts[:6] for o in ("1", "None")]
            else:
                cands = []
                for x in insts:
                    for _ in range(2):
                        l = [rng.choice(insts) for _ in range(rng.randint(0, 3))]
                        cands.append((x, "[" + ", ".join(l) + "]"))
            cap = ctx.pick(24, 80)
            if len(cands) > cap:
                cands = rng.sample(cands, cap)
            for c in cands:
                jobs.append((len(jobs), f"run(lambda: {name}({', '.join(c)}))"))
                meta.append((h, name, t, body, c))
    yield
    ndiff = 0
    for opt, d, fut in futs:
        ok, log, secs = fut.result()
        if not ok:
            raise ToolFailure(f"mypyc could not compile the special-method battery (opt {opt}):\n" + log[-2500:])
        ppath = os.path.join(d, "prelude.py")
        with open(ppath, "w") as fh:
            fh.write(PRELUDE)
        res = run_worker(d, "c05dun", jobs, "dun", prelude=ppath, timeout=900)
        seen = set()
        for (idx, expr), (h, name, t, body, args) in zip(jobs, meta):
            interp, comp = res[idx]
            ctx.case(("U", opt, expr))
            ctx.count("traces_validated_against_impl")
            ctx.dist("dun_operation", name.split("_H")[0])
            if interp == comp:
                continue
            ndiff += 1
            ctx.count("disagreements_checked")
            shape = known_shape(h, name, t, args, interp, comp)
            key = (name.split("_H")[0], shape)
            if key in seen:
                continue
            seen.add(key)
            report(ctx, "dun", {"class": "special-method-differs", "shape": shape, "operation": name.split("_H")[0]},
                   f"`{body.splitlines()[0]}` with static type {h.tname(t)} — {expr[12:-1]} (opt {opt}): compiled {comp[:170]}, "
                   f"CPython {interp[:170]}",
                   {"kind": "dun", "source": src, "call": expr, "opt": opt, "compiled": comp, "cpython": interp}, cap=6)
    ctx.coverage["dun_hierarchies"] = len(hs)
    ctx.coverage["dun_functions"] = sum(len(h.functions()) for h in hs)
    ctx.coverage["dun_calls_per_opt_level"] = len(jobs)
    ctx.coverage["dun_differences"] = ndiff


def cls_of(h: Hier, arg: str) -> int | None:
    """index of the class an argument expression `H0K2(1, [1])` instantiates"""
    nm = arg.split("(")[0]
    return h.names.index(nm) if nm in h.names else None


def known_shape(h: Hier, name: str, t: int, args: tuple, interp: str, comp: str) -> str:
    """narrow shape of a *known* difference on the unchanged tree, else "other" """
    op = name.split("_H")[0]
    subs = h.subclasses(t)
    if op in ("truth_opt", "not_opt", "while_opt") and len(args) == 1:
        c = cls_of(h, args[0])
        # ll_builder.bool_value / add_bool_branch: Optional[T] is "always truthy" when no class at or below T has
        # __bool__ — __len__ is not looked at
        if c is not None and h.resolves(c, "__len__") and not any(h.resolves(x, "__bool__") for x in subs) \
                and (t == -1 or not h.static_has(t, "__bool__")):
            return "optional-truthiness-ignores-__len__"
    if op == "ne" and t >= 0 and not h.static_has(t, "__eq__") and h.static_has(t, "__ne__") \
            and not any(h.resolves(x, "__eq__") for x in subs) and "__ne__" not in comp:
        # ll_builder.translate_instance_eq... : no __eq__ anywhere => identity, also for `!=` when __ne__ *is* defined
        return "ne-defined-without-eq-compiled-as-identity"
    if op == "in_tuple" and len(args) == 2:
        ca, cb = cls_of(h, args[0]), cls_of(h, args[1])
        # `a in (b, b)` is expanded to `a == b or a == b`; CPython's containment test evaluates `item == a`
        if ca is not None and cb is not None and h.definer(ca, "__eq__") != h.definer(cb, "__eq__"):
            return "in-literal-tuple-compares-value-first"
    # special methods that a class gets only from a trait are not installed in its type slots: implicit uses through
    # PyObject_IsTrue / PyObject_Str / len() do not reach them
    import re as _re
    involved = {h.names.index(nm) for a in args for nm in _re.findall(r"H\d+K\d+", a) if nm in h.names}
    for d in ("__bool__", "__len__", "__str__"):
        only_trait = [c for c in involved if d in h.defs[-1] and h.has_trait(c)
                      and not any(d in h.defs[j] for j in [c] + h.ancestors(c))]
        tagname = f"{h.trait_name}.{d}"
        if only_trait and comp.count(tagname) < interp.count(tagname):
            return "trait-special-method-not-in-type-slots"
    return "other"


def replay(ctx: Ctx, det: dict) -> None:
    d = os.path.join(ctx.tmp, "dun_replay")
    os.makedirs(d, exist_ok=True)
    with open(os.path.join(d, "c05dun.py"), "w") as fh:
        fh.write(det["source"])
    ok, log, _ = compile_ext(d, ["c05dun.py"], det.get("opt", "0"))
    if not ok:
        print("compile failed:", log[-1500:])
        return
    ppath = os.path.join(d, "prelude.py")
    with open(ppath, "w") as fh:
        fh.write(PRELUDE)
    res = run_worker(d, "c05dun", [(0, det["call"])], "rp", prelude=ppath)
    print("call     :", det["call"])
    print("CPython  :", res[0][0])
    print("compiled :", res[0][1])
