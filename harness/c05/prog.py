"""C05 search — generated programs compiled by mypyc vs the same source under CPython.

Programs (harness/c05/progen.py) are validated by the front half (mypy + irbuild) of the checked tree, compiled in
small groups at several configurations (opt level 0 / 3; in the thorough tier also multi_file and separate
compilation), and driven by the *same* driver script (progdriver.py) as the plain .py files.  Compared per call:
returned value, exception type + message, the sequence of log lines the call produced (the program's stdout),
and the state of the argument objects after the call.

Documented differences are normalised away — nothing in the generated fragment needs it: identity of ints /
tuples is never observed, arguments are always of the annotated type, names are never rebound."""
from __future__ import annotations

import json
import os
import random
import re
import shutil
import subprocess

from harness.vlib.core import PY, Ctx, ToolFailure, repo_env
from harness.c05 import progen
from harness.c05.front import HERE, compile_ext, front, report, violation_nf


def drive(d: str, jobs, out: str, compiled: bool, timeout: int = 300) -> tuple[dict, str | None]:
    """Run progdriver.py; returns ({(module, k): (res, log, after)}, crash description or None)."""
    jf = os.path.join(d, "jobs.json")
    with open(jf, "w") as f:
        json.dump(jobs, f)
    if os.path.exists(out):
        os.remove(out)
    cmd = [PY, os.path.join(HERE, "progdriver.py"), d, jf, out] + (["expect-compiled"] if compiled else [])
    crash = None
    try:
        p = subprocess.run(cmd, cwd=d, env=repo_env(), capture_output=True, text=True, timeout=timeout)
        if p.returncode == 3:
            raise ToolFailure("program driver: wrong kind of module loaded: " + p.stderr[-500:])
        if p.returncode != 0:
            crash = "exit %d %s" % (p.returncode, p.stderr[-300:].replace("\n", " "))
    except subprocess.TimeoutExpired:
        crash = "timeout"
    res = {}
    partial = None
    if os.path.exists(out):
        with open(out, encoding="utf-8", errors="backslashreplace") as f:
            for line in f:
                parts = line.rstrip("\n").split("\t")
                if len(parts) == 5 and line.endswith("\n"):
                    res[(parts[0], int(parts[1]))] = (parts[2], parts[3], parts[4])
                elif len(parts) >= 2:
                    partial = (parts[0], int(parts[1]))
    if crash and partial:
        res[partial] = ("crash " + crash, "", "")
    return res, crash


# message texts that are known to differ (CPython text, compiled text, shape name of the known finding)
MESSAGE_VARIANTS = [
    ("string index out of range", "index out of range", "str-index-message"),
]
GEN_DONE = re.compile(r"(?:^| \| )gen\d+ done")


def normalise(a: tuple, b: tuple) -> tuple[tuple, tuple, list[str]]:
    """Remove the *known* differences from both observations; returns (a', b', shapes that were present)."""
    shapes = []
    for py_text, c_text, shape in MESSAGE_VARIANTS:
        # canonical form on both sides (the compiled code uses either text, depending on the path taken)
        a2 = tuple(x.replace(py_text, c_text) for x in a)
        b2 = tuple(x.replace(py_text, c_text) for x in b)
        if (a2 == b2) != (a == b) or (a2 != a and b2 == b):
            shapes.append(shape)
        a, b = a2, b2
    # a generator dropped before exhaustion: CPython runs its pending `finally` when the object is deallocated,
    # the compiled generator never does
    na, nb = len(GEN_DONE.findall(a[1])), len(GEN_DONE.findall(b[1]))
    if na > nb:
        strip = lambda s: " | ".join(x for x in s.split(" | ") if not re.fullmatch(r"gen\d+ done", x))
        a = (a[0], strip(a[1]), a[2])
        b = (b[0], strip(b[1]), b[2])
        shapes.append("unexhausted-generator-finally-not-run")
    return a, b, shapes


# Fixed micro-programs for the difference classes that are *known* (so that they stay visible on every run
# without derailing whole generated programs, whose generator steers around them).  (shape, function, args)
PROBE_SRC = '''from typing import Iterator

LOG: list[str] = []

def show(x: object) -> str:
    return repr(x)

def list_index(l: list[int], i: int) -> int:
    return l[i]

def list_set(l: list[int], i: int) -> None:
    l[i] = 7

def str_index(s: str, i: int) -> str:
    return s[i]

def caught_index(l: list[int], i: int) -> str:
    try:
        return str(l[i])
    except IndexError as e:
        return 'caught ' + str(e)

def gen_fin(n: int) -> Iterator[int]:
    try:
        for q in range(n):
            yield q
    finally:
        LOG.append('gen0 done')

def drop_gen() -> int:
    it = gen_fin(5)
    return next(it)

def exhaust_gen() -> list[int]:
    return list(gen_fin(3))

def floordiv(a: int, b: int) -> int:
    return a // b

def modulo(a: int, b: int) -> int:
    return a % b

def dict_get(d: dict[str, int], k: str) -> int:
    return d[k]

def list_pop(l: list[int]) -> int:
    return l.pop()

def unpack(t: list[int]) -> int:
    a, b = t
    return a + b
'''
PROBES = [
    ("plain", "list_index", ["[1, 2]", "1"]),
    ("plain", "list_index", ["[1, 2]", "5"]),
    ("index-beyond-ssize_t-raises-OverflowError", "list_index", ["[1, 2]", "2 ** 70"]),
    ("index-beyond-ssize_t-raises-OverflowError", "list_set", ["[1, 2]", "-2 ** 70"]),
    ("index-beyond-ssize_t-raises-OverflowError", "str_index", ["'ab'", "2 ** 64"]),
    ("index-beyond-ssize_t-raises-OverflowError", "caught_index", ["[1, 2]", "2 ** 70"]),
    ("plain", "caught_index", ["[1, 2]", "9"]),
    ("str-index-message", "str_index", ["'ab'", "5"]),
    ("plain", "str_index", ["'ab'", "-1"]),
    ("unexhausted-generator-finally-not-run", "drop_gen", []),
    ("plain", "exhaust_gen", []),
    ("plain", "floordiv", ["7", "0"]),
    ("plain", "floordiv", ["-7", "2"]),
    ("plain", "modulo", ["7", "0"]),
    ("plain", "modulo", ["2 ** 70", "0"]),
    ("plain", "dict_get", ["{'a': 1}", "'b'"]),
    ("plain", "list_pop", ["[]"]),
    ("plain", "unpack", ["[1, 2, 3]"]),
    ("plain", "unpack", ["[1]"]),
]


def probe_shape(label: str, a: tuple, b: tuple) -> str:
    """the known shape a probe difference has *as observed* (a = CPython, b = compiled), else "other" """
    if label == "index-beyond-ssize_t-raises-OverflowError":
        if "cannot fit 'int' into an index-sized integer" in a[0] and \
                b[0] == "exc OverflowError: Python int too large to convert to C ssize_t" and a[1:] == b[1:]:
            return label
    elif label == "str-index-message":
        if a[0] == "exc IndexError: string index out of range" and b[0] == "exc IndexError: index out of range" and a[1:] == b[1:]:
            return label
    elif label == "unexhausted-generator-finally-not-run":
        if a[0] == b[0] and a[2] == b[2] and a[1] == "gen0 done" and b[1] == "":
            return label
    return "other"


def classify(a: tuple, b: tuple) -> str:
    """a = interpreted, b = compiled"""
    if b[0].startswith("crash"):
        return "compiled-crashes"
    if a[0] != b[0]:
        ka, kb = a[0].split(" ", 1)[0], b[0].split(" ", 1)[0]
        if ka == "ok" and kb == "ok":
            return "return-value"
        if ka != kb:
            return "raises-vs-returns"
        ta, tb = a[0].split(":", 1)[0], b[0].split(":", 1)[0]
        return "exception-type" if ta != tb else "exception-message"
    if a[1] != b[1]:
        return "log-sequence"
    return "argument-state-after-call"


def run(ctx: Ctx, pool, col=None):
    """two-phase (generator): generation, front half, interpreted reference and submission of the compiles;
    `yield`; then the compiled runs and the comparison"""
    rng = ctx.rng
    nprog = ctx.pick(10, 36)
    per_group = 2
    variants = [("O0", "0", False, False), ("O3", "3", False, False)]
    if not ctx.quick():
        variants += [("O3-multi_file", "3", True, False), ("O0-separate", "0", False, True), ("O3-separate", "3", False, True)]
    cache = os.path.join(ctx.tmp, "mypy_cache_vt")
    progs = []
    tries = 0
    feats: dict[str, int] = {}
    while len(progs) < nprog and tries < nprog * 3:
        tries += 1
        name = f"p{len(progs)}"
        split = rng.random() < 0.5
        sub = random.Random(rng.getrandbits(64))
        sources, main, calls, feat = progen.generate(sub, name, split=split)
        fr = front(sources, cache, strict=True)
        if fr.modules is None:
            ctx.dist("prog_front_half", "crash:" + type(fr.crash).__name__ if fr.crash is not None else "rejected-by-mypy")
            continue
        ctx.dist("prog_front_half", "compiled")
        if col is not None:
            col.add_modules("programs", fr.modules)
        ctx.dist("prog_modules", "2 (lib + main)" if split else "1")
        for k, v in feat.items():
            feats[k] = feats.get(k, 0) + v
        progs.append((name, sources, calls))
    if len(progs) < nprog // 2:
        raise ToolFailure(f"program generator: only {len(progs)} of {tries} programs pass the front half")
    frp = front({"c05probe": PROBE_SRC}, cache, strict=True)
    if frp.modules is None:
        raise ToolFailure("probe module rejected by the front half: %r %r" % (frp.errors[:2], frp.crash))
    if col is not None:
        col.add_modules("probes", frp.modules)
    for k, v in sorted(feats.items()):
        ctx.dist("prog_constructs", k, v)
    # --- interpreted reference
    root = os.path.join(ctx.tmp, "prog")
    idir = os.path.join(root, "interp")
    os.makedirs(idir)
    jobs_all = []
    for name, sources, calls in progs:
        for m, s in sources.items():
            with open(os.path.join(idir, m + ".py"), "w") as f:
                f.write(s)
        jobs_all.append([name, [[fn, args] for fn, args, _ in calls]])
    ref, crash = drive(idir, jobs_all, os.path.join(idir, "out.txt"), compiled=False)
    if crash:
        raise ToolFailure("interpreted run of the generated programs failed: " + crash)
    for (m, k), (res, log, after) in ref.items():
        ctx.dist("prog_cpython_outcome", res.split(":")[0].split(" ")[0] if res.startswith("ok") else res.split(":")[0][4:])
    # --- compiled builds
    probe_prog = ("c05probe", {"c05probe": PROBE_SRC}, [(fn, args, sh) for sh, fn, args in PROBES])
    for m, src in probe_prog[1].items():
        with open(os.path.join(idir, m + ".py"), "w") as f:
            f.write(src)
    pref, crash = drive(idir, [["c05probe", [[fn, args] for _, fn, args in PROBES]]], os.path.join(idir, "out_probe.txt"), compiled=False)
    if crash:
        raise ToolFailure("interpreted run of the probes failed: " + crash)
    ref.update(pref)
    groups = [progs[i:i + per_group] for i in range(0, len(progs), per_group)] + [[probe_prog]]
    futs = []
    for tag, opt, multi, sep in variants:
        for gi, grp in enumerate(groups):
            d = os.path.join(root, f"{tag}_g{gi}")
            os.makedirs(d)
            files = []
            for name, sources, calls in grp:
                for m, s in sources.items():
                    with open(os.path.join(d, m + ".py"), "w") as f:
                        f.write(s)
                    files.append(m + ".py")
            futs.append((tag, gi, grp, d, pool.submit(compile_ext, d, files, opt, multi, sep)))
    yield
    ndiff = ncalls = 0
    known_seen: set = set()
    secs_total = 0.0
    for tag, gi, grp, d, fut in futs:
        ok, log, secs = fut.result()
        secs_total += secs
        if not ok:
            # the front half accepted the group: a failure of the back half / C compiler on an accepted program
            report(ctx, "prog", {"class": "compile-fails-after-front-half", "config": tag},
                       f"mypyc could not build an accepted program group ({tag}): {log[-300:]}",
                       {"kind": "prog", "config": tag, "sources": {m: s for _, ss, _ in grp for m, s in ss.items()}, "log": log[-2000:]})
            continue
        jobs = [[name, [[fn, args] for fn, args, _ in calls]] for name, _, calls in grp]
        got, crash = drive(d, jobs, os.path.join(d, "out.txt"), compiled=True)
        for name, sources, calls in grp:
            ctx.case(("P", tag, sources[name]))
            reported = False
            for k, (fn, args, _tys) in enumerate(calls):
                ncalls += 1
                ctx.count("traces_validated_against_impl")
                a = ref.get((name, k))
                b = got.get((name, k))
                if a is None:
                    raise ToolFailure("no interpreted result for %s call %d" % (name, k))
                if b is None:
                    if crash and not reported:
                        b = ("crash (process died earlier: %s)" % crash, "", "")
                    else:
                        continue
                if a == b:
                    continue
                ndiff += 1
                ctx.count("disagreements_checked")
                if name == "c05probe":
                    shape = probe_shape(_tys, a, b)
                    if (shape, tag) not in known_seen:
                        known_seen.add((shape, tag))
                        report(ctx, "prog", {"class": "probe-differs", "shape": shape},
                                   f"probe {fn}({', '.join(args)}) [{tag}]: compiled {b[0][:120]!r} log {b[1][:60]!r}; "
                                   f"CPython {a[0][:120]!r} log {a[1][:60]!r}",
                                   {"kind": "prog", "config": tag, "module": name, "call": [fn, args], "sources": sources,
                                    "compiled": b, "cpython": a})
                    continue
                a, b, shapes = normalise(a, b)
                for sh in shapes:
                    if (sh, tag) not in known_seen:
                        known_seen.add((sh, tag))
                        report(ctx, "prog", {"class": "program-differs", "shape": sh},
                                   f"{name}.{fn}({', '.join(args)}) [{tag}]: compiled {got[(name, k)][0][:100]!r} log "
                                   f"{got[(name, k)][1][:100]!r}; CPython {ref[(name, k)][0][:100]!r} log {ref[(name, k)][1][:100]!r}",
                                   {"kind": "prog", "config": tag, "module": name, "call": [fn, args], "sources": sources,
                                    "compiled": got[(name, k)], "cpython": ref[(name, k)]})
                if a == b:
                    continue
                if reported:
                    continue
                reported = True
                kind = classify(a, b)
                report(ctx, "prog", {"class": "program-differs", "what": kind, "config": tag},
                           f"{name}.{fn}({', '.join(args)}) [{tag}]: compiled {b[0][:140]!r} log {b[1][:80]!r}; "
                           f"CPython {a[0][:140]!r} log {a[1][:80]!r}",
                           {"kind": "prog", "config": tag, "module": name, "call": [fn, args], "sources": sources,
                            "compiled": b, "cpython": a})
    ctx.coverage["prog_programs"] = len(progs)
    ctx.coverage["prog_configs"] = [v[0] for v in variants]
    ctx.coverage["prog_calls_compared"] = ncalls
    ctx.coverage["prog_differences"] = ndiff
    ctx.coverage["prog_compile_cpu_s"] = round(secs_total, 1)
    if progs:
        ctx.sample({"program_head": progs[0][1][progs[0][0]][:600]})


def replay(ctx: Ctx, det: dict) -> None:
    tag = det.get("config", "O0")
    opt = "3" if tag.startswith("O3") else "0"
    multi, sep = "multi_file" in tag, "separate" in tag
    sources = det["sources"]
    root = os.path.join(ctx.tmp, "prog_replay")
    idir, cdir = os.path.join(root, "interp"), os.path.join(root, "comp")
    os.makedirs(idir); os.makedirs(cdir)
    for m, s in sources.items():
        for d in (idir, cdir):
            with open(os.path.join(d, m + ".py"), "w") as f:
                f.write(s)
    ok, log, _ = compile_ext(cdir, [m + ".py" for m in sources], opt, multi, sep)
    if not ok:
        print("compile failed:\n" + log[-2000:])
        return
    if "call" not in det:
        return
    jobs = [[det["module"], [det["call"]]]]
    a, _ = drive(idir, jobs, os.path.join(idir, "out.txt"), False)
    b, _ = drive(cdir, jobs, os.path.join(cdir, "out.txt"), True)
    print("call     :", det["call"])
    print("CPython  :", a.get((det["module"], 0)))
    print("compiled :", b.get((det["module"], 0)), f"[{tag}]")
