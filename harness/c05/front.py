"""C05 helpers: run mypyc's front half (mypy build + irbuild + transforms, no C) in process, and compile
modules to extension modules in a subprocess.  Everything imports mypy/mypyc from the checked tree
(`./check` puts $VERIF_REPO first on PYTHONPATH)."""
from __future__ import annotations

import os
import subprocess
import sys
import time

from harness.vlib.core import PY, REPO, ToolFailure, repo_env


class FrontResult:
    def __init__(self, modules=None, errors=None, crash=None):
        self.modules = modules          # dict name -> ModuleIR, or None
        self.errors = errors or []      # mypy / mypyc error messages
        self.crash = crash              # exception raised inside mypyc (BaseException instance) or None


def front(sources: dict[str, str], cache_dir: str, strict: bool = False) -> FrontResult:
    """mypy-check `sources` (module name -> text) and run mypyc up to final IR (one group, no C)."""
    from mypy import build
    from mypy.errors import CompileError
    from mypy.fscache import FileSystemCache
    from mypy.modulefinder import BuildSource
    from mypy.options import Options
    from mypyc.codegen.emitmodule import compile_modules_to_ir
    from mypyc.errors import Errors as MErrors
    from mypyc.irbuild.mapper import Mapper
    from mypyc.options import CompilerOptions

    o = Options()
    o.show_traceback = True
    o.export_types = True
    o.preserve_asts = True
    o.python_version = (3, 12)
    o.strict_optional = True
    o.incremental = True
    o.cache_dir = cache_dir
    o.sqlite_cache = False        # one sqlite connection per build() would be leaked: thousands of builds per run
    o.mypyc = True
    o.disallow_untyped_defs = strict
    o.per_module_options = {}
    msgs: list[str] = []
    try:
        res = build.build([BuildSource(m + ".py", m, s) for m, s in sources.items()], o,
                          flush_errors=lambda f, m, s: msgs.extend(m), fscache=FileSystemCache())
    except CompileError as e:
        return FrontResult(errors=list(e.messages) or msgs)
    try:
        res.manager.metastore.close()
    except Exception:  # noqa: BLE001
        pass
    errs = [m for m in msgs if ": error:" in m]
    if errs:
        return FrontResult(errors=errs)
    co = CompilerOptions(capi_version=(3, 12))
    e = MErrors(o)
    mapper = Mapper({m: None for m in sources})
    try:
        mods = compile_modules_to_ir(res, mapper, co, e)
    except BaseException as ex:  # noqa: BLE001 - mypyc may sys.exit or die with an internal error
        return FrontResult(crash=ex)
    if e.num_errors:
        return FrontResult(errors=list(e.new_messages()))
    return FrontResult(modules=mods)


SETUP = """\
from setuptools import setup
from mypyc.build import mypycify
setup(name='c05_out',
      ext_modules=mypycify({paths!r}, opt_level={opt!r}, debug_level='0', multi_file={multi!r},
                           separate={sep!r}))
"""


def compile_ext(d: str, files: list[str], opt: str = "0", multi_file: bool = False, separate: bool = False,
                timeout: int = 900) -> tuple[bool, str, float]:
    """Compile `files` (paths relative to `d`) into extension modules placed in `d`.
    Returns (ok, log tail, seconds)."""
    t0 = time.time()
    bd = os.path.join(d, "build")
    os.makedirs(bd, exist_ok=True)
    with open(os.path.join(bd, "setup.py"), "w") as f:
        f.write(SETUP.format(paths=files, opt=opt, multi=multi_file, sep=separate))
    env = repo_env()
    env.pop("PYTHONDONTWRITEBYTECODE", None)
    try:
        p = subprocess.run([PY, os.path.join("build", "setup.py"), "build_ext", "--inplace"], cwd=d, env=env,
                           capture_output=True, text=True, timeout=timeout)
    except subprocess.TimeoutExpired:
        return False, "timeout", time.time() - t0
    log = (p.stdout + p.stderr)
    ok = p.returncode == 0
    if ok:
        have = os.listdir(d)
        for fn in files:
            stem = os.path.basename(fn)[:-3]
            if not any(x.startswith(stem + ".") and x.endswith(".so") for x in have):
                ok = False
                log += f"\nno .so produced for {fn}"
    return ok, log[-4000:], time.time() - t0


HERE = os.path.dirname(os.path.abspath(__file__))


def run_worker(d: str, mod: str, jobs: list[tuple[int, str]], tag: str, prelude: str | None = None,
               timeout: int = 600) -> dict[int, tuple[str, str]]:
    """Evaluate `jobs` = [(idx, expression)] interpreted and compiled (see worker.py).  A job on which the
    compiled module kills the process is recorded as `crash <rc>`; one that hangs as `hang`."""
    import json
    res: dict[int, tuple[str, str]] = {}
    pending = list(jobs)
    rnd = 0
    crashes = 0
    while pending:
        rnd += 1
        jf = os.path.join(d, f"jobs_{tag}_{rnd}.jsonl")
        of = os.path.join(d, f"out_{tag}_{rnd}.txt")
        with open(jf, "w") as f:
            for idx, expr in pending:
                f.write(json.dumps([idx, expr]) + "\n")
        cmd = [PY, os.path.join(HERE, "worker.py"), d, mod, jf, of] + ([prelude] if prelude else [])
        hung = False
        try:
            p = subprocess.run(cmd, cwd=d, env=repo_env(), capture_output=True, text=True, timeout=timeout)
            rc, err = p.returncode, p.stderr
        except subprocess.TimeoutExpired:
            hung, rc, err = True, -1, "timeout"
        last = None
        partial = None
        if os.path.exists(of):
            with open(of) as f:
                for line in f:
                    parts = line.rstrip("\n").split("\t")
                    if len(parts) == 3 and line.endswith("\n"):
                        res[int(parts[0])] = (parts[1][2:], parts[2][2:])
                        last = int(parts[0])
                    elif len(parts) >= 2:
                        partial = (int(parts[0]), parts[1][2:])
        if rc == 0 and not hung:
            break
        if partial is None:
            if hung:
                raise ToolFailure(f"C05 worker ({tag}) timed out outside a compiled call")
            raise ToolFailure(f"C05 worker ({tag}) failed (rc {rc}) outside a compiled call:\n{err[-2000:]}")
        crashes += 1
        res[partial[0]] = (partial[1], "hang" if hung else "crash %d" % rc)
        pos = next(i for i, j in enumerate(pending) if j[0] == partial[0])
        pending = pending[pos + 1:]
        if crashes > 25:
            raise ToolFailure(f"C05 worker ({tag}): too many crashes/hangs of compiled code")
    return res


def report(ctx, key: str, observed: dict, what: str, replay, cap: int = 4) -> None:
    """ctx.report, but at most `cap` VIOLATION lines per `key` (known findings are deduplicated by ctx itself);
    the number of suppressed reports is kept in the evidence."""
    if ctx.match_known(observed) is None:
        caps = ctx.__dict__.setdefault("_c05_caps", {})
        caps[key] = caps.get(key, 0) + 1
        if caps[key] > cap and not os.environ.get("C05_NOCAP"):
            ctx.coverage["violations_not_printed (cap per class)"] = ctx.coverage.get("violations_not_printed (cap per class)", 0) + 1
            return
    ctx.report(observed, what, replay)


def violation_nf(ctx, key: str, what: str, replay, cap: int = 2) -> None:
    """A broken correspondence / proof obligation for which *this part* has no failing input.  Deferred: run.py emits
    it at the end (`flush_nf`) only if no part of the run found a concrete failing input (README, verdict logic 3)."""
    caps = ctx.__dict__.setdefault("_c05_caps", {})
    caps[key] = caps.get(key, 0) + 1
    if caps[key] > cap:
        ctx.coverage["violations_not_printed (cap per class)"] = ctx.coverage.get("violations_not_printed (cap per class)", 0) + 1
        return
    ctx.__dict__.setdefault("_c05_pending_nf", []).append((what, replay))


def flush_nf(ctx) -> None:
    pending = ctx.__dict__.get("_c05_pending_nf", [])
    ctx.coverage["broken_correspondences"] = [w[:200] for w, _ in pending]
    if not pending:
        return
    if ctx.violations:
        # concrete failing inputs were reported: the broken ties are listed in the evidence, not as extra lines
        print("  (also: %d model/implementation correspondence(s) broken — see coverage.broken_correspondences)" % len(pending), flush=True)
        return
    for what, replay in pending:
        ctx.violation(what, replay, found_input=False)
