"""C05 (b) — range-loop slice: generated `for i in range(a, b, c)` functions per operand-type combination.

T  the final IR of every function (front half of the checked tree) → loop skeleton (index register type,
   comparison, add kind, step literal) compared with `ForRange.emit` of Model/ForRange.lean;
K  the compiled functions driven on boundary triples: visited values vs the model's `visitN` and vs CPython's
   `range` (the interpreted twin).  A compiled ≠ CPython case is a concrete failure of C05: it is the known
   finding F12 exactly when an addition overflowed the index type and the model predicts the compiled values."""
from __future__ import annotations

import itertools
import os
import re

from harness.vlib.core import Ctx, ToolFailure
from harness.c05.front import compile_ext, front, run_worker, report, violation_nf

CAP = 5
TYPES = ["lit", "int", "i64", "i32", "i16", "u8"]
RANGE = {
    "short": (-2 ** 62, 2 ** 62 - 1), "int": (None, None), "i64": (-2 ** 63, 2 ** 63 - 1),
    "i32": (-2 ** 31, 2 ** 31 - 1), "i16": (-2 ** 15, 2 ** 15 - 1), "u8": (0, 255),
}


def lit_ty(v: int) -> str:
    return "short" if -2 ** 62 <= v < 2 ** 62 else "int"


def index_type(st: str, et: str) -> str:
    if st == "short" and et == "short":
        return "short"
    if et in ("i64", "i32", "i16", "u8"):
        return et
    return "int"


NATIVE = ("i64", "i32", "i16", "u8")


def loop_var_type(st: str, et: str) -> str:
    """mypy's checker.analyze_range_native_int_type: the loop variable is a native int iff exactly one
    native type occurs among the range() arguments"""
    nat = {t for t in (st, et) if t in NATIVE}
    return nat.pop() if len(nat) == 1 else "int"


def fits(t: str, v: int) -> bool:
    lo, hi = RANGE[t]
    return (lo is None or lo <= v) and (hi is None or v <= hi)


class Fn:
    def __init__(self, name, st, et, sval, evalue, step):
        self.name, self.st, self.et, self.sval, self.evalue, self.step = name, st, et, sval, evalue, step
        # model types of the two operands
        self.mst = lit_ty(sval) if st == "lit" else st
        self.met = lit_ty(evalue) if et == "lit" else et
        self.idx = index_type(self.mst, self.met)
        self.var = loop_var_type(self.mst, self.met)

    def params(self) -> list[str]:
        p = []
        if self.st != "lit":
            p.append(f"a: {self.st}")
        if self.et != "lit":
            p.append(f"b: {self.et}")
        return p

    def source(self) -> str:
        a = str(self.sval) if self.st == "lit" else "a"
        b = str(self.evalue) if self.et == "lit" else "b"
        if self.step == 1 and self.st == "lit" and self.sval == 0:
            rng = f"range({b})"
        elif self.step == 1:
            rng = f"range({a}, {b})"
        else:
            rng = f"range({a}, {b}, {self.step})"
        return (f"def {self.name}({', '.join(self.params())}) -> list[int]:\n"
                f"    out: list[int] = []\n"
                f"    for i in {rng}:\n"
                f"        out.append(i)\n"
                f"        if len(out) >= {CAP}:\n"
                f"            break\n"
                f"    return out\n")


def steps_for(idx: str, rng, k: int) -> list[int]:
    pos = [1, 1, 2, 3, 7]
    neg = [-1, -1, -2, -5]
    if idx == "u8":
        neg = []
        pos += [100, 255]
    elif idx == "i16":
        pos += [30000]; neg += [-30000]
    elif idx == "i32":
        pos += [2 ** 30 + 5]; neg += [-2 ** 31]
    elif idx == "i64":
        pos += [2 ** 62 + 1, 2 ** 63 - 1]; neg += [-2 ** 63]
    elif idx == "short":
        pos += [2 ** 61, 2 ** 62 - 2, 2 ** 62 - 1, 2 ** 62]; neg += [-2 ** 62, -2 ** 61 - 1]
    else:
        # |step| beyond 64 bits when doubled does not get through the C compiler (see README of the findings)
        pos += [2 ** 62, 2 ** 63 - 1, 2 ** 62 - 1]; neg += [-2 ** 62, -2 ** 61]
    out = []
    if pos:
        out.append(rng.choice(pos))
    if neg:
        out.append(rng.choice(neg))
    while len(out) < k:
        out.append(rng.choice(pos + neg))
    return out[:k]


def near(rng, t: str) -> int:
    """a value of type `t` near one of its boundaries / interesting points"""
    lo, hi = RANGE[t]
    pts = [0, 1, -1, 5]
    if lo is not None:
        pts += [lo, lo + 1, lo + 2, lo + 3, hi, hi - 1, hi - 2, hi - 3, hi - 4]
    else:
        pts += [2 ** 62, 2 ** 62 - 1, -2 ** 62, -2 ** 62 - 1, 2 ** 63, 2 ** 63 - 1, -2 ** 63, -2 ** 63 - 1, 2 ** 64, 2 ** 70, -2 ** 70]
    v = rng.choice(pts) + rng.choice([0, 0, 0, 1, -1, 2, -3])
    if lo is not None:
        v = max(lo, min(hi, v))
    return v


def gen_functions(ctx: Ctx) -> list[Fn]:
    rng = ctx.rng
    fns: list[Fn] = []
    per = ctx.pick(2, 5)
    for st, et in itertools.product(TYPES, TYPES):
        nvar = per if "lit" not in (st, et) else per + 1
        if st == "lit" and et == "lit":
            nvar = per * 4
        for _ in range(nvar):
            sval = evalue = 0
            if st == "lit":
                sval = near(rng, rng.choice(["short", "short", "int"]))
            if et == "lit":
                evalue = near(rng, rng.choice(["short", "short", "int"]))
            probe = Fn("x", st, et, sval, evalue, 1)
            if st == "lit" and probe.idx not in ("int", "short"):
                sval = near(rng, probe.idx)        # a literal start is coerced at compile time: it must fit
                probe = Fn("x", st, et, sval, evalue, 1)
            step = steps_for(probe.idx, rng, 1)[0] if rng.random() < 0.8 else rng.choice([1, -1])
            if st == "lit" and et == "lit":
                # literal triples: make them meet (a few steps apart), and sometimes so that the last add overflows
                k = rng.randint(0, 4)
                if rng.random() < 0.5:
                    lo, hi = RANGE["short"]
                    evalue = (hi - rng.randint(0, 2)) if step > 0 else (lo + rng.randint(0, 2))
                    evalue = max(lo, min(hi, evalue))
                sval = evalue - k * step - (rng.randint(1, abs(step)) if step > 0 else -rng.randint(1, abs(step)))
            if probe.idx == "u8" and step < 0:
                step = -step
            f = Fn(f"f{len(fns)}", st, et, sval, evalue, step)
            if f.idx != "int" and f.idx != "short" and not fits(f.idx, step):
                continue            # "Value … is out of range" is a compile error, not a program
            fns.append(f)
    return fns


def gen_args(ctx: Ctx, f: Fn) -> list[tuple[int, int]]:
    """(start, stop) pairs for the runtime parameters (literal operands keep their baked value)"""
    rng = ctx.rng
    out = []
    n = ctx.pick(10, 40)
    pst = "int" if f.st == "lit" else f.st
    pet = "int" if f.et == "lit" else f.et
    for _ in range(n):
        k = rng.randint(0, CAP + 1)
        mode = rng.random()
        if f.et == "lit":
            stop = f.evalue
        elif mode < 0.45 and f.idx not in ("int",):
            # stop at / near the edge the loop runs towards: the last add may overflow
            lo, hi = RANGE[f.idx]
            stop = (hi - rng.randint(0, 3)) if f.step > 0 else (lo + rng.randint(0, 3))
            if not fits(pet, stop):
                stop = near(rng, pet)
        else:
            stop = near(rng, pet)
        if f.st == "lit":
            start = f.sval
        elif mode < 0.9:
            delta = rng.randint(0, abs(f.step)) if abs(f.step) < 10 ** 6 else rng.choice([0, 1, abs(f.step) - 1, abs(f.step)])
            start = stop - k * f.step - (delta if f.step > 0 else -delta)
            if not fits(pst, start):
                start = near(rng, pst)
        else:
            start = near(rng, pst)
        out.append((start, stop))
    if f.st == "lit" and f.et == "lit":
        return [(f.sval, f.evalue)]
    return out


# --------------------------------------------------------------------------------- skeleton from final IR
def skeleton(fn_ir) -> str:
    from mypyc.ir.ops import Assign, CallC, ComparisonOp, Integer, IntOp, Register
    from mypyc.ir.rtypes import is_short_int_rprimitive, is_int_rprimitive, is_fixed_width_rtype
    ops = [op for b in fn_ir.blocks for op in b.ops]
    idx = lit = add = None
    for i, op in enumerate(ops):
        cand = None
        if isinstance(op, IntOp) and op.op == IntOp.ADD and isinstance(op.lhs, Register) and isinstance(op.rhs, Integer):
            cand = (op.lhs, op.rhs.value, "intop")
        elif isinstance(op, CallC) and op.function_name == "CPyTagged_Add" and isinstance(op.args[0], Register) \
                and isinstance(op.args[1], Integer):
            cand = (op.args[0], op.args[1].value, "tagged")
        if cand is None:
            continue
        for nxt in ops[i + 1:i + 4]:
            if isinstance(nxt, Assign) and nxt.dest is cand[0] and nxt.src is op:
                idx, lit, add = cand
    if idx is None:
        return "no-loop-found"
    t = idx.type
    if is_short_int_rprimitive(t):
        ty = "short"
    elif is_int_rprimitive(t):
        ty = "int"
    elif is_fixed_width_rtype(t):
        ty = t.name
    else:
        ty = str(t)
    cmps = set()
    slow = set()
    # the loop header is the block the step block jumps back to; the condition sits in it or (lowered tagged
    # comparison) within two branches of it
    from mypyc.ir.ops import Branch, Goto
    header = None
    for blk in fn_ir.blocks:
        if any(isinstance(o, Assign) and o.dest is idx and isinstance(o.src, (IntOp, CallC)) for o in blk.ops):
            term = blk.ops[-1]
            if isinstance(term, Goto):
                header = term.label
    if header is None:
        return "no-loop-header-found"
    level, seen_b = [header], {id(header)}
    strict = {ComparisonOp.SLT: "lt", ComparisonOp.SGT: "gt"}
    for depth in range(3):
        nxt = []
        for blk in level:
            for op in blk.ops:
                if isinstance(op, ComparisonOp) and op.lhs is idx:
                    if op.op in strict:
                        cmps.add(strict[op.op])
                    elif depth == 0:
                        cmps.add("other:" + ComparisonOp.op_str.get(op.op, "?"))
                if isinstance(op, CallC) and op.function_name == "CPyTagged_IsLt_":
                    if op.args[0] is idx:
                        slow.add("lt")
                    elif op.args[1] is idx:
                        slow.add("gt")
            term = blk.ops[-1]
            if isinstance(term, Branch):
                for t in (term.true, term.false):
                    if id(t) not in seen_b:
                        seen_b.add(id(t)); nxt.append(t)
        level = nxt
    if ty == "int" and slow != cmps:
        cmps = cmps | {"slow:" + s for s in slow}
    return f"idx={ty} cmp={'/'.join(sorted(cmps))} add={add} lit={lit}"


# ------------------------------------------------------------------------------------------------ run
def run(ctx: Ctx, pool, col=None):
    """two-phase (generator): everything up to the submitted C compile, `yield`, then the compiled runs"""
    fns = gen_functions(ctx)
    d = os.path.join(ctx.tmp, "fr")
    os.makedirs(d, exist_ok=True)
    opt = ctx.rng.choice(["0", "3"])
    # --- T: skeletons of the final IR.  Every generated function is inside the fragment by construction (literals fit
    # the index type the model computes); if the checked tree rejects some, they are dropped and reported below.
    rejected: list[tuple[Fn, str]] = []
    for _round in range(4):
        src = "from mypy_extensions import i64, i32, i16, u8\n\n" + "\n".join(f.source() for f in fns)
        fr = front({"c05fr": src}, os.path.join(ctx.tmp, "mypy_cache_vt"))
        if fr.modules is not None or fr.crash is not None or not fr.errors:
            break
        lines_src = src.split("\n")
        bad = {}
        for m in fr.errors:
            mm = re.match(r"c05fr\.py:(\d+):.*error: (.*)", m)
            if mm:
                k = int(mm.group(1)) - 1
                while k >= 0 and not lines_src[k].startswith("def "):
                    k -= 1
                bad[lines_src[k][4:].split("(")[0]] = mm.group(2)
        if not bad:
            break
        rejected += [(f, bad[f.name]) for f in fns if f.name in bad]
        fns = [f for f in fns if f.name not in bad]
    if fr.modules is None:
        raise ToolFailure("range-loop module does not compile: %r %r" % (fr.errors[:3], fr.crash))
    with open(os.path.join(d, "c05fr.py"), "w") as fh:
        fh.write(src)
    fut = pool.submit(compile_ext, d, ["c05fr.py"], opt)
    irs = {f.name: f for f in fr.modules["c05fr"].functions}
    if col is not None:
        col.add_modules("range-loops", fr.modules)
    jobs = []
    cases = []
    for f in fns:
        for (a, b) in gen_args(ctx, f):
            args = ([str(a)] if f.st != "lit" else []) + ([str(b)] if f.et != "lit" else [])
            cases.append((f, a, b))
            jobs.append((len(jobs), f"{f.name}({', '.join(args)})"))
    lines = [f"R {f.mst} {f.met} {f.step} {a} {b} {CAP}" for f, a, b in cases]
    model = ctx.lean_driver("Driver/C05.lean", lines)
    if len(model) != len(lines):
        raise ToolFailure("Driver/C05 R: wrong number of output lines")
    skel_bad = {}
    seen = set()
    for (f, a, b), m in zip(cases, model):
        if f.name in seen:
            continue
        seen.add(f.name)
        mskel = m.split(" init=")[0]
        rskel = skeleton(irs[f.name])
        ctx.case(("Rskel", f.mst, f.met, f.step))
        ctx.dist("fr_operand_types", f"{f.mst},{f.met}->{f.idx}")
        ctx.count("traces_validated_against_impl")
        if mskel != rskel:
            skel_bad[f.name] = (mskel, rskel)
    yield
    ok, log, secs = fut.result()
    if not ok:
        raise ToolFailure("mypyc could not compile the range-loop module:\n" + log[-2500:])
    ctx.coverage["fr_compile_s"] = round(secs, 1)
    res = run_worker(d, "c05fr", jobs, "fr", timeout=300)
    nbad = 0
    reported_fns = set()
    model_bad = []
    for (idx, expr), (f, a, b), m in zip(jobs, cases, model):
        if idx not in res:
            raise ToolFailure("range worker returned no result for job %d" % idx)
        interp, comp = res[idx]
        init = m.split(" init=")[1].split(" ")[0]
        mvis = m.split(" visit=")[1].split(" ")[0]
        mvals = [int(x) for x in mvis.split(",") if x]
        ctx.case(("R", f.mst, f.met, f.step, a, b))
        ctx.count("traces_validated_against_impl")
        ctx.dist("fr_index_type", f.idx)
        # CPython reference computed directly as well (the twin must agree with it)
        py = list(itertools.islice(range(a, b, f.step), CAP))
        if interp != "ok " + repr(py):
            raise ToolFailure(f"interpreted twin disagrees with range() on {expr}: {interp}")
        overflow = any(not fits(f.idx, v + f.step) for v in (py[:CAP - 1] if len(py) >= CAP else py))
        start_bad = not fits(f.idx, a)
        lit_bad = f.idx in ("int", "short") and not fits("short", f.step)
        # documented difference: the loop variable is a native int (inferred from the range() arguments) and a
        # value CPython's range produces does not fit it -> the compiled assignment must raise
        var_bad = any(not fits(f.var, v) for v in py)
        ctx.dist("fr_case_kind", "start-not-in-index-type" if start_bad else "step-literal-not-short" if lit_bad else
                 "step-overflow" if overflow else "loop-variable-native-range-check (normalised)" if var_bad else
                 "empty" if not py else "plain")
        if init == "raise" or any(not fits(f.var, v) for v in mvals):
            mpred = "exc"
        else:
            mpred = "ok " + repr(mvals)
        comp_matches_model = comp.startswith("exc ") if mpred == "exc" else comp == mpred
        if comp == interp or (var_bad and comp.startswith("exc ")):
            if not comp_matches_model:
                model_bad.append((f, a, b, expr, comp, m))
            continue
        nbad += 1
        ctx.count("disagreements_checked")
        if f.name in reported_fns and (overflow or start_bad or lit_bad):
            continue
        reported_fns.add(f.name)
        if start_bad and comp.startswith("exc ") and init == "raise":
            obs = {"class": "range-start-coerced-to-index-type", "index_type": f.idx, "start_fits_index_type": False,
                   "compiled_equals_model": True}
        elif lit_bad and comp_matches_model:
            obs = {"class": "range-step-literal-not-short-int", "index_type": f.idx, "step_is_short_int": False,
                   "compiled_equals_model": True}
        elif overflow and comp_matches_model and f.idx != "int":
            obs = {"class": "range-step-overflow", "index_type": f.idx, "step_overflows_index_type": True,
                   "compiled_equals_model": True}
        else:
            obs = {"class": "range-loop-differs", "index_type": f.idx, "step_overflows_index_type": overflow,
                   "compiled_equals_model": comp_matches_model}
        report(ctx, "fr", obs, f"`{f.source().splitlines()[2].strip()}` with {expr} (operand types {f.mst}/{f.met}, index {f.idx}, "
                        f"opt {opt}): compiled gives {comp[:160]}, CPython {interp[:160]}",
                   {"kind": "range", "function": f.source(), "call": expr, "opt": opt, "compiled": comp, "cpython": interp,
                    "model": m})
    # correspondence breaks without a failing input among the driven cases
    if skel_bad:
        name, (ms, rs) = sorted(skel_bad.items())[0]
        f = next(x for x in fns if x.name == name)
        violation_nf(ctx, "fr-skel", f"range-loop skeleton of the final IR differs from ForRange.emit for operand types {f.mst}/{f.met}, "
                     f"step {f.step}: IR `{rs}`, model `{ms}`",
                     {"broken": "translation tie: final IR loop skeleton vs Model/ForRange.lean emit", "kind": "range",
                      "function": f.source(), "ir": rs, "model": ms})
    if model_bad:
        f, a, b, expr, comp, m = model_bad[0]
        violation_nf(ctx, "fr-model", f"range-loop model predicts {m.split(' visit=')[1]} for {expr} but compiled code (= CPython) gives {comp}",
                     {"broken": "correspondence Model/ForRange.lean loop vs compiled code", "kind": "range",
                      "function": f.source(), "call": expr, "opt": opt})
    if rejected:
        f, why = rejected[0]
        violation_nf(ctx, "fr-rejected", f"mypyc rejects {len(rejected)} range-loop function(s) whose literals fit the index type "
                     f"Model/ForRange.lean computes (operand types {f.mst}/{f.met} -> {f.idx}): {why}",
                     {"broken": "translation tie: ForRange.init index type vs Model/ForRange.lean indexType", "kind": "range",
                      "function": f.source(), "error": why})
    ctx.coverage["fr_functions_rejected_by_mypyc"] = len(rejected)
    ctx.coverage["fr_functions"] = len(fns)
    ctx.coverage["fr_triples"] = len(cases)
    ctx.coverage["fr_compiled_differs_from_cpython"] = nbad
    ctx.coverage["fr_skeleton_mismatches"] = len(skel_bad)
    ctx.coverage["fr_opt_level"] = opt
    ctx.sample({"range_case": lines[len(lines) // 3], "model": model[len(lines) // 3]})


def replay(ctx: Ctx, det: dict) -> None:
    src = "from mypy_extensions import i64, i32, i16, u8\n\n" + det["function"].replace(det["function"].split("(")[0], "def f", 1)
    d = os.path.join(ctx.tmp, "fr_replay")
    os.makedirs(d, exist_ok=True)
    with open(os.path.join(d, "c05fr.py"), "w") as fh:
        fh.write(src)
    fr = front({"c05fr": src}, os.path.join(ctx.tmp, "mypy_cache_vt"))
    if fr.modules is not None:
        print("IR skeleton:", skeleton(next(f for f in fr.modules["c05fr"].functions if f.name == "f")))
    if "call" in det:
        ok, log, _ = compile_ext(d, ["c05fr.py"], det.get("opt", "0"))
        if not ok:
            print("compile failed:", log[-1500:])
            return
        call = "f(" + det["call"].split("(", 1)[1]
        res = run_worker(d, "c05fr", [(0, call)], "rp")
        print("call     :", call)
        print("CPython  :", res[0][0])
        print("compiled :", res[0][1])
