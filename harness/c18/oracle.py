"""The property's own oracle on the real code (no Lean model involved).

`roundtrip_failures(case, world, real)`: for a case whose real observations `real` (layout.parse of
layout.real_eval) contain no duplicate module, the sources whose module name does *not* lead `find_module` back
to the file or its sibling stub, each with the excluded cells it lies in (computed with the real code's own
`crawl_up_dir` / os.path — a mirror of the side conditions of `roundtrip_or_duplicate_partial`).
A failing source that lies in no excluded cell is a concrete violation of the property.
"""
from __future__ import annotations

import os

from . import layout


def _isid(s: str) -> bool:
    return s.isidentifier() and s.isascii()


def _has_init(d: str) -> bool:
    return any(os.path.isfile(os.path.join(d, "__init__" + e)) for e in (".pyi", ".py"))


def _verified(base: str, comps: list[str]) -> bool:
    d = base
    for c in comps[:-1]:
        d = os.path.join(d, c)
        if not _has_init(d):
            return False
    return True


def cells_of(case, world, real, src, found) -> list[str]:
    """Names of the excluded cells the source lies in (empty list = the statement must hold for it)."""
    from mypy.find_sources import InvalidSourceList, SourceFinder
    from mypy.fscache import FileSystemCache

    path, mod, base = src
    comps = mod.split(".")
    listed = {s[0] for s in real["S"]}
    roots = real["R"]
    cwd = layout._abs(world, case.cwd)
    mp = [layout._abs(world, p) for p in case.mypy_path]
    cells = []
    if not os.path.isfile(path):
        cells.append("not-a-file")
    spelled = base != "-" and path in (
        [os.path.join(base, *comps) + e for e in (".py", ".pyi")]
        + [os.path.join(base, *comps, "__init__" + e) for e in (".py", ".pyi")])
    if base == "-" or not all(_isid(x) and x != "__init__" for x in comps) or not spelled:
        if mod == "__main__" and os.path.basename(path) in ("__init__.py", "__init__.pyi") and case.epb:
            cells.append("init-in-explicit-base")
        else:
            cells.append("not-importable")
    if found not in ("-",) and not found.endswith(":d") and found not in listed \
            and found != path and not (path.endswith(".py") and found == path + "i"):
        cells.append("unlisted-file-shadows")
    # configured roots that are inside a package (real crawl_up_dir)
    old = os.getcwd()
    try:
        os.chdir(cwd)
        o = layout._options(case, world)
        o.mypy_path = mp
        sf = SourceFinder(FileSystemCache(), o)
        for r in mp + [cwd]:
            try:
                if sf.crawl_up_dir(r) != ("", r):
                    cells.append("root-inside-package")
                    break
            except InvalidSourceList:
                cells.append("root-inside-package")
                break
            except Exception:           # the real crawl raised something else (reported where it was first seen)
                cells.append("real-code-raises")
                break
    finally:
        os.chdir(old)
    ebases = set(mp + [cwd]) if case.epb else None
    if ebases is not None:
        inner = False
        for r in roots:
            for i in range(1, len(comps) + 1):
                if os.path.join(r, *comps[:i]) in ebases:
                    inner = True
            if os.path.join(r, *comps[:-1], comps[-1] + "-stubs") in ebases:
                inner = True
        if inner:
            cells.append("explicit-base-inside-root")
        if any(s[2] != "-" and s[2] not in ebases for s in real["S"]):
            cells.append("source-outside-explicit-bases")
    if case.ns and base != "-" and not _verified(base, comps):
        for r in roots:
            d = os.path.join(r, *comps)
            if os.path.isdir(d) and not _has_init(d):
                cells.append("bare-dir-beside-module")
                break
    return cells


def roundtrip_failures(case, world, real):
    """[(src, found, cells)] for sources that do not round-trip; [] when a duplicate module stops mypy."""
    if "E" in real or "S" not in real or real.get("D", "-") != "-":
        return []
    out = []
    for src, (m2, found) in zip(real["S"], real["F"]):
        path = src[0]
        if found == path or (path.endswith(".py") and found == path + "i"):
            continue
        out.append((src, found, cells_of(case, world, real, src, found)))
    return out


# ------------------------------------------------------------------ `mypy DIR` against `mypy FILES…`
SKIP = ("__pycache__", "site-packages", "node_modules")


def _walk_py(d: str):
    """.py[i] files a directory walk from d reaches (same skipping rule as find_sources_in_dir)"""
    out = []
    try:
        names = sorted(os.listdir(d))
    except OSError:
        return out
    for n in names:
        if n in SKIP or n.startswith("."):
            continue
        p = os.path.join(d, n)
        if os.path.isdir(p):
            out += _walk_py(p)
        elif os.path.splitext(n)[1] in (".py", ".pyi"):
            out.append(p)
    return out


def dir_failures(case, world, real):
    """For a case whose only argument is a directory: the reachable files that are neither listed nor have their
    module name carried by another listed file -> [(file, module, in_f10_cell)].  Uses the real crawl_up."""
    from mypy.find_sources import InvalidSourceList, SourceFinder
    from mypy.fscache import FileSystemCache

    if "E" in real or "S" not in real or len(case.args) != 1 or case.args[0].endswith((".py", ".pyi")):
        return []          # (a path ending in .py[i] is taken as a file by create_source_list, whatever it is)
    d = layout._abs(world, case.args[0])
    if not os.path.isdir(d):
        return []
    cwd = layout._abs(world, case.cwd)
    mp = [layout._abs(world, p) for p in case.mypy_path]
    listed = {s[0]: s[1] for s in real["S"]}
    out = []
    old = os.getcwd()
    try:
        os.chdir(cwd)
        o = layout._options(case, world)
        o.mypy_path = mp
        sf = SourceFinder(FileSystemCache(), o)
        ebases = set(mp + [cwd]) if case.epb else set()
        for f in _walk_py(d):
            if f in listed:
                continue
            try:
                mod, _ = sf.crawl_up(f)
            except Exception:
                continue
            mod = mod or "__main__"
            if any(m == mod and p != f for p, m in listed.items()):
                continue
            D, n = os.path.split(f)
            st = os.path.splitext(n)[0]
            sd = os.path.join(D, st)
            clean = (_has_init(sd) and sd not in ebases and _isid(st) and st != "__init__"
                     and not os.path.isdir(os.path.join(sd, "__init__")))
            in_cell = os.path.isdir(sd) and bool(_walk_py(sd)) and not clean
            out.append((f, mod, in_cell))
    finally:
        os.chdir(old)
    return out
