"""C18 helpers: a layout case, its encoding for the Lean driver, and the same observations on the real code.

A case lives in a private *world* directory W (its name is never a valid identifier, so no crawl goes above
it); everything is expressed relative to W:

  entries : [(relpath, "f"|"d")]     files / (possibly empty) directories to create
  args    : [relpath]                what is named on the command line (files and/or directories)
  cwd     : relpath                  working directory
  mypy_path : [relpath]              MYPYPATH / mypy_path roots
  ns, epb : bools                    namespace_packages, explicit_package_bases
  via_env : bool                     put mypy_path into $MYPYPATH instead of options.mypy_path
  pkg     : str | None               additionally observe `-p pkg` (find_modules_recursive)
"""
from __future__ import annotations

import os
import shutil
from dataclasses import dataclass, field, asdict

PY_EXT = (".pyi", ".py")


@dataclass
class Case:
    entries: list
    args: list
    cwd: str = ""
    mypy_path: list = field(default_factory=list)
    ns: bool = True
    epb: bool = False
    via_env: bool = False
    pkg: str | None = None
    kind: str = ""
    abs_args: bool = False

    def key(self):
        return (tuple(map(tuple, self.entries)), tuple(self.args), self.cwd, tuple(self.mypy_path), self.ns, self.epb, self.pkg)

    def to_json(self):
        return asdict(self)

    @staticmethod
    def from_json(d):
        d = dict(d)
        d["entries"] = [tuple(e) for e in d["entries"]]
        return Case(**d)


def _abs(world: str, rel: str) -> str:
    return os.path.normpath(os.path.join(world, rel)) if rel not in ("", ".") else world


def depth_of(case: Case) -> int:
    return max([len(p.split("/")) for p, _ in case.entries] + [1])


def encode(case: Case, world: str) -> str:
    """One driver line (absolute paths)."""
    ent = ",".join(("f:" if k == "f" else "d:") + _abs(world, p) for p, k in case.entries)
    fuel = depth_of(case) + 2
    return " ".join([
        "ns=%d" % case.ns, "epb=%d" % case.epb, "cwd=" + _abs(world, case.cwd),
        "mp=" + ":".join(_abs(world, p) for p in case.mypy_path),
        "ent=" + ent, "args=" + ",".join(_abs(world, a) for a in case.args),
        "fuel=%d" % fuel, "pkg=" + (case.pkg or "-"),
    ])


_CURRENT: dict = {}      # world -> set of (relpath, kind) currently on disk


def materialise(case: Case, world: str) -> None:
    """Make the world directory contain exactly the entries of the case (+ its cwd).  Consecutive cases mostly share
    the tree, so only the difference is applied."""
    want = set((p, k) for p, k in case.entries)
    if case.cwd and not any(p == case.cwd or p.startswith(case.cwd + "/") for p, _ in want):
        want.add((case.cwd, "d"))
    have = _CURRENT.get(world)
    if have is None or not os.path.isdir(world) or have - want:
        # something must disappear: start afresh (removing single entries would leave empty parents behind)
        if os.path.isdir(world):
            shutil.rmtree(world)
        os.makedirs(world)
        have = set()
    for p, k in sorted(want - have):
        full = os.path.join(world, p)
        if k == "d":
            os.makedirs(full, exist_ok=True)
        else:
            os.makedirs(os.path.dirname(full), exist_ok=True)
            with open(full, "w") as f:
                f.write("")
    _CURRENT[world] = want


_SV = None


def _stdlib_versions():
    global _SV
    if _SV is None:
        from mypy.modulefinder import load_stdlib_py_versions
        _SV = load_stdlib_py_versions(None)
    return _SV


def _options(case: Case, world: str):
    from mypy.options import Options
    o = Options()
    o.namespace_packages = case.ns
    o.explicit_package_bases = case.epb
    o.python_executable = None
    if not case.via_env:
        o.mypy_path = [_abs(world, p) for p in case.mypy_path]
    return o


def _show_found(world: str, r) -> str:
    if not isinstance(r, str):
        return "-"
    a = os.path.abspath(r)
    if not (a + os.sep).startswith(world + os.sep):
        return "-"                      # typeshed etc.: outside the modelled tree
    return a + (":d" if os.path.isdir(a) else "")


def real_eval(case: Case, world: str, relative_args: bool = True) -> str:
    """The driver's output line computed by the real code (tree must be materialised)."""
    import mypy.build
    from mypy.find_sources import InvalidSourceList, create_source_list
    from mypy.fscache import FileSystemCache
    from mypy.modulefinder import BuildSourceSet, FindModuleCache, SearchPaths, compute_search_paths

    old_cwd = os.getcwd()
    old_env = os.environ.get("MYPYPATH")
    cwd = _abs(world, case.cwd)
    try:
        os.chdir(cwd)
        if case.via_env and case.mypy_path:
            os.environ["MYPYPATH"] = os.pathsep.join(_abs(world, p) for p in case.mypy_path)
        else:
            os.environ.pop("MYPYPATH", None)
        o = _options(case, world)
        args = []
        for a in case.args:
            full = _abs(world, a)
            args.append(os.path.relpath(full, cwd) if (relative_args and not case.abs_args) else full)
        out = []
        pkg_out = ""
        if case.pkg:
            # main.process_options for -p
            from mypy.modulefinder import mypy_path
            sp = SearchPaths((os.getcwd(),), tuple(mypy_path() + o.mypy_path), (), ())
            cache = FindModuleCache(sp, FileSystemCache(), o, stdlib_py_versions=_stdlib_versions())
            tg = cache.find_modules_recursive(case.pkg)
            pkg_out = " # P " + ";".join(_show_found(world, t.path) + "|" + t.module for t in tg)
        try:
            srcs = create_source_list(args, o, FileSystemCache())
        except InvalidSourceList as e:
            msg = str(e)
            if "is not a valid Python package name" in msg:
                return "E bad:" + msg.split(" contains ")[0] + pkg_out
            if msg.startswith("There are no .py[i] files in directory"):
                d = msg.split("'")[1]
                return "E empty:" + os.path.abspath(d) + pkg_out
            return "E other:" + msg + pkg_out
        def show_src(s):
            return "%s|%s|%s" % (os.path.abspath(s.path), s.module, s.base_dir if s.base_dir else "-")
        out.append("S " + ";".join(show_src(s) for s in srcs))
        seen, dup = set(), "-"
        for s in srcs:
            if s.module in seen:
                dup = s.module
                break
            seen.add(s.module)
        out.append("D " + dup)
        sp = compute_search_paths(srcs, o, os.path.dirname(mypy.build.__file__), None)
        out.append("R " + ";".join(os.path.abspath(p) for p in sp.mypy_path + sp.python_path))
        fmc = FindModuleCache(sp, FileSystemCache(), o, stdlib_py_versions=_stdlib_versions(),
                              source_set=BuildSourceSet(srcs))
        out.append("F " + ";".join(s.module + "=>" + _show_found(world, fmc.find_module(s.module)) for s in srcs))
        return " # ".join(out) + pkg_out
    finally:
        os.chdir(old_cwd)
        if old_env is None:
            os.environ.pop("MYPYPATH", None)
        else:
            os.environ["MYPYPATH"] = old_env


# ------------------------------------------------------------------ parsing the common output format
def parse(line: str) -> dict:
    """{'E': str} or {'S': [(path, module, base)], 'D': str, 'R': [root], 'F': [(module, found)], 'P': [...]}"""
    res: dict = {}
    for sec in line.split(" # "):
        tag, _, body = sec.partition(" ")
        if tag == "E":
            res["E"] = body
        elif tag == "S":
            res["S"] = [tuple(x.split("|")) for x in body.split(";")] if body else []
        elif tag == "D":
            res["D"] = body
        elif tag == "R":
            res["R"] = body.split(";") if body else []
        elif tag == "F":
            res["F"] = [tuple(x.split("=>")) for x in body.split(";")] if body else []
        elif tag == "P":
            res["P"] = [tuple(x.split("|")) for x in body.split(";")] if body else []
        elif tag == "H":
            res["H"] = dict(x.split("=") for x in body.split(",")) if body else {}
    return res
