"""Tree / case generators for C18.

The tree root is `r/` inside the world directory (an identifier, so that an `__init__.py` directly in it makes
the crawl continue one level up to the world directory, whose name is not an identifier).

  * canonical enumeration: subsets of the 42 candidate files  r/{,a,b,a/a,a/b,b/a,b/b}/{__init__,a,b}.{py,pyi}
    up to the renaming a <-> b, by size;
  * a structured random stream over a larger alphabet (c, nested namespace dirs, empty dirs, non-py files);
  * a malformed stream: invalid identifiers, `-stubs` directories, dotted stems, hidden names, skipped
    directory names, directories named like modules / `__init__`, `__main__`, files named on the command line
    that do not exist.
Each tree is combined with option / cwd / mypy_path / argument-style combinations.
"""
from __future__ import annotations

import itertools
import os

from .layout import Case

ROOT = "r"
DIRS = ["", "a", "b", "a/a", "a/b", "b/a", "b/b"]
STEMS = ["__init__", "a", "b"]
EXTS = [".py", ".pyi"]
CAND = [os.path.join(ROOT, d, s + e) for d in DIRS for s in STEMS for e in EXTS]     # 42


def _swap(p: str) -> str:
    parts = p.split("/")
    out = []
    for i, c in enumerate(parts):
        if i == 0:
            out.append(c)
            continue
        stem, ext = os.path.splitext(c)
        stem = {"a": "b", "b": "a"}.get(stem, stem)
        out.append(stem + ext)
    return "/".join(out)


def canonical(files) -> bool:
    a = sorted(files)
    b = sorted(_swap(f) for f in files)
    return a <= b


def enum_trees(size: int):
    for combo in itertools.combinations(CAND, size):
        if canonical(combo):
            yield list(combo)


def count_trees(size: int) -> int:
    return sum(1 for _ in enum_trees(size))


def random_tree(rng, maxfiles: int = 6):
    k = rng.randint(1, maxfiles)
    # bias towards related files: pick 1-3 directories, fill them
    dirs = rng.sample(DIRS, min(len(DIRS), rng.randint(1, 3)))
    pool = [os.path.join(ROOT, d, s + e) for d in dirs for s in STEMS for e in EXTS]
    if rng.random() < 0.3:
        pool = CAND
    files = rng.sample(pool, min(k, len(pool)))
    if not canonical(files):
        files = [_swap(f) for f in files]
    return sorted(files)


# --------------------------------------------------------------------------------- wide / malformed trees
WIDE_DIRS = ["", "a", "b", "c", "a/a", "a/b", "a/c", "b/a", "c/a", "a/b/c", "a/a/a", "b/c/a"]
WIDE_FILES = ["__init__.py", "__init__.pyi", "a.py", "a.pyi", "b.py", "b.pyi", "c.py", "c.pyi", "x.txt", "a"]

ODD_DIR_NAMES = ["a-stubs", "b-stubs", "a-b", "1a", "a.b", "__init__", "__pycache__", "node_modules",
                 "site-packages", ".h", "a.py", "b.pyi", "-stubs"]
ODD_FILE_NAMES = ["a.b.py", "a-b.py", "1a.py", "a-stubs.py", "a-stubs.pyi", ".h.py", "__main__.py", "a.py.py", "a.pyi.py",
                  "a.txt", "a", "py", "a.pyx", "__init__.pyi.py", "__init__.txt", "A.py", "a.PY", "a.pyi.pyi"]


def wide_tree(rng, maxfiles: int = 8):
    k = rng.randint(1, maxfiles)
    dirs = rng.sample(WIDE_DIRS, rng.randint(1, 4))
    ents = set()
    for _ in range(k):
        d = rng.choice(dirs)
        f = rng.choice(WIDE_FILES)
        ents.add((os.path.join(ROOT, d, f), "f"))
    if rng.random() < 0.3:
        ents.add((os.path.join(ROOT, rng.choice(WIDE_DIRS), "e"), "d"))        # an empty directory
    return _consistent(sorted(ents))


def odd_tree(rng, maxfiles: int = 6):
    k = rng.randint(1, maxfiles)
    ents = set()
    dirs = [""] + rng.sample(DIRS[1:], 2)
    odd_dirs = rng.sample(ODD_DIR_NAMES, rng.randint(1, 2))
    for od in odd_dirs:
        dirs.append(os.path.join(rng.choice(dirs[:3]), od))
    for _ in range(k):
        d = rng.choice(dirs)
        if rng.random() < 0.5:
            f = rng.choice(ODD_FILE_NAMES)
        else:
            f = rng.choice(STEMS) + rng.choice(EXTS)
        ents.add((os.path.normpath(os.path.join(ROOT, d, f)), "f"))
    if rng.random() < 0.3:
        ents.add((os.path.normpath(os.path.join(ROOT, rng.choice(dirs), rng.choice(ODD_DIR_NAMES))), "d"))
    return _consistent(sorted(ents))


# --------------------------------------------------------------------------------- several roots
MR_TEMPLATE = ["p/__init__.py", "p/__init__.pyi", "p/m.py", "p/m.pyi", "p/q/__init__.py", "p/q/m.py", "p/q/m.pyi",
               "p/q/m/__init__.py", "p/q/m/n.py", "p/m/__init__.py", "m.py", "m.pyi", "q/m.py", "q/__init__.py",
               "p/q/r/__init__.pyi", "p/q/r/m.py", "p/__init__/m.py", "p/__init__/__init__.py", "p/q/__init__/m.pyi"]
MR_ROOTS = ["r", "s", "t", "r/u"]


def multiroot_case(rng):
    """Two to four roots holding overlapping module names; mypy_path is a subset of the roots in some order."""
    roots = rng.sample(MR_ROOTS, rng.randint(2, 3))
    ents = set()
    for r in roots:
        for f in rng.sample(MR_TEMPLATE, rng.randint(1, 5)):
            ents.add((r + "/" + f, "f"))
    ents = _consistent(sorted(ents))
    files = [p for p, k in ents]
    mp = rng.sample(roots, rng.randint(0, len(roots)))
    epb = rng.random() < 0.4
    ns = epb or rng.random() < 0.7
    cwd = rng.choice(["", "o"] + roots)
    if cwd and not any(p == cwd or p.startswith(cwd + "/") for p, _ in ents):
        ents.append((cwd, "d"))
    style = rng.choice(["files", "files-rev", "files-shuffled", "roots", "subset"])
    if style == "files":
        args = sorted(files)
    elif style == "files-rev":
        args = sorted(files, reverse=True)
    elif style == "files-shuffled":
        args = list(files)
        rng.shuffle(args)
    elif style == "roots":
        args = [r for r in roots if any(p.startswith(r + "/") for p in files)]
        rng.shuffle(args)
    else:
        args = rng.sample(files, rng.randint(1, len(files)))
    pkg = rng.choice([None, None, "p", "p.q", "q", "p.__init__"])
    return Case(entries=ents, args=args, cwd=cwd, mypy_path=mp, ns=ns, epb=epb, via_env=rng.random() < 0.25, pkg=pkg,
                kind="multiroot:" + style, abs_args=rng.random() < 0.3)


def contested_case(rng):
    """One module path (p, p.q or p.q.m …) present under several roots with different `__init__` patterns and leaf
    forms; everything else is unique.  Duplicate modules only arise when two roots crawl to the same name, so most
    cases test which root `find_module` prefers (verify_module, highest_init_level, root order, namespace dirs)."""
    roots = rng.sample(["r", "s", "t"], rng.randint(2, 3))
    chain = ["p", "q", "k"][:rng.randint(0, 3)]
    ents = set()
    for r in roots:
        d = r
        alive = True
        for c in chain:
            d = d + "/" + c
            if rng.random() < 0.12:
                alive = False
                break
            if rng.random() < 0.55:
                ents.add((d + "/__init__" + rng.choice([".py", ".py", ".pyi"]), "f"))
        if not alive:
            ents.add((r + "/other_" + r + ".py", "f"))
            continue
        leaf = rng.choice(["m.py", "m.pyi", "m/__init__.py", "m/__init__.pyi", "m/n.py", "both", "mod+bare", "none"])
        if leaf == "both":
            ents.add((d + "/m.py", "f")); ents.add((d + "/m.pyi", "f"))
        elif leaf == "mod+bare":
            ents.add((d + "/m.py", "f")); ents.add((d + "/m/n.py", "f"))
        elif leaf == "none":
            ents.add((d, "d"))
        else:
            ents.add((d + "/" + leaf, "f"))
        if rng.random() < 0.3:
            ents.add((r + "/uniq_" + r + ".py", "f"))
    ents = _consistent(sorted(ents))
    files = [p for p, k in ents if k == "f"]
    if not files:
        ents.append(("r/x.py", "f")); files = ["r/x.py"]
    mp = rng.sample(roots, rng.randint(0, len(roots)))
    epb = rng.random() < 0.35
    ns = epb or rng.random() < 0.7
    cwd = rng.choice(["", "o"] + roots)
    if cwd and not any(p == cwd or p.startswith(cwd + "/") for p, _ in ents):
        ents.append((cwd, "d"))
    style = rng.choice(["files", "files-rev", "files-shuffled", "roots", "one-root"])
    if style == "files":
        args = sorted(files)
    elif style == "files-rev":
        args = sorted(files, reverse=True)
    elif style == "files-shuffled":
        args = list(files); rng.shuffle(args)
    elif style == "roots":
        args = [r for r in roots if any(p.startswith(r + "/") for p in files)]
        rng.shuffle(args)
    else:
        r = rng.choice(roots)
        args = [f for f in files if f.startswith(r + "/")] or sorted(files)
    pkg = rng.choice([None, None, "p", ".".join(chain) if chain else "m", ".".join(chain + ["m"])])
    return Case(entries=ents, args=args, cwd=cwd, mypy_path=mp, ns=ns, epb=epb, via_env=rng.random() < 0.25, pkg=pkg,
                kind="contested:" + style, abs_args=rng.random() < 0.3)


def dup_pair_case(rng):
    """A listing that names a contested pair individually — X.py + X.pyi, __init__.py + __init__.pyi, a module beside
    its package, the same module under two non-package roots — in a random order, among uncontested files; half of
    the time the pair is *not* contested (control)."""
    kind = rng.choice(["py+pyi", "init-py+pyi", "module+package", "two-roots", "control"])
    ents = [("pk/__init__.py", "f"), ("pk/b.py", "f")]
    if rng.random() < 0.5:
        ents.append(("pk/s/c.py", "f"))
    if kind == "py+pyi":
        d = rng.choice(["pk", "pk/s"])
        pair = [d + "/a.py", d + "/a.pyi"]
    elif kind == "init-py+pyi":
        pair = ["pk/s/__init__.py", "pk/s/__init__.pyi"]
    elif kind == "module+package":
        pair = ["pk/a" + rng.choice([".py", ".pyi"]), "pk/a/__init__" + rng.choice([".py", ".pyi"])]
    elif kind == "two-roots":
        pair = ["r1/m" + rng.choice([".py", ".pyi"]), "r2/m" + rng.choice([".py", ".pyi"])]
    else:
        pair = ["pk/a.py", "pk/s/a.pyi"]
    ents += [(p, "f") for p in pair]
    if kind in ("py+pyi",) and pair[0].startswith("pk/s/") and rng.random() < 0.5:
        ents.append(("pk/s/__init__.py", "f"))
    ents = _consistent(sorted(set(ents)))
    files = [p for p, k in ents if k == "f"]
    rng.shuffle(files)
    ns = rng.random() < 0.8
    return Case(entries=ents + [("o", "d")], args=files, cwd="", mypy_path=[], ns=ns, epb=ns and rng.random() < 0.25,
                kind="dup-pair:" + kind)


def _consistent(ents):
    """Drop entries that would need a path to be both a file and a directory."""
    files = {p for p, k in ents if k == "f"}
    out = []
    for p, k in ents:
        parts = p.split("/")
        if any("/".join(parts[:i]) in files for i in range(1, len(parts))):
            continue
        if k == "d" and p in files:
            continue
        out.append((p, k))
    # a file path that is also a strict prefix of another entry
    pref = set()
    for p, _ in out:
        parts = p.split("/")
        for i in range(1, len(parts)):
            pref.add("/".join(parts[:i]))
    return [(p, k) for p, k in out if not (k == "f" and p in pref)]


# --------------------------------------------------------------------------------- option combinations
def py_files(entries):
    return [p for p, k in entries if k == "f" and p.endswith((".py", ".pyi"))]


def top_entries(entries):
    """what `mypy r/*` would name: the entries directly inside r/"""
    tops = []
    for p, _ in entries:
        parts = p.split("/")
        if len(parts) >= 2:
            t = "/".join(parts[:2])
            if t not in tops:
                tops.append(t)
    return tops


CONFIGS = [
    # (ns, epb, cwd, mypy_path)
    (False, False, ROOT, []),
    (True, False, ROOT, []),
    (True, True, ROOT, []),
    (True, False, "", []),
    (False, False, "", []),
    (True, True, "", [ROOT]),
    (True, False, "", [ROOT]),
    (True, False, ROOT + "/a", []),
    (True, True, ROOT + "/a", [ROOT]),
    (False, False, "o", [ROOT]),
    (True, True, "o", [ROOT, ROOT + "/a"]),
    (True, False, ROOT, [ROOT + "/b"]),
    (False, True, ROOT, []),
    (True, True, "o", []),
]


def arg_styles(rng, entries, nstyles: int = 3):
    files = py_files(entries)
    styles = []
    if files:
        styles.append(("files-sorted", sorted(files)))
        styles.append(("files-reversed", sorted(files, reverse=True)))
        sh = list(files)
        rng.shuffle(sh)
        styles.append(("files-shuffled", sh))
        if len(files) > 1:
            sub = rng.sample(files, rng.randint(1, len(files) - 1))
            styles.append(("files-subset", sub))
    styles.append(("dir", [ROOT]))
    tops = top_entries(entries)
    if tops:
        tt = list(tops)
        rng.shuffle(tt)
        styles.append(("tops", tt))
    if files and rng.random() < 0.5:
        d = os.path.dirname(rng.choice(files))
        others = [f for f in files if not f.startswith(d + "/")]
        styles.append(("dir+files", [d] + others))
    if rng.random() < 0.15:
        styles.append(("ghost", sorted(files) + [ROOT + "/a/ghost.py", ROOT + "/script", ROOT + "/b/ghost/__init__.pyi"]))
    rng.shuffle(styles)
    return styles[:nstyles]


def cases_for_tree(rng, entries, nconf: int, nstyles: int, kind: str, pkg_prob: float = 0.3):
    confs = rng.sample(CONFIGS, min(nconf, len(CONFIGS)))
    out = []
    files = {p for p, k in entries if k == "f"}
    base_ents = list(entries)
    if "o" not in files and not any(p == "o" or p.startswith("o/") for p, _ in base_ents):
        base_ents.append(("o", "d"))      # the "outside" working directory always exists (keeps consecutive trees equal)

    def needs_dir(conf):
        cwd = conf[2]
        return bool(cwd) and not any(p == cwd or p.startswith(cwd + "/") for p, _ in base_ents)

    confs.sort(key=needs_dir)
    for ns, epb, cwd, mp in confs:
        if any(x in files for x in [cwd] + mp):
            continue                      # the name is taken by a plain file in this tree
        ents = list(base_ents)
        if needs_dir((ns, epb, cwd, mp)):
            ents.append((cwd, "d"))       # the working directory exists (possibly empty)
        for style, args in arg_styles(rng, entries, nstyles):
            pkg = None
            if rng.random() < pkg_prob:
                pkg = rng.choice(["r", "a", "b", "r.a", "a.b", "a.a"])
            out.append(Case(entries=list(ents), args=list(args), cwd=cwd, mypy_path=list(mp), ns=ns, epb=epb,
                            via_env=rng.random() < 0.25, pkg=pkg, kind=kind + ":" + style, abs_args=rng.random() < 0.3))
    return out
