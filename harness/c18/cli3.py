"""The CLI three-way check on the real tool: `mypy DIR` vs `mypy FILES…` (several orders) vs `mypy -p PKG`.

Every generated file carries one type error on a known line, so the set of error lines is the set of files that
were checked; files of regimes with unambiguous names also import each other.  Notes are dropped before
comparing (the `only_once` notes move between files: finding F13 of other properties).

Regimes (cwd is the directory that contains `pk/`):
  A  pk/__init__.py exists, namespace packages on            dir, files, -p  all name modules pk.…
  B  --explicit-package-bases (cwd is a base), no need for __init__   dir, files, -p  all name modules pk.…
  C  namespace packages on, no top __init__, no explicit bases        dir vs files only (the crawl names the
     files relative to their own directories, `-p` names them pk.…: different by design)
"""
from __future__ import annotations

import os
import shutil

NAMES = ["a", "b", "c"]
MSG = 'Incompatible types in assignment (expression has type "str", variable has type "int")'


def gen_tree(rng, regime: str, force_f10: bool = False):
    """-> dict relpath -> None (content is filled in later).  Paths are relative to cwd and start with pk/."""
    files = set()
    dirs = ["pk"]
    # sub-directories up to depth 3
    for d1 in rng.sample(NAMES, rng.randint(0, 2)):
        dirs.append("pk/" + d1)
        for d2 in rng.sample(NAMES, rng.choice([0, 0, 1, 2])):
            dirs.append("pk/%s/%s" % (d1, d2))
    for d in dirs:
        has_init = rng.random() < (0.55 if d != "pk" else 1.0)
        if d == "pk":
            has_init = regime == "A" or (regime == "B" and rng.random() < 0.5)
        if has_init:
            files.add(d + "/__init__" + rng.choice([".py", ".py", ".pyi"]))
            if rng.random() < 0.1:
                files.add(d + "/__init__.py")
                files.add(d + "/__init__.pyi")
        for n in rng.sample(NAMES, rng.randint(0, 2)):
            r = rng.random()
            if r < 0.6:
                files.add("%s/%s.py" % (d, n))
            elif r < 0.85:
                files.add("%s/%s.pyi" % (d, n))
            else:
                files.add("%s/%s.py" % (d, n))
                files.add("%s/%s.pyi" % (d, n))
    if force_f10:
        # a module file beside a same-named directory without __init__ that contains a source
        d = rng.choice(dirs)
        n = rng.choice(NAMES)
        files = {f for f in files if not f.startswith("%s/%s/__init__." % (d, n))}
        files.add("%s/%s%s" % (d, n, rng.choice([".py", ".pyi"])))
        files.add("%s/%s/%s.py" % (d, n, rng.choice(NAMES)))
    if not any(f.endswith((".py", ".pyi")) for f in files):
        files.add("pk/a.py")
    return sorted(files)


def has_init(files, d):
    return (d + "/__init__.py") in files or (d + "/__init__.pyi") in files


def f10_cell(files) -> list:
    """module files D/x.py[i] beside a directory D/x without __init__ that contains a source"""
    fs = set(files)
    out = []
    for f in files:
        stem = f.rsplit(".", 1)[0]
        if os.path.basename(stem) == "__init__":
            continue
        if not has_init(fs, stem) and any(g.startswith(stem + "/") for g in files):
            out.append(f)
    return out


def effective_files(files):
    """What a user lists 'individually': every file except a .py shadowed by its sibling .pyi and a module
    shadowed by a same-named package (listing both is a duplicate-module error by construction)."""
    fs = set(files)
    out = []
    for f in files:
        stem, ext = f.rsplit(".", 1)
        if ext == "py" and (stem + ".pyi") in fs:
            continue
        if os.path.basename(stem) != "__init__" and has_init(fs, stem):
            continue
        out.append(f)
    return out


def dotted(f: str) -> str:
    stem = f.rsplit(".", 1)[0]
    parts = stem.split("/")
    if parts[-1] == "__init__":
        parts = parts[:-1]
    return ".".join(parts)


def contents(rng, files, regime):
    """relpath -> text: k comment lines, optional imports of other files' dotted names, one type error."""
    eff = effective_files(files)
    out = {}
    for i, f in enumerate(files):
        lines = ["# %s" % f] * rng.randint(0, 2)
        if regime in ("A", "B") and eff and rng.random() < 0.6:
            tgt = rng.choice(eff)
            if tgt != f and dotted(tgt) != dotted(f):
                lines.append("import %s" % dotted(tgt))
        lines.append('x%d: int = "%s"' % (i, f))
        out[f] = "\n".join(lines) + "\n"
    return out


def write_tree(cwd, texts):
    if os.path.isdir(cwd):
        shutil.rmtree(cwd)
    os.makedirs(cwd)
    for f, t in texts.items():
        p = os.path.join(cwd, f)
        os.makedirs(os.path.dirname(p), exist_ok=True)
        with open(p, "w") as fh:
            fh.write(t)


class Runner:
    """In-process `mypy.api.run` with a pre-seeded typeshed cache copied for every invocation (no user module is
    ever taken from a cache)."""

    def __init__(self, scratch: str):
        from mypy import api
        self.api = api
        self.scratch = scratch
        self.tmpl = os.path.join(scratch, "tmpl")
        os.makedirs(self.tmpl, exist_ok=True)
        with open(os.path.join(self.tmpl, "e.py"), "w") as f:
            f.write("import typing\n")
        out, err, rc = api.run(["--cache-dir", os.path.join(self.tmpl, "cache"), os.path.join(self.tmpl, "e.py")])
        if rc != 0:
            raise RuntimeError("cannot seed the typeshed cache: " + out + err)
        self.n = 0

    def run(self, cwd: str, flags: list, args: list, env: dict | None = None, summary: bool = False) -> tuple:
        self.n += 1
        old_mp = os.environ.pop("MYPYPATH", None)
        if env and env.get("MYPYPATH"):
            os.environ["MYPYPATH"] = env["MYPYPATH"]
        cache = os.path.join(self.scratch, "cache-%d" % (self.n % 4))
        if os.path.isdir(cache):
            shutil.rmtree(cache)
        shutil.copytree(os.path.join(self.tmpl, "cache"), cache)
        old = os.getcwd()
        os.chdir(cwd)
        try:
            out, err, rc = self.api.run(["--cache-dir", cache, "--error-summary" if summary else "--no-error-summary",
                                         "--hide-error-context", "--no-color-output", "--show-error-codes"] + flags + args)
        except SystemExit as e:
            out, err, rc = "", "CRASH SystemExit %s" % (e.code,), 3
        except Exception as e:              # an internal error escaped mypy.api.run
            out, err, rc = "", "CRASH %s: %s" % (type(e).__name__, str(e)[:200]), 3
        finally:
            os.chdir(old)
            os.environ.pop("MYPYPATH", None)
            if old_mp is not None:
                os.environ["MYPYPATH"] = old_mp
        return out, err, rc


def canon(out: str, err: str) -> list:
    lines = []
    for l in (out + "\n" + err).splitlines():
        l = l.strip()
        if not l or ": note:" in l:
            continue
        lines.append(l)
    if any("Duplicate module named" in l for l in lines):
        # the property's first alternative: mypy stops; which pair it names depends on the order of the arguments
        return ["<stops with a duplicate-module error>"]
    return sorted(set(lines))


def flags_for(regime: str) -> list:
    return ["--explicit-package-bases"] if regime == "B" else []


def three_way(runner: Runner, cwd: str, files, texts, regime: str, rng, norders: int = 2):
    """-> dict invocation-name -> canonical diagnostics"""
    write_tree(cwd, texts)
    fl = flags_for(regime)
    res = {}
    res["dir"] = canon(*runner.run(cwd, fl, ["pk"])[:2])
    eff = effective_files(files)
    orders = [sorted(eff), sorted(eff, reverse=True)]
    for _ in range(max(0, norders - 2)):
        sh = list(eff)
        rng.shuffle(sh)
        orders.append(sh)
    for i, o in enumerate(orders[:norders]):
        res["files%d" % i] = canon(*runner.run(cwd, fl, o)[:2])
    if regime in ("A", "B"):
        res["pkg"] = canon(*runner.run(cwd, fl, ["-p", "pk"])[:2])
    return res, [sorted(eff), sorted(eff, reverse=True)]
