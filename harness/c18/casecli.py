"""The real build path (`mypy.api.run`, i.e. main → create_source_list / find_modules_recursive → build.load_graph) on
one layout case, judged by the model.

For a case (tree, options, cwd, mypy_path, command-line arguments) the model (Driver/C18) says
  * which (module, file) pairs the arguments expand to                (S),
  * whether two of them share a module id                              (D: load_graph's "Duplicate module named"),
  * which (module, file) pairs `-p T1 -p T2 …` expands to, T = the top-level names of S   (P).
Every `.py[i]` file of the tree carries its own type error (so the error lines are the set of checked files) and
imports up to two other *listed* modules by the name the model gives them (so a file that the real code names
differently is found a second time under the model's name).  Then:

  1. duplicate (model)  ⇒  every real run on the arguments and on the listed files, in *every* order (sorted,
     reversed, `.py` before `.pyi`), stops with exit status 2 and nothing but "Duplicate module named …";
  2. no duplicate (model)  ⇒  no real run reports a duplicate, and all runs on the arguments / the individually
     listed files (all orders) report the same diagnostics;
  3. when the model's S and P are the same set of (module, file) pairs, `mypy -p T1 -p T2 …` reports the same
     diagnostics as well;
  4. when every source lies in a good cell of the model (cellOK, topOK, genuine roots), no run stops with "Source
     file found twice under different module names" (no_found_twice_partial).
Any failure is a concrete input on which the property fails on the real code (on the unchanged tree model and code
agree, so the three statements hold there).
"""
from __future__ import annotations

import os

from . import cli3, layout
from .layout import Case


SKIPPED = ("__pycache__", "site-packages", "node_modules")


def _plain(name: str) -> bool:
    return name.isidentifier() and name.isascii() and name not in SKIPPED


def eligible(case: Case) -> bool:
    """Plain trees only: the CLI check needs importable names and arguments that exist."""
    if case.epb and not case.ns:
        return False                      # main.py rejects --explicit-package-bases without namespace packages
    ents = dict(case.entries)
    for a in case.args:
        if a not in ents and not any(p.startswith(a + "/") for p in ents):
            return False                  # ghost argument
        if ents.get(a) == "f" and not a.endswith((".py", ".pyi")):
            return False                  # script
        if a.endswith((".py", ".pyi")) and ents.get(a) != "f":
            return False                  # a directory called x.py
    for p, k in case.entries:
        parts = p.split("/")
        dirs, last = (parts, None) if k == "d" else (parts[:-1], parts[-1])
        if not all(_plain(d) for d in dirs):
            return False
        if last is not None:
            if last.startswith("."):
                return False
            if last.endswith((".py", ".pyi")) and not _plain(last.rsplit(".", 1)[0]):
                return False
    return any(k == "f" and p.endswith((".py", ".pyi")) for p, k in case.entries)


def flags(case: Case) -> list:
    fl = ["--namespace-packages" if case.ns else "--no-namespace-packages"]
    if case.epb:
        fl.append("--explicit-package-bases")
    return fl


def _with_pkg(case: Case, pkg):
    d = case.to_json()
    d["pkg"] = pkg
    return Case.from_json(d)


def model_views(ctx, cases: list, world: str) -> list:
    """For every case: (S [(path, module)], duplicate module or None, P [(path, module)], top-level names) from the
    driver, or None when the model says InvalidSourceList / no sources.  Two batched driver calls."""
    first = ctx.lean_driver("Driver/C18.lean", [layout.encode(_with_pkg(c, None), world) for c in cases])
    views, second = [], []
    for c, line in zip(cases, first):
        mp = layout.parse(line)
        if "E" in mp or not mp.get("S"):
            views.append(None)
            continue
        S = [(s[0], s[1]) for s in mp["S"]]
        tops = []
        for _, m in S:
            t = m.split(".")[0]
            if t not in tops:
                tops.append(t)
        safe = mp.get("H", {}).get("gr") == "1" and mp.get("H", {}).get("re") == "1"
        if safe and " # C " in line:
            for ent in line.split(" # C ")[1].split(" # ")[0].split(";"):
                if "|" in ent:
                    bits = dict(x.split("=") for x in ent.split("|")[1].split(","))
                    if bits.get("ok") != "1" or bits.get("t") != "1":
                        safe = False
        views.append([S, None if mp["D"] == "-" else mp["D"], None, tops, safe])
        second.append((len(views) - 1, layout.encode(_with_pkg(c, ",".join(tops)), world)))
    if second:
        out = ctx.lean_driver("Driver/C18.lean", [l for _, l in second])
        for (i, _), line in zip(second, out):
            views[i][2] = [(p[0], p[1]) for p in layout.parse(line).get("P", [])]
    return [None if v is None else tuple(v) for v in views]


def contents(rng, case: Case, S, world: str) -> dict:
    """relpath -> text for every entry that is a file"""
    mods = [(p, m) for p, m in S if m != "__main__" and all(c.isidentifier() for c in m.split("."))]
    out = {}
    for i, (rel, kind) in enumerate(case.entries):
        if kind != "f":
            continue
        if not rel.endswith((".py", ".pyi")):
            out[rel] = ""
            continue
        me = layout._abs(world, rel)
        lines = []
        others = [m for p, m in mods if p != me]
        rng.shuffle(others)
        for m in others[:2]:
            lines.append("import %s" % m)
        lines.append('v%d: int = "%s"' % (i, rel))
        out[rel] = "\n".join(lines) + "\n"
    return out


def is_dup_blocker(out: str, err: str, rc: int) -> bool:
    lines = [l.strip() for l in (out + "\n" + err).splitlines() if l.strip() and ": note:" not in l
             and not _SUMMARY.match(l.strip())]
    return rc == 2 and len(lines) >= 1 and all("Duplicate module named" in l for l in lines)


import re

_SUMMARY = re.compile(r"^(Found \d+ errors? in \d+ files? \(|Success: no issues found in )")


def n_checked(out: str):
    """the N of "(checked N source files)" / "no issues found in N source files"; None when mypy stopped early"""
    m = re.search(r"checked (\d+) source files?\)", out) or re.search(r"no issues found in (\d+) source files?", out)
    return int(m.group(1)) if m else None


def diag(out: str, err: str, cwd: str | None = None, root: str | None = None) -> list:
    """non-note lines; with `cwd`/`root` the leading file name is made relative to the world directory (a file is
    printed relative to the working directory or absolute depending on how it was reached)"""
    res = set()
    for l in (out + "\n" + err).splitlines():
        l = l.strip()
        if not l or ": note:" in l or _SUMMARY.match(l):
            continue
        if cwd is not None and ":" in l:
            path, rest = l.split(":", 1)
            if path and " " not in path:
                full = os.path.normpath(os.path.join(cwd, path))
                if root is not None and (full + os.sep).startswith(root + os.sep):
                    full = os.path.relpath(full, root)
                l = full + ":" + rest
        res.add(l)
    return sorted(res)


def orders_of(paths: list) -> list:
    """sorted, reversed, and `.py` before `.pyi` (sorted puts x.py before x.pyi already; the third order puts every
    .pyi first)"""
    a = sorted(paths)
    b = sorted(paths, reverse=True)
    c = sorted(paths, key=lambda p: (not p.endswith(".pyi"), p))
    out = []
    for o in (a, b, c):
        if o not in out:
            out.append(o)
    return out


def check(ctx, runner, case: Case, world: str, kind: str, mv=None):
    """-> None when everything is consistent (or the case is not eligible), else (class, what, detail)."""
    if not eligible(case):
        return None
    if mv is None:
        mv = model_views(ctx, [case], world)[0]
    if mv is None:
        return None
    S, dup, P, tops, safe = mv
    if any(m == "__main__" for _, m in S):
        return None
    rng = ctx.rng
    texts = contents(rng, case, S, world)
    # the tree is written by the CLI helper into its own directory (same relative layout below a world directory
    # whose name is not an identifier)
    cliworld = os.path.join(ctx.tmp, "cli", "k-1")
    cli3.write_tree(cliworld, texts)
    for rel, kind_ in case.entries:
        if kind_ == "d":
            os.makedirs(os.path.join(cliworld, rel), exist_ok=True)
    cwd = layout._abs(cliworld, case.cwd)
    os.makedirs(cwd, exist_ok=True)
    env = {"MYPYPATH": os.pathsep.join(layout._abs(cliworld, p) for p in case.mypy_path)} if case.mypy_path else {}
    fl = flags(case)

    def rel(p_abs_model: str) -> str:
        return os.path.relpath(p_abs_model.replace(world, cliworld, 1), cwd)

    runs = {}
    argv = [os.path.relpath(layout._abs(cliworld, a), cwd) for a in case.args]
    runs["args"] = (argv, runner.run(cwd, fl, argv, env, summary=True))
    listed = [rel(p) for p, _ in S]
    for i, o in enumerate(orders_of(listed)):
        runs["files%d" % i] = (o, runner.run(cwd, fl, o, env, summary=True))
    sfiles = set((p, m) for p, m in S)
    pfiles = set((p, m) for p, m in P if not p.endswith(":d"))
    comparable = dup is None and sfiles == pfiles
    if comparable:
        argv_p = [x for t in tops for x in ("-p", t)]
        runs["pkg"] = (argv_p, runner.run(cwd, fl, argv_p, env, summary=True))
    ctx.count("case_cli_invocations", len(runs))
    ctx.dist("case_cli_kind", kind)
    ctx.dist("case_cli_model_outcome", "duplicate" if dup else ("sources+pkg" if comparable else "sources"))
    detail = {"case": case.to_json(), "flags": fl, "MYPYPATH": [p for p in case.mypy_path], "cwd": case.cwd or ".",
              "file_contents": texts, "model": {"sources": [(rel(p), m) for p, m in S], "duplicate": dup,
                                                "pkg": [(p.replace(world, "<W>"), m) for p, m in P]},
              "runs": {n: {"argv": a, "exit": r[2], "checked_sources": n_checked(r[0]),
                           "output": diag(r[0], r[1], cwd, cliworld)} for n, (a, r) in runs.items()},
              "how": "./check C18 --replay <this file>  (writes the files, runs the listed invocations)"}
    crashed = [n for n, (_, r) in runs.items() if r[2] == 3 or "INTERNAL ERROR" in r[0] + r[1]]
    if crashed:
        return ("real-code-raises", "mypy crashed on invocation %s" % crashed[0], detail)
    if dup is not None:
        bad = [n for n, (_, r) in runs.items() if not is_dup_blocker(*r)]
        if bad:
            n = bad[0]
            return ("duplicate-not-reported",
                    "two listed files share module '%s' but `mypy %s` does not stop with a duplicate-module error "
                    "(exit %d: %s)" % (dup, " ".join(runs[n][0]), runs[n][1][2], diag(*runs[n][1][:2])[:3]), detail)
        return None
    spurious = [n for n, (_, r) in runs.items() if "Duplicate module named" in r[0] + r[1]]
    if spurious:
        n = spurious[0]
        return ("spurious-duplicate", "`mypy %s` stops with a duplicate-module error although no two listed files "
                "share a module name" % " ".join(runs[n][0]), detail)
    if safe:
        # every source is in a good cell (cellOK, topOK) and the configured roots are genuine bases: by
        # no_found_twice_partial neither an ancestor nor an import by a listed name can reach a listed file under
        # another name
        twice = [n for n, (_, r) in runs.items() if "Source file found twice" in r[0] + r[1]]
        if twice:
            n = twice[0]
            return ("found-twice", "`mypy %s` stops with %s although every file is imported by the module name it "
                    "is listed under" % (" ".join(runs[n][0]), diag(*runs[n][1][:2])[:1]), detail)
    # the number of build sources mypy reports ("checked N source files") is the size of the model's listing
    for n, (a, r) in runs.items():
        got = n_checked(r[0])
        want = len(P) if n == "pkg" else len(S)
        if got is not None and got != want:
            return ("wrong-number-of-sources",
                    "`mypy %s` checked %d source files, the listing has %d (%s)"
                    % (" ".join(a), got, want, "find_modules_recursive" if n == "pkg" else "create_source_list"), detail)
    # Order independence of the diagnostics is only demanded of complete listings: the search path is built from
    # the bases in argument order, so a module that is *not* listed (an ancestor package, say) and exists under two
    # bases is resolved by whichever base was named first — the documented shadowing by unlisted files, cf.
    # not_roundtrip_unlisted.  (`-p` is compared whenever the model says it expands to the same pairs.)
    allpy = set(layout._abs(world, p) for p, k in case.entries if k == "f" and p.endswith((".py", ".pyi")))
    complete = allpy <= set(p for p, _ in S)
    ctx.dist("case_cli_listing", "complete" if complete else "partial")

    def canon_twice(lines):
        return ["<stops: source file found twice>"] if any("Source file found twice" in l for l in lines) else lines

    base = canon_twice(diag(*runs["args"][1][:2], cwd, cliworld))
    differing = [n for n, (_, r) in runs.items() if (complete or n == "pkg")
                 and canon_twice(diag(r[0], r[1], cwd, cliworld)) != base]
    if differing:
        n = differing[0]
        extra = sorted(set(diag(*runs[n][1][:2], cwd, cliworld)) ^ set(base))[:4]
        return ("invocations-differ",
                "`mypy %s` and `mypy %s` report different diagnostics on the same module/file map (flags %s, "
                "MYPYPATH %s): %s" % (" ".join(runs["args"][0]), " ".join(runs[n][0]), " ".join(fl),
                                      case.mypy_path, extra), detail)
    return None


def replay(ctx, runner, det: dict) -> None:
    case = Case.from_json(det["case"])
    cliworld = os.path.join(ctx.tmp, "cli", "k-1")
    cli3.write_tree(cliworld, det["file_contents"])
    for rel, kind_ in case.entries:
        if kind_ == "d":
            os.makedirs(os.path.join(cliworld, rel), exist_ok=True)
    cwd = layout._abs(cliworld, case.cwd)
    os.makedirs(cwd, exist_ok=True)
    env = {"MYPYPATH": os.pathsep.join(layout._abs(cliworld, p) for p in case.mypy_path)} if case.mypy_path else {}
    for n, r in det["runs"].items():
        out, err, rc = runner.run(cwd, det["flags"], r["argv"], env, summary=True)
        print("%-7s mypy %s  -> exit %d, checked %s source files" % (n, " ".join(det["flags"] + r["argv"]), rc, n_checked(out)))
        for l in diag(out, err):
            print("          " + l)
