"""C18 — files and module names map to each other consistently.

1. Lean: Props/C18 (`roundtrip_or_claim`, `roundtrip_or_duplicate_partial`, `dir_*`, the `not_…` witnesses) over
   Model/Layout.lean (crawl_up / find_sources_in_dir / _find_module / find_modules_recursive / compute_search_paths).
2. Tie (correspondence): real temp directories — canonical trees over {a, b, __init__} x {.py, .pyi} (all small
   ones, a sample of the larger ones), a wider random stream and a malformed stream (invalid identifiers,
   -stubs, dotted stems, hidden / skipped names, ghosts) x option / cwd / mypy_path / argument-style combinations:
   real `create_source_list`, `compute_search_paths`, `FindModuleCache.find_module`, `find_modules_recursive`,
   `InvalidSourceList` vs the model driver, section by section.
   The model's listing and duplicate-module test are also compared with the real *build path* (mypy.api.run: main →
   create_source_list / find_modules_recursive → build.load_graph) on a sample of the cases, on a contested-pair
   stream (X.py + X.pyi, __init__.py + __init__.pyi, module + package, two roots) and on three fixed layouts, every
   listing in several orders incl. `.py` before `.pyi` (casecli.py).
3. Search: (a) the property's own oracle on the real observations of every case (round trip or duplicate, outside
   the excluded cells computed from the real code); (b) the CLI three-way check `mypy DIR` / `mypy FILES…` /
   `mypy -p PKG` on package trees whose files carry one type error each.
"""
from __future__ import annotations

import json
import os
import time

from harness.vlib.core import Ctx, ToolFailure

from . import casecli, cli3, gen, layout, oracle
from .layout import Case

MODEL_FILES = ["MypyVerif/Model/Layout.lean", "MypyVerif/Proofs/LayoutNames.lean", "MypyVerif/Proofs/LayoutCrawl.lean",
               "MypyVerif/Proofs/LayoutFind.lean", "MypyVerif/Proofs/LayoutRound.lean", "MypyVerif/Proofs/LayoutList.lean",
               "MypyVerif/Proofs/LayoutFS.lean", "MypyVerif/Proofs/LayoutDir.lean", "MypyVerif/Proofs/LayoutSide.lean",
               "MypyVerif/Proofs/LayoutPkg.lean", "MypyVerif/Proofs/LayoutSort.lean", "MypyVerif/Proofs/LayoutPerm.lean"]
MODEL_FILES = [f for f in MODEL_FILES if os.path.exists(os.path.join(os.path.dirname(__file__), "..", "..", "lean", f))]

# the witnesses of the `not_…` theorems (same trees as in Props/C18.lean), replayed on the real code every run
WITNESSES = [
    ("not_roundtrip_bare_dir (F10)", "bare-dir-beside-module",
     Case(entries=[("r/p/__init__.py", "f"), ("r/p/q/x.py", "f"), ("r/p/q/x/y.py", "f")],
          args=["r/p/__init__.py", "r/p/q/x.py", "r/p/q/x/y.py"], cwd="r", ns=True, epb=False, kind="witness")),
    ("not_roundtrip_init_in_base (F10b)", "init-in-explicit-base",
     Case(entries=[("r/__init__.py", "f"), ("r/a.py", "f")], args=["r/__init__.py", "r/a.py"], cwd="r",
          ns=True, epb=True, kind="witness")),
    ("not_roundtrip_unlisted", "unlisted-file-shadows",
     Case(entries=[("r/a/x.py", "f"), ("r/b/x.py", "f"), ("r/b/y.py", "f")], args=["r/a/x.py", "r/b/y.py"], cwd="r",
          ns=False, epb=False, kind="witness")),
    ("not_roundtrip_root_in_package", "root-inside-package",
     Case(entries=[("r/p/__init__.py", "f"), ("r/p/x.py", "f"), ("r/q/x.py", "f"), ("o", "d")],
          args=["r/p/__init__.py", "r/p/x.py", "r/q/x.py"], cwd="o", mypy_path=["r/p"], ns=False, epb=False, kind="witness")),
    ("not_roundtrip_dotted_stem", "not-importable",
     Case(entries=[("r/a.b.py", "f")], args=["r/a.b.py"], cwd="r", ns=True, epb=False, kind="witness")),
    ("not_roundtrip_stubs_dir", "not-importable",
     Case(entries=[("r/a-stubs/__init__.pyi", "f")], args=["r/a-stubs/__init__.pyi"], cwd="r", ns=True, epb=False,
          kind="witness")),
    ("not_roundtrip_nested_bases", "explicit-base-inside-root",
     Case(entries=[("r/a/__init__.py", "f"), ("r/a/a.pyi", "f")], args=["r/a/__init__.py", "r/a/a.pyi"], cwd="r/a",
          mypy_path=["r"], ns=True, epb=True, kind="witness")),
    ("not_roundtrip_outside_bases", "source-outside-explicit-bases",
     Case(entries=[("r/p/x.py", "f"), ("u/q/p/x.py", "f"), ("u/q/y.py", "f")],
          args=["r/p/x.py", "u/q/y.py", "u/q/p/x.py"], cwd="r", ns=True, epb=True, kind="witness")),
]


# ------------------------------------------------------------------------------------------- generation
def gen_cases(ctx: Ctx) -> list:
    rng = ctx.rng
    cases = []
    # (1) canonical enumeration: every tree of 1..k files, a sample of the larger ones
    full = ctx.pick(2, 3)
    for size in range(1, full + 1):
        for files in gen.enum_trees(size):
            ents = [(f, "f") for f in files]
            cases += gen.cases_for_tree(rng, ents, ctx.pick(1, 3), ctx.pick(2, 3), "canon%d" % size,
                                        pkg_prob=0.25)
    for _ in range(ctx.pick(500, 6000)):
        files = gen.random_tree(rng, 6)
        cases += gen.cases_for_tree(rng, [(f, "f") for f in files], 2, 2, "canon-sample", pkg_prob=0.25)
    # (2) wider alphabet, empty directories, non-py files
    for _ in range(ctx.pick(300, 4000)):
        ents = gen.wide_tree(rng)
        if ents:
            cases += gen.cases_for_tree(rng, ents, 2, 2, "wide", pkg_prob=0.25)
    # (2b) several roots with overlapping module names (root order, verify_module, near-miss levels)
    for _ in range(ctx.pick(500, 6000)):
        cases.append(gen.multiroot_case(rng))
    for _ in range(ctx.pick(900, 10000)):
        cases.append(gen.contested_case(rng))
    # (3) malformed stream
    for _ in range(ctx.pick(300, 4000)):
        ents = gen.odd_tree(rng)
        if ents:
            cases += gen.cases_for_tree(rng, ents, 2, 2, "odd", pkg_prob=0.25)
    return cases


# ------------------------------------------------------------------------------------------- correspondence
SECTIONS = ["E", "S", "D", "R", "F", "P"]


def strip_model_only(line: str) -> str:
    return " # ".join(sec for sec in line.split(" # ") if sec[:2] not in ("H ", "C "))


def run_case(case: Case, world: str):
    layout.materialise(case, world)
    try:
        return layout.real_eval(case, world)
    except Exception as e:      # the real code raised something other than InvalidSourceList
        return "X %s: %s" % (type(e).__name__, str(e)[:200])


def replay_detail(case: Case, real: str, model: str, world: str) -> dict:
    return {"case": case.to_json(), "real": real.replace(world, "<W>"), "model": model.replace(world, "<W>"),
            "how": "./check C18 --replay <this file>  (materialises the tree and prints the real observations)"}


def correspondence(ctx: Ctx, cases: list, world: str) -> None:
    lines = [layout.encode(c, world) for c in cases]
    t0 = time.time()
    model = ctx.lean_driver("Driver/C18.lean", lines, timeout=3000)
    ctx.coverage["driver_s"] = round(time.time() - t0, 1)
    if len(model) != len(cases):
        raise ToolFailure("driver returned %d lines for %d cases" % (len(model), len(cases)))
    ndiff = 0
    first_diffs = []
    cli_diffs = []          # differing cases on which the real build path can be run (plain names, real arguments)
    known_cells_seen = {}
    crashes = []
    n_prop_checked = 0
    n_dir_checked = 0
    for case, mline in zip(cases, model):
        real = run_case(case, world)
        mcmp = strip_model_only(mline)
        ctx.case(case.key(), nontrivial=len(case.entries) > 1)
        ctx.dist("tree_kind", case.kind.split(":")[0])
        ctx.dist("arg_style", case.kind.split(":")[-1])
        ctx.dist("options", "ns=%d,epb=%d,mypy_path=%d,cwd=%s" % (case.ns, case.epb, len(case.mypy_path), case.cwd or "W"))
        ctx.dist("files", str(min(len(case.entries), 9)))
        if real.startswith("X "):
            ndiff += 1
            if len(crashes) < 2:
                crashes.append(real)
                ctx.report({"class": "real-code-raises", "exception": real.split(":")[0][2:]},
                           "create_source_list / find_module raised %s on a layout the model handles" % real[2:],
                           replay_detail(case, real, mline, world))
            continue
        rp = layout.parse(real)
        ctx.dist("outcome", "invalid-source-list" if "E" in rp else ("duplicate-module" if rp.get("D", "-") != "-" else "sources"))
        if real != mcmp:
            ndiff += 1
            # keep a few distinct trees for the search, those whose find_module observations differ first
            if len(cli_diffs) < 8 and casecli.eligible(case) and not any(d.entries == case.entries and d.cwd == case.cwd
                                                                        and d.mypy_path == case.mypy_path for d in cli_diffs):
                cli_diffs.append(case)
            fdiff = layout.parse(real).get("F") != layout.parse(mcmp).get("F")
            if not any(d[0].entries == case.entries for d in first_diffs):
                if fdiff and sum(1 for d in first_diffs if d[3]) < 4:
                    first_diffs.insert(0, (case, real, mline, True))
                elif len(first_diffs) < 4:
                    first_diffs.append((case, real, mline, False))
        # the property's own oracle on the real observations (independent of the model)
        fails = oracle.roundtrip_failures(case, world, rp)
        n_prop_checked += len(rp.get("S", []))
        for src, found, cells in fails:
            if not cells:
                ctx.count("roundtrip_failures_outside_excluded_cells")
                if ctx.coverage["roundtrip_failures_outside_excluded_cells"] <= 3:
                    ctx.report({"class": "roundtrip-fails", "ns": case.ns, "epb": case.epb},
                               "%s is given module '%s' but find_module('%s') returns %s (no duplicate module, no excluded cell)"
                               % (src[0].replace(world, "<W>"), src[1], src[1], found.replace(world, "<W>")),
                               replay_detail(case, real, mline, world))
            else:
                for c in cells:
                    ctx.dist("roundtrip_failures_by_excluded_cell", c)
                for c in ("bare-dir-beside-module", "init-in-explicit-base"):
                    if c in cells and c not in known_cells_seen:
                        known_cells_seen[c] = (case, src, found, real, mline)
        # second clause on the real code: `mypy DIR` lists every reachable file or a file with the same module name
        if len(case.args) == 1:
            for f, mod, in_cell in oracle.dir_failures(case, world, rp):
                n_dir_checked += 1
                if in_cell:
                    ctx.dist("dir_vs_files_failures", "module-beside-bare-dir")
                    if "dirF10" not in known_cells_seen:
                        known_cells_seen["dirF10"] = (case, (f, mod, ""), "(not listed, module name not carried by a listed file)", real, mline)
                else:
                    ctx.report({"class": "dir-drops-file", "ns": case.ns, "epb": case.epb},
                               "create_source_list([%s]) lists neither %s (module '%s') nor any file with that module name"
                               % (case.args[0], f.replace(world, "<W>"), mod), replay_detail(case, real, mline, world))
        # the theorem instance, read off the model line: side conditions => conclusion
        mp = layout.parse(mline)
        if "H" in mp and mp["H"].get("gr") == "1" and mp["H"].get("re") == "1" and mp["H"].get("dup") == "0":
            for ent in mline.split(" # C ")[1].split(" # ")[0].split(";") if " # C " in mline else []:
                if "|" not in ent:
                    continue
                bits = dict(x.split("=") for x in ent.split("|")[1].split(","))
                if bits["ok"] == "1" and bits["rt"] != "1":
                    raise ToolFailure("driver contradicts roundtrip_or_duplicate_partial on " + ent)
    ctx.count("traces_validated_against_impl", len(cases))
    ctx.count("property_oracle_sources_checked", n_prop_checked)
    ctx.coverage["correspondence_disagreements"] = ndiff
    ctx.count("disagreements_checked", ndiff)
    ctx.sample({"case": lines[len(lines) // 2].replace(world, "<W>"), "model_and_impl": model[len(lines) // 2].replace(world, "<W>")})
    # known findings stay visible: F10 / F10b observed in the bulk run
    for c, (case, src, found, real, mline) in known_cells_seen.items():
        if c == "dirF10":
            ctx.report({"class": "module-beside-bare-dir"}, "create_source_list([%s]) drops %s (module '%s') %s"
                       % (case.args[0], src[0].replace(world, "<W>"), src[1], found), replay_detail(case, real, mline, world))
        else:
            ctx.report({"class": c}, "%s has module '%s', find_module returns %s" % (src[0].replace(world, "<W>"), src[1], found.replace(world, "<W>")),
                       replay_detail(case, real, mline, world))
    # a correspondence difference: the oracle above has been evaluated on every case; if it found nothing …
    if ndiff and not ctx.violations and cli_diffs:
        search_cli(ctx, cli_diffs, world)
    if ndiff and not ctx.violations:
        for case, real, mline, _ in first_diffs[:5]:
            if not ctx.violations:
                search_near(ctx, case, world)
        if not ctx.violations:
            case, real, mline, _ = first_diffs[0]
            ctx.violation("correspondence broken: the real create_source_list / find_module observations differ from "
                          "Model/Layout.lean on %d of %d cases; the round-trip oracle and the CLI three-way check found "
                          "no failing input on them" % (ndiff, len(cases)),
                          {"broken": "correspondence Driver/C18 vs mypy.find_sources / mypy.modulefinder",
                           **replay_detail(case, real, mline, world)}, found_input=False)


def report_cli(ctx: Ctx, res) -> None:
    cls, what, detail = res
    ctx.count("case_cli_failures")
    if ctx.coverage["case_cli_failures"] <= 3:
        ctx.report({"class": cls}, what, detail)


def neighbours(case: Case) -> list:
    """the case itself, the same tree and configuration with every file listed individually, with its top-level
    entries listed, and (when the case observes `-p`) from the directory that contains the package"""
    files = sorted(p for p, k in case.entries if k == "f" and p.endswith((".py", ".pyi")))
    out = [case]
    d = case.to_json()
    for args in (files, gen.top_entries([e for e in case.entries if e[1] == "f"])):
        if args and args != case.args:
            d2 = dict(d)
            d2["args"] = list(args)
            d2["kind"] = "near-cli"
            out.append(Case.from_json(d2))
    tops = sorted(set(p.split("/")[0] for p in files if "/" in p))
    for t in tops[:3]:
        if t != case.cwd:
            d2 = dict(d)
            d2["cwd"] = t
            d2["args"] = [f for f in files if f.startswith(t + "/")]
            d2["kind"] = "near-cli"
            if d2["args"]:
                out.append(Case.from_json(d2))
    return out


def search_cli(ctx: Ctx, diff_cases: list, world: str) -> None:
    """Correspondence differs on these cases: run the real build path (mypy.api.run) on each of them and on its
    neighbourhood, with contents that make a wrong module name / a missing file observable, judged by the model."""
    runner = get_runner(ctx)
    todo = []
    for c in diff_cases:
        todo += [n for n in neighbours(c) if casecli.eligible(n)]
    todo = todo[:40]
    views = casecli.model_views(ctx, todo, world)
    for c, mv in zip(todo, views):
        if mv is None:
            continue
        res = casecli.check(ctx, runner, c, world, "search:" + c.kind.split(":")[0], mv)
        if res is not None:
            report_cli(ctx, res)
            return


def build_path(ctx: Ctx, cases: list, world: str) -> None:
    """The model's listing / duplicate test against the real build path on every run: a sample of the generated
    cases (half of them with a duplicate module according to the model) and the contested-pair stream, every
    listing in several orders (casecli.check)."""
    rng = ctx.rng
    runner = get_runner(ctx)
    n = ctx.pick(22, 300)
    pool = [c for c in cases if casecli.eligible(c) and c.kind.split(":")[0] != "odd"]
    rng.shuffle(pool)
    pool = pool[: 4 * n]
    views = casecli.model_views(ctx, pool, world)
    dups = [(c, v) for c, v in zip(pool, views) if v is not None and v[1] is not None]
    plain = [(c, v) for c, v in zip(pool, views) if v is not None and v[1] is None]
    chosen = dups[: n // 3] + plain[: n - n // 3]
    pairs = [gen.dup_pair_case(rng) for _ in range(ctx.pick(14, 200))]
    # the three seeded shapes, every run: explicit bases with sources outside MYPYPATH, a sub-package marked only by
    # __init__.pyi without namespace packages, a .py/.pyi pair listed individually with the .py first
    fixed = [] if os.environ.get("C18_NO_FIXED") else [
        Case(entries=[("src/lib/__init__.py", "f"), ("src/lib/core.py", "f"), ("tools/gen/util.py", "f"),
                      ("tools/gen/run.py", "f")], args=["src", "tools"], cwd="", mypy_path=["src"], ns=True, epb=True,
             kind="fixed:outside-mypypath"),
        Case(entries=[("pkg/__init__.py", "f"), ("pkg/a.py", "f"), ("pkg/sub/__init__.pyi", "f"), ("pkg/sub/m.py", "f")],
             args=["pkg"], cwd="", ns=False, epb=False, kind="fixed:stub-only-subpackage"),
        Case(entries=[("pkg/__init__.py", "f"), ("pkg/a.py", "f"), ("pkg/a.pyi", "f"), ("pkg/b.py", "f")],
             args=["pkg/__init__.py", "pkg/a.py", "pkg/a.pyi", "pkg/b.py"], cwd="", ns=True, epb=False,
             kind="fixed:py-before-pyi"),
    ]
    extra = fixed + pairs
    eviews = casecli.model_views(ctx, extra, world)
    for c, mv in chosen + list(zip(extra, eviews)):
        if mv is None:
            continue
        ctx.case(("case-cli", c.key()))
        res = casecli.check(ctx, runner, c, world, c.kind.split(":")[0], mv)
        if res is not None:
            report_cli(ctx, res)


def search_near(ctx: Ctx, case: Case, world: str) -> None:
    """Search around a differing case: the same tree with every file listed (both orders) under a systematic set of
    configurations derived from the tree itself — mypy_path = every ordered choice of <= 2 top-level directories,
    cwd = the world / each top-level directory / an outside directory, the three option modes — evaluated with
    the round-trip oracle; then the CLI three-way check on the tree when it has a plain package shape."""
    import itertools
    rng = ctx.rng
    base_entries = [e for e in case.entries]
    files = sorted(p for p, k in base_entries if k == "f" and p.endswith((".py", ".pyi")))
    plain_files = {p for p, k in base_entries if k == "f"}
    tops = []
    for p, _ in base_entries:
        parts = p.split("/")
        for depth in (1, 2):
            if len(parts) > depth:
                t = "/".join(parts[:depth])
                if t not in tops and t not in plain_files:
                    tops.append(t)
    tops = tops[:5]
    mps = [[]] + [[t] for t in tops] + [list(x) for x in itertools.permutations(tops, 2)]
    budget = 900
    for mp in mps:
        for cwd in [""] + tops + ["o"]:
            for ns, epb in ((True, False), (False, False), (True, True)):
                for args in (files, files[::-1]):
                    if budget <= 0 or not args:
                        break
                    budget -= 1
                    ents = list(base_entries)
                    if cwd and not any(p == cwd or p.startswith(cwd + "/") for p, _ in ents):
                        ents.append((cwd, "d"))
                    c2 = Case(entries=ents, args=list(args), cwd=cwd, mypy_path=list(mp), ns=ns, epb=epb, kind="near:files")
                    real = run_case(c2, world)
                    if real.startswith("X "):
                        continue
                    rp = layout.parse(real)
                    for src, found, cells in oracle.roundtrip_failures(c2, world, rp):
                        if not cells:
                            ctx.report({"class": "roundtrip-fails", "ns": ns, "epb": epb},
                                       "%s is given module '%s' but find_module returns %s (no duplicate module, no excluded cell)"
                                       % (src[0].replace(world, "<W>"), src[1], found.replace(world, "<W>")),
                                       replay_detail(c2, real, "", world))
                            return
    # CLI three-way on the same files placed as a package
    plain = all(c.isidentifier() for f in files for c in f.rsplit(".", 1)[0].split("/"))
    if files and plain:
        pk = sorted(set("pk/" + "/".join(f.split("/")[1:]) for f in files if "/" in f))
        if pk:
            three_way_tree(ctx, get_runner(ctx), pk, rng.choice(["A", "B", "C"]), "near-diff")


# ------------------------------------------------------------------------------------------- CLI three-way
_RUNNER = None


def get_runner(ctx: Ctx):
    global _RUNNER
    if _RUNNER is None:
        _RUNNER = cli3.Runner(os.path.join(ctx.tmp, "cli"))
    return _RUNNER


def three_way_tree(ctx: Ctx, runner, files, regime: str, kind: str) -> bool:
    """Run the three invocations; report a difference.  Returns True when all agree."""
    rng = ctx.rng
    if regime == "A" and not cli3.has_init(set(files), "pk"):
        files = sorted(set(files) | {"pk/__init__.py"})
    texts = cli3.contents(rng, files, regime)
    cwd = os.path.join(ctx.tmp, "cli", "w")
    res, orders = cli3.three_way(runner, cwd, files, texts, regime, rng, norders=2)
    ctx.case(("cli3", regime, tuple(files), tuple(sorted(texts.items()))))
    ctx.dist("cli3_regime", regime)
    ctx.dist("cli3_kind", kind)
    ctx.count("cli3_invocations", len(res))
    # argument-order independence of the first alternative: every file named individually, the contested pairs
    # included, `.py` before `.pyi` and the other way round — both must stop with the duplicate-module error
    eff = cli3.effective_files(files)
    if len(eff) != len(files):
        fl = cli3.flags_for(regime)
        allorders = [sorted(files), sorted(files, key=lambda p: (not p.endswith(".pyi"), p))]
        for i, o in enumerate(allorders):
            out, err, rc = runner.run(cwd, fl, o)
            ctx.count("cli3_invocations")
            if not casecli.is_dup_blocker(out, err, rc):
                ctx.count("cli3_duplicate_not_reported")
                if ctx.coverage["cli3_duplicate_not_reported"] <= 2:
                    ctx.report({"class": "duplicate-not-reported"},
                               "`mypy %s` names two files of one module but does not stop with a duplicate-module error "
                               "(exit %d: %s)" % (" ".join(o), rc, casecli.diag(out, err)[:3]),
                               {"regime": regime, "flags": fl, "files": texts, "listed_orders": allorders,
                                "diagnostics": {"all%d" % i: casecli.diag(out, err)}})
                return False
    names = list(res)
    crashed = [n for n in names if any(l.startswith("CRASH") or "INTERNAL ERROR" in l for l in res[n])]
    if crashed:
        ctx.count("cli3_crashes")
        if ctx.coverage["cli3_crashes"] <= 2:
            ctx.report({"class": "real-code-raises"}, "mypy crashed on invocation(s) %s of a %d-file tree, regime %s: %s"
                       % (",".join(crashed), len(files), regime, res[crashed[0]][:2]),
                       {"regime": regime, "flags": cli3.flags_for(regime), "files": texts, "listed_orders": orders, "diagnostics": res})
        return False
    if all(res[n] == res[names[0]] for n in names):
        return True
    ctx.count("disagreements_checked")
    cell = cli3.f10_cell(files)
    differing = [n for n in names if res[n] != res["dir"]]
    detail = {"regime": regime, "flags": cli3.flags_for(regime), "files": texts, "listed_orders": orders,
              "diagnostics": res, "how": "write the files below a fresh directory, cd there, run: mypy pk ; "
              "mypy <listed_orders[i]> ; mypy -p pk  (with the flags)"}
    what = "mypy pk / mypy FILES / mypy -p pk disagree (%s differ from `mypy pk`) on a tree of %d files, regime %s" % (
        ",".join(differing), len(files), regime)
    if cell:
        ctx.report({"class": "module-beside-bare-dir"}, what + "; module file(s) beside a same-named directory without __init__: "
                   + ", ".join(cell), detail)
    else:
        ctx.count("cli3_trees_differing_outside_known_cell")
        if ctx.coverage["cli3_trees_differing_outside_known_cell"] <= 3:
            ctx.report({"class": "three-way-differs", "regime": regime}, what, detail)
    return False


def three_way(ctx: Ctx) -> None:
    rng = ctx.rng
    runner = get_runner(ctx)
    n = ctx.pick(70, 1100)
    agree = 0
    # the F10 layout itself, every run
    three_way_tree(ctx, runner, ["pk/a.pyi", "pk/a/c.py"], "C", "F10-layout")
    for i in range(n):
        regime = rng.choice(["A", "A", "B", "C"])
        force = rng.random() < 0.08
        files = cli3.gen_tree(rng, regime, force_f10=force)
        if not force and cli3.f10_cell(files) and rng.random() < 0.7:
            continue            # keep most of the budget for trees outside the known cell
        if three_way_tree(ctx, runner, files, regime, "forced-F10-cell" if force else "random"):
            agree += 1
    ctx.coverage["cli3_trees_agreeing"] = agree


MODEL_SKIP = ["__pycache__", "site-packages", "node_modules"]


def directed_search(ctx: Ctx, consts: dict) -> None:
    """A `gen_*` obligation broke: evaluate the regenerated tables on their boundary — a directory whose name only
    one of the two walkers skips (or that the model does not know) makes `mypy pk` and `mypy -p pk` see different
    files."""
    runner = get_runner(ctx)
    a, b = set(consts.get("skip_sources", [])), set(consts.get("skip_recursive", []))
    odd = sorted((a ^ b) | ((a | b) ^ set(MODEL_SKIP)))
    for name in odd:
        if not name or "/" in name:
            continue
        for regime in ("A", "B"):
            three_way_tree(ctx, runner, ["pk/__init__.py", "pk/a.py", "pk/%s/m.py" % name, "pk/%s/__init__.py" % name],
                           regime, "directed:skip-name")
    if consts.get("py_ext") != [".pyi", ".py"]:
        for regime in ("A", "C"):
            three_way_tree(ctx, runner, ["pk/__init__.py", "pk/a.py", "pk/a.pyi", "pk/b/__init__.py", "pk/b/__init__.pyi"],
                           regime, "directed:extension-order")


# ------------------------------------------------------------------------------------------- witnesses
DEFERRED: list = []      # broken ties without a failing input of their own (reported if the search finds none)


def witnesses(ctx: Ctx, world: str) -> None:
    """The witnesses of the `not_…` theorems must fail on the real code exactly as stated, in the stated cell."""
    lines = [layout.encode(c, world) for _, _, c in WITNESSES]
    model = ctx.lean_driver("Driver/C18.lean", lines)
    for (name, cell, case), mline in zip(WITNESSES, model):
        real = run_case(case, world)
        ctx.case(("witness", name))
        if real.startswith("X "):
            ctx.report({"class": "real-code-raises", "exception": real.split(":")[0][2:]},
                       "create_source_list / find_module raised %s on the witness layout of %s" % (real[2:], name),
                       replay_detail(case, real, mline, world))
            continue
        rp = layout.parse(real)
        fails = oracle.roundtrip_failures(case, world, rp)
        if real != strip_model_only(mline):
            # reported at the end when the search has not produced a concrete failing input
            DEFERRED.append(("witness %s: model and real code disagree" % name,
                             {"broken": "correspondence on the witness of " + name, **replay_detail(case, real, mline, world)}))
        elif not fails or not any(cell in cells for _, _, cells in fails):
            DEFERRED.append(("witness %s no longer fails on the real code in cell '%s' (the negated theorem is about a "
                             "model that no longer matches)" % (name, cell),
                             {"broken": "Props/C18 " + name, **replay_detail(case, real, mline, world)}))
        else:
            ctx.count("witnesses_replayed")
            if cell in ("bare-dir-beside-module", "init-in-explicit-base"):
                src, found, cells = [f for f in fails if cell in f[2]][0]
                ctx.report({"class": cell}, "%s has module '%s', find_module returns %s"
                           % (src[0].replace(world, "<W>"), src[1], found.replace(world, "<W>")),
                           replay_detail(case, real, mline, world))


# ------------------------------------------------------------------------------------------- main
def main(ctx: Ctx) -> None:
    ctx.level = "proof"
    ctx.coverage["rule"] = (
        "a case = (tree, options, cwd, mypy_path, command-line arguments); trees: all canonical trees (up to a<->b) of "
        "<= 2 (quick) / <= 3 (thorough) files out of r/{,a,b,a/a,a/b,b/a,b/b}/{__init__,a,b}.{py,pyi}, a sample of "
        "those with <= 6 files, a wider random stream and a malformed stream; non-trivial = more than one entry; "
        "distinct by content.  CLI three-way: random package trees (<= depth 3), regimes A/B/C.")
    from translate import c18consts
    consts = c18consts.main()                       # Gen/LayoutConsts.lean from the current source
    ctx.coverage["translated_tables"] = consts
    proved = ctx.prove("MypyVerif.Props.C18", MODEL_FILES)
    ctx.trusted(
        "model: find_sources.create_source_list/crawl_up/_crawl_up_helper/find_sources_in_dir/keyfunc, "
        "modulefinder.compute_search_paths (mypy_path + python_path), _find_module over those roots "
        "(get_toplevel_possibilities, verify_module, highest_init_level, near misses), find_modules_recursive, "
        "load_graph's duplicate-module test on the initial sources",
        "outside the model: site-packages / typeshed / PEP 561 packages in site-packages, --exclude, gitignore, "
        "--package-root, case-insensitive file systems, symlinks, non-ASCII identifiers, module ids with empty "
        "components (file stems beginning or ending with a dot)",
        "correspondence harness harness/c18 (real temp directories; in-process create_source_list / FindModuleCache; "
        "in-process mypy.api.run with a pre-seeded typeshed cache for the CLI check)")
    ctx.assume("names are ASCII; str.isidentifier is modelled on ASCII letters, digits and underscore",
               "the file system is case sensitive and does not change during a run")
    world = os.path.join(ctx.tmp, "k-0")
    t0 = time.time()
    witnesses(ctx, world)
    cases = gen_cases(ctx)
    t1 = time.time()
    correspondence(ctx, cases, world)
    t2 = time.time()
    build_path(ctx, cases, world)
    t3 = time.time()
    three_way(ctx)
    if not proved:
        directed_search(ctx, consts)
    if DEFERRED and not ctx.violations:
        for what, detail in DEFERRED[:3]:
            ctx.violation(what, detail, found_input=False)
    ctx.coverage["phase_s"] = {"prove": round(t0 - ctx.t0, 1), "witnesses+gen": round(t1 - t0, 1),
                               "correspondence": round(t2 - t1, 1), "build_path": round(t3 - t2, 1),
                               "cli_three_way": round(time.time() - t3, 1)}
    if not proved and not ctx.violations:
        ctx.violation("Lean development for C18 no longer builds", {"broken": ctx.broken_ties}, found_input=False)


def replay(ctx: Ctx, path: str) -> int:
    body = json.load(open(path))
    det = body["replay"].get("detail", body["replay"])
    if "file_contents" in det:
        casecli.replay(ctx, get_runner(ctx), det)
    elif "case" in det:
        case = Case.from_json(det["case"])
        world = os.path.join(ctx.tmp, "k-0")
        real = run_case(case, world)
        print("real :", real.replace(world, "<W>"))
        model = ctx.lean_driver("Driver/C18.lean", [layout.encode(case, world)])[0]
        print("model:", model.replace(world, "<W>"))
        rp = layout.parse(real)
        for src, found, cells in oracle.roundtrip_failures(case, world, rp):
            print("round trip fails:", src[0].replace(world, "<W>"), "module", src[1], "->", found.replace(world, "<W>"), "cells", cells)
    elif "files" in det:
        runner = get_runner(ctx)
        cwd = os.path.join(ctx.tmp, "cli", "w")
        cli3.write_tree(cwd, det["files"])
        fl = det.get("flags", [])
        print("mypy pk ->", cli3.canon(*runner.run(cwd, fl, ["pk"])[:2]))
        for o in det.get("listed_orders", []):
            print("mypy", " ".join(o), "->", cli3.canon(*runner.run(cwd, fl, o)[:2]))
        if det.get("regime") in ("A", "B"):
            print("mypy -p pk ->", cli3.canon(*runner.run(cwd, fl, ["-p", "pk"])[:2]))
    else:
        print(json.dumps(det, indent=1))
    return 0
