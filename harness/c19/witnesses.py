"""One explicit, minimal module per known class of stubgen defect (C19).  The random stream of gen.py avoids
these constructs; the witnesses keep every class visible on every run: `./check C19` evaluates the same four
oracles on them and reports each through ctx.report, so that it prints KNOWN-FINDING only while the defect
reproduces *exactly* as recorded (same mode, same oracle verdicts) and VIOLATION if it changes shape.

(id, source, modes in which the defect shows)
"""
from __future__ import annotations

ALL = ("parse", "semantic", "inspect")
AST = ("parse", "semantic")

WITNESSES: list[tuple[str, str, tuple[str, ...]]] = [
    # ---- decision core (a): `/` placement with `__x` names (Lean: not_sig_roundtrip / not_sig_valid)
    ("dunder_param_syntax", "def k(__x=1, *, __y=2):\n    pass\n", AST),
    ("dunder_param_kind", "def k(a, *, __x):\n    pass\n", AST),
    # ---- decision core (b): default rendering (Lean: not_default_closed / not_default_is_valid_expr)
    ("default_not", "def f(x=not 1):\n    pass\n", AST),
    ("default_inf", "def f(x: float = 1e999) -> None:\n    pass\n", AST),
    ("default_bytes_quotes", "def f(x=b'\\'\"'):\n    pass\n", AST),
    # ---- whole-stub defects found by the search (not modelled in Lean)
    ("final_qualified", "import typing\nX: typing.Final = 3\n", AST),
    ("typealias_string", "from typing import TypeAlias\nA: TypeAlias = \"list[int]\"\n", AST),
    ("typealias_qualified", "import typing\nA: typing.TypeAlias = dict[str, int]\n", AST),
    ("all_alias_target", "__all__ = ['alias']\ndef target(x: int) -> int:\n    return x\nalias = target\n", AST),
    ("all_decorator", "__all__ = ['f']\ndef deco(g):\n    return g\n@deco\ndef f(x: int) -> int:\n    return x\n", AST),
    ("dataclass_nested_class",
     "from dataclasses import dataclass\n@dataclass(order=True)\nclass D:\n    x: int = 0\n    class Inner:\n        tag: int = 0\n", ("semantic",)),
    ("dataclass_self_attr",
     "from dataclasses import dataclass\n@dataclass\nclass D:\n    x: int = 0\n    def setup(self) -> None:\n        self.y: str = 'a'\n", AST),
    ("enum_parse_only", "import enum\nclass Color(enum.Enum):\n    RED = 1\n    GREEN = 'g'\n", ("parse",)),
    ("abstract_subclass_parse_only",
     "import abc\nclass A(abc.ABC):\n    @abc.abstractmethod\n    def m(self) -> int: ...\nclass B(A):\n    pass\n", ("parse",)),
    ("namedtuple_default_parse_only", "from typing import NamedTuple\nclass P(NamedTuple):\n    a: int\n    b: str = ''\n", ("parse",)),
    # ---- inspect mode (runtime introspection loses what only the source says)
    ("inspect_union_annotation", "def f(x: int | None) -> None:\n    pass\n", ("inspect",)),
    ("inspect_posonly", "def f(a: int, /, b: int) -> int:\n    return a\n", ("inspect",)),
    ("inspect_async", "async def f(a: int) -> int:\n    return a\n", ("inspect",)),
    ("inspect_enum", "import enum\nclass Color(enum.Enum):\n    RED = 1\n", ("inspect",)),
    ("inspect_dataclass", "from dataclasses import dataclass\n@dataclass\nclass D:\n    x: int\n    y: str = 'a'\n", ("inspect",)),
    ("inspect_namedtuple", "from typing import NamedTuple\nclass P(NamedTuple):\n    a: int\n", ("inspect",)),
    ("inspect_typeddict", "from typing import TypedDict\nclass M(TypedDict):\n    a: int\n", ("inspect",)),
    ("inspect_property", "class C:\n    @property\n    def p(self) -> int:\n        return 1\n", ("inspect",)),
    ("inspect_class_attr", "class C:\n    attr: int = 0\n", ("inspect",)),
    ("inspect_generic_args", "def f(x: list[int]) -> dict[str, int]:\n    return {}\n", ("inspect",)),
    ("inspect_typevar", "from typing import TypeVar\nT = TypeVar('T')\ndef f(x: T) -> T:\n    return x\n", ("inspect",)),
    ("inspect_builtin_default", "def f(x=len):\n    return x\n", ("inspect",)),
    ("inspect_module_alias", "from __future__ import annotations\nimport typing as t\ndef f(x: t.Any) -> t.Any:\n    return x\n", ("inspect",)),
]


def witness_package(pkg: str = "wit") -> tuple[dict[str, str], dict[str, dict]]:
    files = {f"{pkg}/__init__.py": ""}
    meta: dict[str, dict] = {pkg: {"features": ["init"], "all": None}}
    for wid, src, modes in WITNESSES:
        files[f"{pkg}/{wid}.py"] = src
        meta[f"{pkg}.{wid}"] = {"features": ["witness"], "witness": wid, "modes": modes}
    return files, meta
