"""Worker (run as a subprocess under the checked tree's mypy): resolved types of every annotated definition.

    python typecmp.py <root> <out.json> <ext: py|pyi> <package>...

Builds the packages found under <root> with mypy (default options, no cache) and dumps, per module, every
function / method / overload item / property / annotated variable with the *resolved* type of each parameter and of
the return value (mypy's own `str()` of the analysed type: fully qualified names, aliases expanded, Optional/Union
normalised) and, for sources, whether that piece was spelled out.  harness/c19/search.py compares the dump of the
sources with the dump of the stubs: an explicit annotation must denote the same type in the stub.
"""
from __future__ import annotations

import json
import os
import sys


def main() -> int:
    root, out, ext = sys.argv[1], sys.argv[2], sys.argv[3]
    pkgs = sys.argv[4:]
    from mypy import build
    from mypy.modulefinder import BuildSource
    from mypy.nodes import Decorator, FuncDef, OverloadedFuncDef, TypeInfo, Var
    from mypy.options import Options
    from mypy.types import AnyType, CallableType, TypeOfAny, get_proper_type

    sources = []
    for p in pkgs:
        for dp, _, fns in os.walk(os.path.join(root, p)):
            for fn in fns:
                if fn.endswith("." + ext):
                    rel = os.path.relpath(os.path.join(dp, fn), root)[: -len(ext) - 1]
                    mod = rel.replace(os.sep, ".")
                    if mod.endswith(".__init__"):
                        mod = mod[: -len(".__init__")]
                    sources.append(BuildSource(os.path.join(dp, fn), mod, None))
    opts = Options()
    opts.incremental = False
    opts.cache_dir = os.devnull
    opts.mypy_path = [root]
    opts.show_traceback = True
    opts.ignore_errors = False
    try:
        res = build.build(sources, opts)
    except Exception as e:  # blocking error: nothing to compare
        json.dump({"error": f"{type(e).__name__}: {e}"[:400]}, open(out, "w"))
        return 0

    def explicit(t) -> bool:
        t = get_proper_type(t)
        return not (isinstance(t, AnyType) and t.type_of_any in (TypeOfAny.unannotated, TypeOfAny.from_error,
                                                                 TypeOfAny.implementation_artifact))

    def func(fd: FuncDef) -> dict | None:
        t = fd.type
        if not isinstance(t, CallableType):
            return {"kind": "func", "annotated": False, "async": fd.is_coroutine}
        un = fd.unanalyzed_type if isinstance(fd.unanalyzed_type, CallableType) else None
        args = []
        for i, (n, at) in enumerate(zip(t.arg_names, t.arg_types)):
            ex = un is not None and i < len(un.arg_types) and explicit(un.arg_types[i])
            args.append([n, str(at), bool(ex)])
        rex = un is not None and explicit(un.ret_type)
        return {"kind": "func", "annotated": True, "args": args, "ret": [str(t.ret_type), bool(rex)],
                "async": fd.is_coroutine, "property": fd.is_property}

    def table(names, prefix: str, acc: dict, modname: str) -> None:
        for name, sym in names.items():
            node = sym.node
            if node is None or sym.plugin_generated:
                continue
            full = getattr(node, "fullname", "") or ""
            if not full.startswith(modname + "."):
                continue        # imported
            key = prefix + name
            if isinstance(node, FuncDef):
                acc[key] = func(node)
            elif isinstance(node, Decorator):
                d = func(node.func)
                if d is not None:
                    d["decorated"] = True
                acc[key] = d
            elif isinstance(node, OverloadedFuncDef):
                items = []
                for it in node.items:
                    f = it.func if isinstance(it, Decorator) else it
                    items.append(func(f))
                acc[key] = {"kind": "overloaded", "items": items, "property": node.is_property}
            elif isinstance(node, Var):
                if node.type is not None and not node.is_inferred:
                    acc[key] = {"kind": "var", "type": str(node.type), "explicit": explicit(node.type)}
            elif isinstance(node, TypeInfo):
                if node.fullname == modname + "." + key:      # defined here, not an alias to a class defined elsewhere
                    acc[key] = {"kind": "class"}
                    table(node.names, key + ".", acc, modname)

    dump: dict[str, dict] = {}
    for s in sources:
        tree = res.files.get(s.module)
        if tree is None:
            continue
        acc: dict = {}
        table(tree.names, "", acc, s.module)
        dump[s.module] = acc
    json.dump({"modules": dump, "errors": res.errors[:20]}, open(out, "w"))
    return 0


if __name__ == "__main__":
    sys.exit(main())
