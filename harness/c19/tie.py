"""C19 tie: the Lean models (Driver/C19.lean) vs. the real stubgen code, on generated inputs.

  A  signatures: generated `def`s (all parameter kinds, defaults, annotations; functions, methods, static/class
     methods, async, magic methods) → real ASTStubGenerator `def` line vs. the model's text, and
     `ast.parse(real def line)` vs. the model's parse of its own items;
  A2 grammar: every item sequence up to a length bound + random longer ones → CPython's `ast.parse` vs. the
     model's parser (validates the model of Python's grammar, malformed stream included);
  B  defaults: generated initializer expressions → real get_str_default_of_node / get_str_type_of_node vs. the
     model; Python's tokenizer on the real text vs. the model's lexemes;
  C  imports: generated operation sequences on a real ImportTracker (+ BaseStubGenerator.add_name) vs. the model.

A difference is not a violation by itself: each part then evaluates the property's own oracle on the real
output (does CPython read the emitted signature back as the source signature? is the emitted default a closed
literal with the source's value? is every required imported name bound by the emitted import lines?).
"""
from __future__ import annotations

import ast
import io
import itertools
import keyword
import re
import tokenize

from harness.vlib.core import Ctx, ToolFailure

US = "\x1f"


# ----------------------------------------------------------------------------------------- DExpr generator
class DGen:
    """Random initializer expressions: (encoding for the driver, Python source, has_hazard)."""

    STR_VALUES = ["", "a", "it's", 'q"', "both'\"", "\n", "\\", "a\\b", "π", "\x00", "x" * 40, "tab\t", "{}", "%s"]
    BYTES_VALUES = [b"", b"x", b"\x00", b"'", b'"', b"\\", b"a\\b", b"\xff\xfe", b"it's", b"\n", b"%d",
                    b"x" * 30]
    HAZ_BYTES = [b"'\"", b"\\'\"", b"a'b\"c"]

    def __init__(self, rng, hazards: bool):
        self.rng = rng
        self.hazards = hazards      # may draw `not`, non-finite floats, both-quote bytes
        self.strs: list[str] = []

    def atom(self) -> tuple[str, str]:
        r = self.rng
        k = r.choice(["none", "true", "false", "name", "int", "int", "float", "float", "complex", "csum", "str",
                      "str", "bytes", "other"])
        if k == "none":
            return "N", "None"
        if k == "true":
            return "T", "True"
        if k == "false":
            return "Fa", "False"
        if k == "name":
            n = r.choice(["foo", "DEFAULT", "sentinel", "inf", "x1"])
            return f"Nm {n}", n
        if k == "int":
            src = r.choice(["0", "1", "7", "42", "1000", "0x10", "1_000", "0b101", "10**0"[:2], str(r.randint(0, 10**12)),
                            str(10 ** 30)])
            return f"I {int(src, 0)}", src
        if k == "float":
            pool = ["1.5", "0.0", "2.", "1e10", "1e-07", "3.14159", "1e100", ".5", "123456789.123456789", "1E5"]
            if self.hazards:
                pool += ["1e999", "1e400"]
            src = r.choice(pool)
            v = float(src)
            fin = v == v and v not in (float("inf"), float("-inf"))
            return f"Fl {v} {int(fin)}", src
        if k == "complex":
            return "C", r.choice(["1j", "2.5j"])
        if k == "csum":
            return "CS", r.choice(["1 + 2j", "1j - 1", "-1j + 1"])
        if k == "str":
            v = r.choice(self.STR_VALUES)
            self.strs.append(v)
            src = repr(v)
            if r.random() < 0.2 and "'" not in v and '"' not in v and "\\" not in repr(v):
                src = '"' + v + '"' if v.isprintable() else src
            return f"S {len(self.strs) - 1}", src
        if k == "bytes":
            v = r.choice(self.BYTES_VALUES + (self.HAZ_BYTES if self.hazards else []))
            body = repr(v)[2:-1]
            return "B " + (body.encode().hex() or "-"), repr(v)
        src = r.choice(["foo()", "a.b", "(lambda: 0)", "1 + 2", "(1 if x else 2)", "[i for i in y]", "...", "x[0]",
                        "f'{x}'", "1 < 2", "10 ** 3"])
        return "O", src

    def expr(self, depth: int = 0) -> tuple[str, str]:
        r = self.rng
        if depth >= 3 or r.random() < 0.55:
            return self.atom()
        k = r.choice(["unary", "unary", "tuple", "list", "set", "dict"])
        if k == "unary":
            ops = ["neg", "neg", "pos", "inv"] + (["not"] if self.hazards else [])
            op = r.choice(ops)
            e, s = self.expr(depth + 1) if r.random() < 0.3 else self.num_atom()
            sym = {"neg": "-", "pos": "+", "inv": "~", "not": "not "}[op]
            return f"U {op} {e}", f"{sym}({s})" if not re.fullmatch(r"[\w.]+", s) else f"{sym}{s}"
        if k in ("tuple", "list", "set"):
            n = r.choice([0, 1, 2, 3]) if k != "set" else r.choice([1, 2])
            items = [self.expr(depth + 1) for _ in range(n)]
            enc = {"tuple": "Tu", "list": "Li", "set": "Se"}[k] + f" {n} " + " ".join(e for e, _ in items)
            body = ", ".join(s for _, s in items)
            if k == "tuple":
                src = "(" + body + ("," if n == 1 else "") + ")"
            elif k == "list":
                src = "[" + body + "]"
            else:
                src = "{" + body + "}"
            return enc.strip(), src
        n = r.choice([0, 1, 2])
        parts, srcs = [], []
        for _ in range(n):
            if r.random() < 0.12:
                v, vs = self.expr(depth + 1)
                parts.append(f"Sp {v}")
                srcs.append(f"**({vs})")
            else:
                ke, ks = self.atom()
                v, vs = self.expr(depth + 1)
                parts.append(f"K {ke} {v}")
                srcs.append(f"{ks}: {vs}")
        return (f"Di {n} " + " ".join(parts)).strip(), "{" + ", ".join(srcs) + "}"

    def num_atom(self) -> tuple[str, str]:
        r = self.rng
        if r.random() < 0.5:
            n = r.choice([0, 1, 5, 255, 10 ** 20])
            return f"I {n}", str(n)
        pool = ["1.5", "0.0", "1e10", "1e-07"] + (["1e999"] if self.hazards else [])
        src = r.choice(pool)
        v = float(src)
        fin = v not in (float("inf"), float("-inf"))
        return f"Fl {v} {int(fin)}", src


def sub_strs(text: str, strs: list[str]) -> str:
    return re.sub(r"⟦(\d+)⟧", lambda m: repr(strs[int(m.group(1))]), text)


# ----------------------------------------------------------------------------------------- A: signatures
ANNS = ["int", "str", "list[int]", "dict[str, int]", "int | None", "tuple[int, ...]", "Foo", "mod.Bar",
        "Callable[[int], str]", "type[Foo]", "object", "bytes | str | None"]
NAMES = list("abcdefghkmnpqrtuvwxyz") + ["a1", "b_x", "arg", "value", "type", "id", "match", "_", "_x", "x_"]
ELIDED = ["__x", "__a", "__arg"]
MAGIC = ["__add__", "__eq__", "__getitem__", "__contains__", "__call__", "__init__", "__lt__", "__iter__"]


class SigCase:
    def __init__(self):
        self.params: list[tuple[str, str, str | None, tuple[str, str] | None]] = []  # kind, name, ann, (enc, src)
        self.ctx = "func"
        self.name = "f"
        self.is_async = False
        self.strs: list[str] = []
        self.hazard: str | None = None
        self.uid = "w"


def gen_sig(rng, idx: int, mode: str) -> SigCase:
    """mode: 'clean' (NoElide, no hazardous defaults) | 'elide' (some __x outside the / prefix) | 'hazdefault'."""
    c = SigCase()
    dg = DGen(rng, hazards=(mode == "hazdefault"))
    c.ctx = rng.choice(["func", "func", "method", "method", "static", "classm", "nested-class"])
    c.is_async = rng.random() < 0.15
    c.name = f"f{idx}"
    c.uid = str(idx)
    if c.ctx in ("method", "nested-class") and rng.random() < 0.2:
        c.name = rng.choice(MAGIC)
    npo = rng.choice([0, 0, 0, 1, 2, 3])
    npp = rng.choice([0, 1, 1, 2, 3])
    va = rng.random() < 0.3
    nkw = rng.choice([0, 0, 1, 2, 3])
    ka = rng.random() < 0.3
    used: set[str] = set()

    def nm(allow_elide: bool) -> str:
        while True:
            n = rng.choice(NAMES)
            if allow_elide and rng.random() < 0.25:
                n = rng.choice(ELIDED)
            if n not in used:
                used.add(n)
                return n

    first = None
    if c.ctx in ("method", "nested-class"):
        first = rng.choice(["self", "self", "self", "this", "cls"])
    elif c.ctx == "classm":
        first = rng.choice(["cls", "cls", "klass"])
    elif rng.random() < 0.05:
        first = rng.choice(["self", "cls"])
    seen_default = False
    kinds = ["po"] * npo + ["pp"] * npp
    if first is not None:
        kinds = ([kinds[0]] if kinds else ["pp"]) + kinds
    for i, k in enumerate(kinds):
        name = first if (i == 0 and first is not None) else nm(allow_elide=(k == "po") or mode == "elide")
        used.add(name)
        ann = rng.choice(ANNS) if rng.random() < 0.45 else None
        d = None
        if seen_default or rng.random() < 0.3:
            if not (i == 0 and first is not None and not seen_default):
                d = dg.expr()
                seen_default = True
        c.params.append((k, name, ann, d))
    if va:
        c.params.append(("va", nm(mode == "elide"), rng.choice(ANNS) if rng.random() < 0.3 else None, None))
    for _ in range(nkw):
        ann = rng.choice(ANNS) if rng.random() < 0.45 else None
        d = dg.expr() if rng.random() < 0.5 else None
        c.params.append(("kw", nm(mode == "elide"), ann, d))
    if ka:
        c.params.append(("ka", nm(mode == "elide"), rng.choice(ANNS) if rng.random() < 0.3 else None, None))
    c.strs = dg.strs
    if mode == "elide" and not any(is_elided(n) and k != "po" for k, n, _, _ in c.params):
        # force the shape
        k = "kw" if rng.random() < 0.5 else "pp"
        if k == "pp" and any(p[3] for p in c.params if p[0] in ("po", "pp")):
            k = "kw"
        newp = (k, "__forced", None, None)
        pos = [i for i, p in enumerate(c.params) if p[0] in ("va", "kw", "ka")]
        if k == "pp":
            at = pos[0] if pos else len(c.params)
        else:
            pos2 = [i for i, p in enumerate(c.params) if p[0] == "ka"]
            at = pos2[0] if pos2 else len(c.params)
        c.params.insert(at, newp)
    return c


def is_elided(n: str) -> bool:
    return n.startswith("__") and not n.endswith("__")


def sig_source(c: SigCase) -> tuple[list[str], str]:
    """Source lines defining the function (in its context) and the parameter-list source."""
    parts = []
    kinds = [p[0] for p in c.params]
    for i, (k, n, ann, d) in enumerate(c.params):
        s = {"va": "*", "ka": "**"}.get(k, "") + n
        if ann:
            s += f": {ann}"
        if d:
            s += (" = " if ann else "=") + d[1]
        parts.append(s)
        if k == "po" and (i + 1 == len(kinds) or kinds[i + 1] != "po"):
            parts.append("/")
        if k in ("po", "pp") and "va" not in kinds and "kw" in kinds and (i + 1 < len(kinds) and kinds[i + 1] == "kw"):
            parts.append("*")
    if kinds and kinds[0] == "kw":
        parts.insert(0, "*")
    plist = ", ".join(parts)
    head = ("async " if c.is_async else "") + f"def {c.name}({plist}):"
    if c.ctx == "func":
        return [head, "    pass"], plist
    deco = {"static": ["    @staticmethod"], "classm": ["    @classmethod"]}.get(c.ctx, [])
    if c.ctx == "nested-class":
        return [f"class K{c.uid}:", "    class Inner:"] + ["    " + d for d in deco] + ["        " + head, "            pass"], plist
    return [f"class K{c.uid}:"] + deco + ["    " + head, "        pass"], plist


def sig_driver_line(c: SigCase) -> str:
    from mypy.sharedparse import MAGIC_METHODS_POS_ARGS_ONLY
    magic = int(c.name in MAGIC_METHODS_POS_ARGS_ONLY)
    lens = ",".join(str(len(repr(s))) for s in c.strs)
    ps = ";".join(US.join([k, n, ann or "-", d[0] if d else "-"]) for k, n, ann, d in c.params)
    return f"S {magic}\t{lens}\t{ps}"


def real_stub(source: str, modname: str = "tiemod") -> str:
    """The real ASTStubGenerator on a parsed (not analysed) module."""
    import mypy.parse
    from mypy.errors import Errors
    from mypy.options import Options
    from mypy.stubgen import ASTStubGenerator
    opts = Options()
    errors = Errors(opts)
    tree = mypy.parse.parse(source, fnam=modname + ".py", module=modname, errors=errors, options=opts, eager=True)
    if errors.is_blockers():
        raise ToolFailure("generated tie module does not parse: " + "; ".join(errors.new_messages())[:500])
    tree._fullname = modname
    gen = ASTStubGenerator(None, include_private=True, analyzed=False)
    tree.accept(gen)
    return gen.output()


def split_def_line(line: str) -> tuple[str, str] | None:
    """('async def name', parameter list text) of a one-line stub def."""
    m = re.match(r"\s*((?:async )?def \w+)\((.*)$", line)
    if not m:
        return None
    rest = m.group(2)
    depth, in_s, i = 1, None, 0
    while i < len(rest):
        ch = rest[i]
        if in_s:
            if ch == "\\":
                i += 1
            elif ch == in_s:
                in_s = None
        elif ch in "'\"":
            in_s = ch
        elif ch in "([{":
            depth += 1
        elif ch in ")]}":
            depth -= 1
            if depth == 0:
                return m.group(1), rest[:i]
        i += 1
    # unbalanced (e.g. a mis-rendered literal): fall back to the last `)` before the final `:`
    j = rest.rfind(")")
    return (m.group(1), rest[:j]) if j >= 0 else None


def py_parse_sig(defline: str) -> str:
    """names:kinds:has-default as CPython reads the def line; 'SyntaxError' if it does not parse."""
    try:
        t = ast.parse(defline.strip() + "\n    pass\n" if not defline.rstrip().endswith("...") else defline.strip() + "\n")
    except SyntaxError:
        return "SyntaxError"
    fn = t.body[0]
    if not isinstance(fn, (ast.FunctionDef, ast.AsyncFunctionDef)):
        return "SyntaxError"
    return fmt_args(fn.args)


def fmt_args(a: ast.arguments) -> str:
    out = []
    pos = a.posonlyargs + a.args
    nd = len(a.defaults)
    for i, p in enumerate(pos):
        kind = "posonly" if i < len(a.posonlyargs) else "pos"
        out.append(f"{p.arg}:{kind}:{int(i >= len(pos) - nd)}")
    if a.vararg:
        out.append(f"{a.vararg.arg}:star:0")
    for p, d in zip(a.kwonlyargs, a.kw_defaults):
        out.append(f"{p.arg}:kwonly:{int(d is not None)}")
    if a.kwarg:
        out.append(f"{a.kwarg.arg}:star2:0")
    return ",".join(out)


def tie_signatures(ctx: Ctx) -> None:
    rng = ctx.rng
    n = ctx.pick(1500, 12000)
    cases: list[SigCase] = []
    for i in range(n):
        mode = "clean"
        r = rng.random()
        if r < 0.04:
            mode = "elide"
        elif r < 0.08:
            mode = "hazdefault"
        c = gen_sig(rng, i, mode)
        c.mode = mode  # type: ignore[attr-defined]
        if c.name == "__exit__":
            continue
        cases.append(c)
    # explicit witnesses of the known classes (kept visible on every run)
    for src_params, nm_ in [([("pp", "__x", None, None), ("kw", "__y", None, None)], "wit_syntax"),
                            ([("pp", "a", None, None), ("kw", "__x", None, None)], "wit_kind"),
                            ([("pp", "self", None, None), ("pp", "__x", None, None)], "wit_self")]:
        c = SigCase()
        c.params = src_params  # type: ignore[assignment]
        c.name = nm_
        c.uid = nm_
        c.ctx = "method" if nm_ == "wit_self" else "func"
        c.mode = "elide"  # type: ignore[attr-defined]
        cases.append(c)
    # run the real generator in batches (one module per batch); a crash is bisected down to the culprit def
    real_lines: dict[int, str] = {}
    HEAD = ["from typing import Callable", "import mod", "class Foo: pass"]

    def find_def(out_lines: list[str], c: SigCase) -> str | None:
        if c.ctx == "func":
            pat = re.compile(rf"(async )?def {re.escape(c.name)}\(")
            return next((l for l in out_lines if pat.match(l)), None)
        start = next((k for k, l in enumerate(out_lines) if l.startswith(f"class K{c.uid}:") or l.startswith(f"class K{c.uid}(")), None)
        if start is None:
            return None
        for l in out_lines[start + 1:]:
            if l and not l.startswith(" "):
                return None
            if re.match(r"\s+(async )?def ", l):
                return l
        return None

    def run_batch(lo: int, hi: int) -> None:
        lines = list(HEAD)
        for c in cases[lo:hi]:
            lines += sig_source(c)[0]
        try:
            out = real_stub("\n".join(lines) + "\n")
        except ToolFailure:
            raise
        except Exception as e:
            if hi - lo == 1:
                ctx.report({"class": "stubgen-crash", "exception": type(e).__name__},
                           f"ASTStubGenerator raises {type(e).__name__}: {e} on a generated def",
                           {"part": "A", "source": sig_source(cases[lo])[0], "exception": repr(e)[:300]})
                real_lines[lo] = "<crash>"
                return
            mid = (lo + hi) // 2
            run_batch(lo, mid); run_batch(mid, hi)
            return
        out_lines = out.splitlines()
        for j in range(lo, hi):
            l = find_def(out_lines, cases[j])
            if l is not None:
                real_lines[j] = l

    B = 150
    for b in range(0, len(cases), B):
        run_batch(b, min(b + B, len(cases)))
    model = ctx.lean_driver("Driver/C19.lean", [sig_driver_line(c) for c in cases])
    if len(model) != len(cases):
        raise ToolFailure(f"driver returned {len(model)} lines for {len(cases)} cases")
    ndiff = 0
    nviol = 0
    reported_classes: set[str] = set()
    for i, (c, mline) in enumerate(zip(cases, model)):
        src_lines, plist = sig_source(c)
        kinds = "".join({"po": "o", "pp": "p", "va": "v", "kw": "k", "ka": "K"}[p[0]] for p in c.params)
        ctx.case(("A", c.ctx, c.name if c.name.startswith("__") else "", c.is_async, [(p[0], p[1], p[2], p[3][1] if p[3] else None) for p in c.params]),
                 nontrivial=len(c.params) >= 2)
        ctx.dist("sig_context", c.ctx + ("+async" if c.is_async else ""))
        ctx.dist("sig_shape", re.sub(r"(.)\1+", r"\1+", kinds) or "empty")
        ctx.dist("sig_mode", c.mode)  # type: ignore[attr-defined]
        ctx.dist("sig_defaults", str(min(sum(1 for p in c.params if p[3]), 4)))
        if "\t" not in mline:
            raise ToolFailure(f"driver could not read case {i}: {mline!r} for {sig_driver_line(c)!r}")
        mtext, mparse = mline.split("\t")
        mtext = sub_strs(mtext, c.strs)
        real = real_lines.get(i)
        if real == "<crash>":
            continue
        if real is None:
            ctx.count("disagreements_checked")
            nviol += 1
            if nviol <= 3:
                ctx.report({"class": "def-missing-from-stub"}, f"no `def` line in the stub for a generated (private names included) def: {src_lines}",
                           {"part": "A", "source": src_lines})
            continue
        sp = split_def_line(real)
        if sp is None:
            raise ToolFailure(f"cannot split real def line {real!r}")
        rhead, rplist = sp
        want_head = ("async " if c.is_async else "") + f"def {c.name}"
        rparse = py_parse_sig(real)
        # what the source signature is, by CPython's own reading of the source
        srcparse = py_parse_sig(("async " if c.is_async else "") + f"def {c.name}({plist}):")
        ctx.count("traces_validated_against_impl")
        # PEP 484: a leading run of positional parameters named `__x` is positional-only for mypy (and stubtest)
        srcparse_conv = pep484_parse(srcparse)
        if rparse == srcparse_conv:
            srcparse = srcparse_conv
        same = (rhead == want_head) and ("(" + rplist + ")" == mtext) and (rparse == mparse)
        if same and (rparse == srcparse or c.name in _magic()):
            continue
        # ---- search: evaluate the property on the real output
        ctx.count("disagreements_checked")
        ndiff += 1
        elided_out = any(is_elided(p[1]) and p[0] != "po" for p in c.params)
        constructs = sorted({default_construct(p[3][0], p[3][1]) for p in c.params if p[3]} - {"other"})
        broken = None
        if rparse == "SyntaxError":
            broken = "invalid"
            what = f"stubgen emits a `def` line CPython rejects: {real.strip()!r} for source `def {c.name}({plist})`"
        elif rparse != srcparse and c.name not in _magic():
            broken = "changed"
            what = (f"emitted signature reads back differently: source `def {c.name}({plist})` = [{srcparse}], "
                    f"stub {real.strip()!r} = [{rparse}]")
        observed = None
        if broken:
            if elided_out:
                observed = {"class": "sig-slash-misplaced", "cause": "dunder-name-outside-posonly-prefix", "effect": broken}
            elif constructs and broken == "invalid":
                observed = {"class": "default-mis-rendered", "construct": constructs[0], "effect": "def-line-invalid"}
            else:
                observed = {"class": "sig-broken", "cause": "other", "effect": broken}
            key = json_key(observed) + ("" if same else "/model-differs")
            if key not in reported_classes or (not same and nviol < 2):
                reported_classes.add(key)
                ctx.report(observed, what, {"part": "A", "source": src_lines, "real_def_line": real, "model": mline,
                                            "driver_line": sig_driver_line(c), "strs": c.strs})
        if not same:
            nviol += 1
            if nviol <= 3:
                ctx.violation("signature correspondence broken (model ≠ ASTStubGenerator) "
                              + ("and the real output violates the property" if broken else
                                 "but CPython reads the emitted signature back as the source's"),
                              {"broken": "correspondence Driver/C19 `S` vs ASTStubGenerator._get_func_args/format_sig",
                               "part": "A", "source": src_lines, "real_def_line": real, "real_parse": rparse,
                               "model_text": mtext, "model_parse": mparse, "driver_line": sig_driver_line(c)},
                              found_input=bool(broken))
    ctx.sample({"sig_case": sig_source(cases[7])[0], "real": real_lines.get(7), "model": model[7]})
    ctx.coverage["sig_disagreements"] = ndiff


def pep484_parse(parse: str) -> str:
    if parse in ("SyntaxError", ""):
        return parse
    out, prefix = [], True
    for item in parse.split(","):
        n, k, d = item.split(":")
        if prefix and k == "posonly":
            pass
        elif prefix and k == "pos" and is_elided(n):
            k = "posonly"
        else:
            prefix = False
        out.append(f"{n}:{k}:{d}")
    return ",".join(out)


def json_key(d: dict) -> str:
    import json
    return json.dumps(d, sort_keys=True)


_MAGIC_CACHE: set[str] | None = None


def _magic() -> set[str]:
    global _MAGIC_CACHE
    if _MAGIC_CACHE is None:
        from mypy.sharedparse import MAGIC_METHODS_POS_ARGS_ONLY
        _MAGIC_CACHE = set(MAGIC_METHODS_POS_ARGS_ONLY)
    return _MAGIC_CACHE


# ----------------------------------------------------------------------------------------- A2: grammar
def tie_grammar(ctx: Ctx) -> None:
    rng = ctx.rng
    alphabet = ["/", "*", "p0", "p1", "v", "k"]
    seqs: list[list[str]] = []
    for ln in range(0, ctx.pick(5, 6)):
        seqs += [list(t) for t in itertools.product(alphabet, repeat=ln)]
    for _ in range(ctx.pick(1500, 10000)):
        ln = rng.randint(5, 9)
        # mostly-valid stream: draw along the grammar, then perturb
        s = ["p0"] * rng.randint(0, 2) + ["p1"] * rng.randint(0, 2)
        if rng.random() < 0.5:
            s.insert(rng.randint(0, len(s)), "/")
        if rng.random() < 0.6:
            s.append(rng.choice(["*", "v"]))
            s += [rng.choice(["p0", "p1"]) for _ in range(rng.randint(0, 3))]
        if rng.random() < 0.4:
            s.append("k")
        if rng.random() < 0.5:
            for _ in range(rng.randint(1, 2)):
                op = rng.random()
                if s and op < 0.4:
                    s[rng.randrange(len(s))] = rng.choice(alphabet)
                elif op < 0.7:
                    s.insert(rng.randint(0, len(s)), rng.choice(alphabet))
                elif s:
                    del s[rng.randrange(len(s))]
        seqs.append(s[:ln + 3])
    lines, srcs = [], []
    for s in seqs:
        items, texts = [], []
        for i, it in enumerate(s):
            n = f"a{i}"
            if it in "/*":
                items.append(it); texts.append(it)
            elif it == "p0":
                items.append(f"p:{n}:0"); texts.append(n)
            elif it == "p1":
                items.append(f"p:{n}:1"); texts.append(f"{n}=0")
            elif it == "v":
                items.append(f"v:{n}"); texts.append(f"*{n}")
            else:
                items.append(f"k:{n}"); texts.append(f"**{n}")
        lines.append("P " + " ".join(items))
        srcs.append("def f(" + ", ".join(texts) + "): ...")
    model = ctx.lean_driver("Driver/C19.lean", lines)
    if len(model) != len(lines):
        raise ToolFailure("driver line count mismatch (grammar)")
    bad = 0
    for s, src, m in zip(seqs, srcs, model):
        ctx.case(("A2", s), nontrivial=len(s) >= 2)
        ctx.dist("grammar_len", str(min(len(s), 9)))
        py = py_parse_sig(src)
        ctx.dist("grammar_outcome", "SyntaxError" if py == "SyntaxError" else "accepted")
        ctx.count("traces_validated_against_impl")
        if py != m:
            bad += 1
            ctx.count("disagreements_checked")
            if bad <= 2:
                ctx.violation("the model of Python's parameter grammar disagrees with CPython's ast.parse",
                              {"broken": "correspondence Driver/C19 `P` vs ast.parse", "source": src, "cpython": py,
                               "model": m}, found_input=False)
    ctx.coverage["grammar_disagreements"] = bad


# ----------------------------------------------------------------------------------------- B: defaults
def py_tokens(text: str) -> list[str] | None:
    out = []
    try:
        for tok in tokenize.generate_tokens(io.StringIO(text).readline):
            if tok.type in (tokenize.NEWLINE, tokenize.NL, tokenize.ENDMARKER, tokenize.INDENT, tokenize.DEDENT):
                continue
            out.append((tok.type, tok.string))
    except (tokenize.TokenError, SyntaxError, IndentationError):
        return None
    res = []
    for ty, s in out:
        if ty == tokenize.NAME:
            res.append("kw:" + s if s in ("None", "True", "False") else "op:not" if s == "not" else "name:" + s)
        elif ty == tokenize.NUMBER:
            res.append("num:" + s)
        elif ty == tokenize.STRING:
            if s[:1] in "bB":
                res.append("bytes:" + s[1:].encode().hex())
            else:
                res.append("STR:" + s)
        elif ty == tokenize.OP:
            res.append("op:" + s if s in "-+~" else s)
        else:
            res.append(f"?{ty}:{s}")
    return res


def tie_defaults(ctx: Ctx) -> None:
    import mypy.parse
    from mypy.errors import Errors
    from mypy.options import Options
    from mypy.stubgen import ASTStubGenerator
    rng = ctx.rng
    n = ctx.pick(2500, 20000)
    cases = []
    for i in range(n):
        dg = DGen(rng, hazards=rng.random() < 0.06)
        enc, src = dg.expr()
        cases.append((enc, src, dg.strs, dg.hazards))
    # explicit witnesses (kept visible on every run)
    cases += [("U not I 1", "not 1", [], True), ("Fl inf 0", "1e999", [], True), ("U neg Fl inf 0", "-1e999", [], True),
              ("B " + "\\'\"".encode().hex(), "b'\\'\"'", [], True), ("U not Fl 1.5 1", "not 1.5", [], True)]
    opts = Options()
    src_mod = "\n".join(f"v{i} = {src}" for i, (_, src, _, _) in enumerate(cases)) + "\n"
    errors = Errors(opts)
    tree = mypy.parse.parse(src_mod, fnam="d.py", module="d", errors=errors, options=opts, eager=True)
    if errors.is_blockers():
        raise ToolFailure("generated defaults module does not parse: " + "; ".join(errors.new_messages())[:400])
    gen = ASTStubGenerator()
    rvalues = [st.rvalue for st in tree.defs]
    if len(rvalues) != len(cases):
        raise ToolFailure("defaults module: statement count mismatch")
    lines = ["D " + ",".join(str(len(repr(s))) for s in strs) + "\t" + enc for enc, _, strs, _ in cases]
    model = ctx.lean_driver("Driver/C19.lean", lines)
    if len(model) != len(cases):
        raise ToolFailure("driver line count mismatch (defaults)")
    bad = 0
    seen: set[str] = set()
    for (enc, src, strs, haz), node, mline in zip(cases, rvalues, model):
        ctx.case(("B", src), nontrivial=len(enc.split()) > 2)
        ctx.dist("default_root", enc.split()[0])
        ctx.dist("default_stream", "hazard" if haz else "clean")
        if mline.count("\t") != 2:
            raise ToolFailure(f"driver could not read default {enc!r}: {mline!r}")
        mtext, mtoks, mtype = mline.split("\t")
        mtext = sub_strs(mtext, strs)
        text, valid = gen.get_str_default_of_node(node)
        real = text if valid and len(text) <= 200 else "..."
        rtype = gen.get_str_type_of_node(node, can_be_incomplete=False) or "-"
        ctx.count("traces_validated_against_impl")
        # lexemes: Python's tokenizer on the real text vs. the model's
        rt = py_tokens(real)
        mt = [("STR:" + repr(strs[int(t[4:])]) if t.startswith("str:") else t) for t in mtoks.split(" ")] if mtoks else []
        has_raw = any(t.startswith("raw:") for t in mt)
        lex_same = has_raw or (rt is not None and rt == [t for t in mt])
        same = real == mtext and rtype == mtype and (lex_same or any(t.startswith("bytes:") for t in mt))
        # property oracle on the real output: a closed literal with the source's value
        verdict = default_oracle(src, real)
        if same and verdict is None:
            continue
        ctx.count("disagreements_checked")
        if verdict is not None:
            construct = default_construct(enc, src)
            if verdict == "default-free-name":
                free = {n.id for n in ast.walk(ast.parse(real, mode="eval")) if isinstance(n, ast.Name)}
                expected = {"unary-not": r"not[0-9a-z]+", "non-finite-float": r"inf|nan"}.get(construct)
                if expected is None or not all(re.fullmatch(expected, f) or re.fullmatch(r"not[0-9a-z]+|inf|nan", f) for f in free):
                    construct = "other"
            observed = {"class": "default-mis-rendered", "construct": construct, "effect": verdict}
            key = json_key({k: observed[k] for k in ("class", "construct")}) + ("" if same else "/model-differs")
            if key not in seen or (not same and bad < 2):
                seen.add(key)
                ctx.report(observed, f"default `{src}` is emitted as `{real}`: {verdict}",
                           {"part": "B", "source_default": src, "emitted": real, "model": mline})
        if not same:
            bad += 1
            if bad <= 3:
                ctx.violation("default-rendering correspondence broken (model ≠ get_str_default_of_node/get_str_type_of_node)",
                              {"broken": "correspondence Driver/C19 `D`", "source_default": src, "real": real,
                               "real_type": rtype, "real_tokens": rt, "model": mline}, found_input=verdict is not None)
    ctx.coverage["default_disagreements"] = bad


def default_construct(enc: str, src: str) -> str:
    toks = enc.split()
    if "not" in toks:
        return "unary-not"
    if any(toks[i] == "Fl" and toks[i + 2] == "0" for i in range(len(toks) - 2)):
        return "non-finite-float"
    for i, t in enumerate(toks[:-1]):
        if t == "B" and toks[i + 1] != "-":
            body = bytes.fromhex(toks[i + 1]).decode()
            if "'" in body and '"' in body:
                return "bytes-with-both-quotes"
    return "other"


def default_oracle(src: str, emitted: str) -> str | None:
    """None = fine.  Otherwise the class of failure of the property for this default."""
    if emitted == "...":
        return None
    try:
        tree = ast.parse(emitted, mode="eval")
    except SyntaxError:
        return "default-invalid-syntax"
    free = sorted({n.id for n in ast.walk(tree) if isinstance(n, ast.Name)})
    if free:
        return "default-free-name"
    try:
        a = ast.literal_eval(emitted)
        b = eval(src, {"__builtins__": {}})  # the sources are literal displays from our own generator
    except Exception:
        return None
    if repr(a) != repr(b):
        return "default-value-changed"
    return None


# ----------------------------------------------------------------------------------------- C: imports
MODS = ["a", "a.b", "a.b.c", "m", "typing", "os.path", "pkg.mod", "x"]
FROM_MODS = ["typing", "m", ".", "..base", "a.b", "collections.abc", "_typeshed"]
SIMPLE = ["X", "Y", "Any", "a", "b", "m", "L", "Incomplete", "x", "_X"]


def gen_ops(rng) -> list[tuple]:
    ops = []
    for _ in range(rng.randint(1, 9)):
        k = rng.random()
        if k < 0.3:
            names = []
            for _ in range(rng.randint(1, 3)):
                n = rng.choice(SIMPLE)
                names.append((n, rng.choice(SIMPLE) if rng.random() < 0.35 else None))
            ops.append(("F", rng.choice(FROM_MODS), names, rng.random() < 0.3))
        elif k < 0.5:
            ops.append(("M", rng.choice(MODS), rng.choice(SIMPLE) if rng.random() < 0.3 else None, rng.random() < 0.3))
        elif k < 0.8:
            base = rng.choice(MODS + SIMPLE)
            if rng.random() < 0.5:
                base += "." + rng.choice(["Z", "sub.Z", "b", "c"])
            ops.append(("R", base))
        elif k < 0.9:
            ops.append(("X", rng.choice(SIMPLE + ["a.b"] if rng.random() < 0.1 else SIMPLE)))
        else:
            defined = rng.sample(["Any", "_Any", "X", "__X", "Incomplete", "Y"], rng.randint(0, 4))
            ops.append(("A", rng.choice(["typing", "_typeshed", "builtins", "m"]), rng.choice(["Any", "X", "Incomplete", "str"]),
                        rng.random() < 0.6, defined))
    return ops


def real_tracker(ops: list[tuple]):
    from mypy.stubgen import ASTStubGenerator
    gen = ASTStubGenerator()
    t = gen.import_tracker
    refs = []
    for op in ops:
        if op[0] == "F":
            t.add_import_from(op[1], list(op[2]), require=op[3])
        elif op[0] == "M":
            t.add_import(op[1], op[2], require=op[3])
        elif op[0] == "R":
            t.require_name(op[1])
        elif op[0] == "X":
            t.reexport(op[1])
        elif op[0] == "A":
            gen.defined_names = set(op[4])
            refs.append(gen.add_name(f"{op[1]}.{op[2]}", require=op[3]))
    return t, refs


def canon_lines(lines: list[str]) -> list[str]:
    out = []
    for l in lines:
        l = l.strip()
        m = re.match(r"from (\S+) import (.*)$", l)
        if m:
            for part in m.group(2).split(","):
                out.append(f"from {m.group(1)} import {part.strip()}")
        else:
            out.append(l)
    return sorted(out)


def bound_names(lines: list[str]) -> set[str]:
    """Dotted names the import statements make available — by CPython's ast, not by the model."""
    res: set[str] = set()
    for l in lines:
        try:
            node = ast.parse(l.strip()).body[0]
        except SyntaxError:
            continue
        if isinstance(node, ast.Import):
            for al in node.names:
                if al.asname:
                    res.add(al.asname)
                else:
                    parts = al.name.split(".")
                    for i in range(1, len(parts) + 1):
                        res.add(".".join(parts[:i]))
        elif isinstance(node, ast.ImportFrom):
            for al in node.names:
                res.add(al.asname or al.name)
    return res


def bound_objects(lines: list[str]) -> dict[str, tuple]:
    """name -> what it is bound to, (module, original name) / ("<module>", dotted) — by CPython's ast."""
    res: dict[str, tuple] = {}
    for l in lines:
        try:
            node = ast.parse(l.strip()).body[0]
        except SyntaxError:
            continue
        if isinstance(node, ast.Import):
            for al in node.names:
                if al.asname:
                    res[al.asname] = ("<module>", al.name)
                else:
                    parts = al.name.split(".")
                    for i in range(1, len(parts) + 1):
                        res[".".join(parts[:i])] = ("<module>", ".".join(parts[:i]))
        elif isinstance(node, ast.ImportFrom):
            for al in node.names:
                res[al.asname or al.name] = ("." * node.level + (node.module or ""), al.name)
    return res


def expected_objects(ops: list[tuple]) -> dict[str, tuple]:
    """What each name was imported as by the operation sequence itself (last import wins) — independent of the
    tracker's tables and of the model."""
    exp: dict[str, tuple] = {}
    for op in ops:
        if op[0] == "F":
            for n, a in op[2]:
                exp[a or n] = (op[1], n)
        elif op[0] == "M":
            if op[2]:
                exp[op[2]] = ("<module>", op[1])
            else:
                parts = op[1].split(".")
                for i in range(1, len(parts) + 1):
                    exp[".".join(parts[:i])] = ("<module>", ".".join(parts[:i]))
        elif op[0] == "A":
            pass        # add_name: alias choice is the tracker's own; covered by the refs comparison
    return exp


def tie_imports(ctx: Ctx) -> None:
    rng = ctx.rng
    n = ctx.pick(2500, 20000)
    seqs = [gen_ops(rng) for _ in range(n)]
    lines = []
    for ops in seqs:
        enc = []
        for op in ops:
            if op[0] == "F":
                enc.append("F %s %d %s" % (op[1], int(op[3]), " ".join(f"{a}:{b}" if b else a for a, b in op[2])))
            elif op[0] == "M":
                enc.append("M %s %s %d" % (op[1], op[2] or "-", int(op[3])))
            elif op[0] == "R":
                enc.append("R " + op[1])
            elif op[0] == "X":
                enc.append("X " + op[1])
            else:
                enc.append("A %s %s %d %s" % (op[1], op[2], int(op[3]), ",".join(op[4]) or "-"))
        lines.append("I " + ";".join(enc))
    model = ctx.lean_driver("Driver/C19.lean", lines)
    if len(model) != len(seqs):
        raise ToolFailure("driver line count mismatch (imports)")
    bad = 0
    nwrong = 0
    for ops, line, mline in zip(seqs, lines, model):
        ctx.case(("C", line), nontrivial=len(ops) >= 3)
        ctx.dist("import_ops", str(min(len(ops), 9)))
        for op in ops:
            ctx.dist("import_op_kind", op[0])
        try:
            t, refs = real_tracker(ops)
            rl = t.import_lines()
            crashed = None
        except AssertionError as e:        # `assert "." not in alias/name` in the real code: out of the model
            ctx.dist("import_outcome", "real-assertion")
            continue
        parts = dict(p.split("=", 1) for p in mline.split("\t"))
        ml = sorted(x for x in parts["lines"].split("|") if x)
        mreq = sorted(x for x in parts["required"].split(",") if x)
        mrefs = [x for x in parts["refs"].split(",") if x]
        same = canon_lines(rl) == ml and sorted(t.required_names) == mreq and refs == mrefs
        ctx.count("traces_validated_against_impl")
        # property oracle on the real tracker: required ∧ imported ⇒ bound by the emitted lines
        bound = bound_names(rl)
        unbound = sorted(r for r in t.required_names if r in t.module_for and r not in bound)
        # … and bound to the object the source imported: `from m import a as b` must stay `a as b`
        got, exp = bound_objects(rl), expected_objects(ops)
        has_add_name = any(op[0] == "A" for op in ops)
        # (only names the sequence binds exactly once: clashes between `import a.b` and `from m import a` have no
        #  single right answer)
        targets: list[str] = []
        for op in ops:
            if op[0] == "F":
                targets += [a or n for n, a in op[2]]
            elif op[0] == "M":
                targets += [op[2]] if op[2] else [".".join(op[1].split(".")[:i]) for i in range(1, op[1].count(".") + 2)]
        once = {n for n in targets if targets.count(n) == 1}
        wrong = sorted(n for n, o in got.items() if n in exp and n in once and exp[n] != o) if not has_add_name else []
        ctx.dist("import_outcome", "same" if same else "differs")
        if same and not unbound and not wrong:
            continue
        ctx.count("disagreements_checked")
        if wrong and nwrong < 3:
            nwrong += 1
            ctx.report({"class": "import-binds-wrong-object"},
                       "import_lines() binds %s to %s, the source imported %s" % (wrong[0], got[wrong[0]], exp[wrong[0]]),
                       {"part": "C", "ops": ops, "import_lines": rl, "model": mline})
        if unbound:
            ctx.report({"class": "import-not-emitted"}, f"required imported names {unbound} are not bound by import_lines()",
                       {"part": "C", "ops": ops, "import_lines": rl, "model": mline})
        if not same:
            bad += 1
            if bad <= 3:
                ctx.violation("ImportTracker correspondence broken (model ≠ mypy.stubutil.ImportTracker)",
                              {"broken": "correspondence Driver/C19 `I`", "ops": ops, "real_lines": canon_lines(rl),
                               "real_required": sorted(t.required_names), "real_refs": refs, "model": mline},
                              found_input=bool(unbound or wrong))
    ctx.sample({"import_ops": lines[3], "model_and_impl": model[3]})
    ctx.coverage["import_disagreements"] = bad


# ----------------------------------------------------------------------------------------- D: return type
CONV_TABLE = {"float": "float", "bool": "bool", "bytes": "bytes", "int": "int", "complex": "complex", "str": "str",
              "eq": "bool", "ne": "bool", "lt": "bool", "le": "bool", "gt": "bool", "ge": "bool", "contains": "bool",
              "len": "int", "length_hint": "int", "index": "int", "hash": "int", "sizeof": "int", "trunc": "int",
              "floor": "int", "ceil": "int", "format": "str", "repr": "str", "init": "None", "setitem": "None",
              "del": "None", "delitem": "None"}
RET_ANNS = ["Mask", "Vec", "int", "bool", "str", "None", "int | None", "list[Vec]", "Any", "float", "tuple[int, ...]", "object"]
BODIES = [  # (lines, yieldFrom, yields, yieldsValue, yieldAssigned, returnsValue)
    (["pass"], 0, 0, 0, 0, 0),
    (["return None"], 0, 0, 0, 0, 0),
    (["return"], 0, 0, 0, 0, 0),
    (["return 1"], 0, 0, 0, 0, 1),
    (["return self_or(1)"], 0, 0, 0, 0, 1),
    (["raise NotImplementedError"], 0, 0, 0, 0, 0),
    (["..."], 0, 0, 0, 0, 0),
    (["yield"], 0, 1, 0, 0, 0),
    (["yield None"], 0, 1, 0, 0, 0),
    (["yield 1"], 0, 1, 1, 0, 0),
    (["x = yield"], 0, 1, 0, 1, 0),
    (["x = yield 2", "return x"], 0, 1, 1, 1, 1),
    (["yield 1", "return 3"], 0, 1, 1, 0, 1),
    (["yield from other()"], 1, 0, 0, 0, 0),
    (["yield from other()", "return 1"], 1, 0, 0, 0, 1),
    (["if a:", "    return 2", "return None"], 0, 0, 0, 0, 1),
]


def tie_returns(ctx: Ctx) -> None:
    rng = ctx.rng
    names = ["__" + n + "__" for n in CONV_TABLE] + ["__iter__", "__call__", "__next__", "__enter__", "__add__",
                                                    "__getitem__", "__await__", "__neg__"]
    cases = []
    n = ctx.pick(1200, 8000)
    # every name of the table x {unannotated, conventional annotation, non-conventional annotation} deterministically
    fixed = []
    for nm_ in names:
        for mode in ("none", "conv", "other", "params-only"):
            fixed.append((nm_, mode))
    for i in range(n + len(fixed)):
        if i < len(fixed):
            name, amode = fixed[i]
            ctxk = "method"
        else:
            name = rng.choice(names) if rng.random() < 0.6 else f"plain{i}"
            amode = rng.choice(["none", "conv", "other", "other", "params-only", "any"])
            ctxk = rng.choice(["method", "method", "func", "abstract", "static"])
            if ctxk == "func" and name.startswith("__"):
                ctxk = "method"        # module-level names must be unique (a second definition is not emitted)
        conv = CONV_TABLE.get(name[2:-2]) if name.startswith("__") else None
        if amode == "none":
            annotated, ret = False, None
        elif amode == "params-only":
            annotated, ret = True, None
        elif amode == "conv":
            annotated, ret = True, (conv or "int")
        elif amode == "any":
            annotated, ret = True, "Any"
        else:
            annotated, ret = True, rng.choice([r for r in RET_ANNS if r != conv])
        body = rng.choice(BODIES)
        is_async = rng.random() < 0.08 and not (body[1] or body[2])
        cases.append({"name": name, "ctx": ctxk, "annotated": annotated, "ret": ret, "body": body, "async": is_async, "i": i})
    lines = ["import abc", "from typing import Any", "class Mask: pass", "class Vec: pass", "def other(): yield 1",
             "def self_or(x): return x"]
    for c in cases:
        first = {"method": "self", "abstract": "self", "static": None, "func": None}[c["ctx"]]
        params = ([first] if first else []) + (["a: int"] if c["annotated"] and c["ret"] is None else ["a"])
        if c["annotated"] and c["ret"] is not None and rng.random() < 0.5:
            params[-1] = "a: int"
        head = ("async " if c["async"] else "") + f"def {c['name']}({', '.join(params)})" + (f" -> {c['ret']}" if c["ret"] is not None else "") + ":"
        if c["ctx"] == "func":
            lines += [head] + ["    " + b for b in c["body"][0]]
        else:
            base = "(abc.ABC)" if c["ctx"] == "abstract" else ""
            lines.append(f"class R{c['i']}{base}:")
            if c["ctx"] == "abstract":
                lines.append("    @abc.abstractmethod")
            if c["ctx"] == "static":
                lines.append("    @staticmethod")
            lines += ["    " + head] + ["        " + b for b in c["body"][0]]
    out = real_stub("\n".join(lines) + "\n").splitlines()
    drv = []
    for c in cases:
        b = c["body"]
        flags = [int(c["ctx"] == "abstract"), 0, b[1], b[2], b[3], b[4], b[5]]
        drv.append("T %s\t%d\t%s\t%s" % (c["name"], int(c["annotated"]), c["ret"] or "-", " ".join(map(str, flags))))
    model = ctx.lean_driver("Driver/C19.lean", drv)
    if len(model) != len(cases):
        raise ToolFailure("driver line count mismatch (returns)")
    bad = 0
    seen: set[str] = set()
    for c, m in zip(cases, model):
        ctx.case(("D", c["name"] if c["name"].startswith("__") else "plain", c["ctx"], c["annotated"], c["ret"], c["body"][0], c["async"]))
        ctx.dist("return_annotation", "none" if not c["annotated"] else "params-only" if c["ret"] is None else
                 "conventional" if c["ret"] == CONV_TABLE.get(c["name"][2:-2], "?") else "non-conventional")
        ctx.dist("return_name", "table" if c["name"][2:-2] in CONV_TABLE and c["name"].startswith("__") else "other")
        if c["ctx"] == "func":
            pat = re.compile(rf"(async )?def {re.escape(c['name'])}\(")
            line = next((l for l in out if pat.match(l)), None)
        else:
            start = next((k for k, l in enumerate(out) if l.startswith(f"class R{c['i']}:") or l.startswith(f"class R{c['i']}(")), None)
            line = None
            if start is not None:
                for l in out[start + 1:]:
                    if l and not l.startswith(" "):
                        break
                    if re.match(r"\s+(async )?def ", l):
                        line = l
                        break
        if line is None:
            raise ToolFailure(f"tie D: no def line for case {c['i']} ({c['name']})")
        mret = re.search(r"\) -> (.*): \.\.\.$", line)
        real = mret.group(1) if mret else "-"
        ctx.count("traces_validated_against_impl")
        same = real == m
        # the property's own oracle: a spelled-out return annotation must be the stub's
        lost = c["annotated"] and c["ret"] is not None and c["name"] != "__init__" and real != c["ret"]
        if same and not lost:
            continue
        ctx.count("disagreements_checked")
        if lost:
            key = "lost:" + ("table" if c["name"][2:-2] in CONV_TABLE else "other")
            if key not in seen:
                seen.add(key)
                ctx.report({"class": "return-annotation-replaced", "name": c["name"]},
                           f"`def {c['name']}(…) -> {c['ret']}` is emitted as `{line.strip()}`: the spelled-out return annotation is lost",
                           {"part": "D", "source": lines[:6] + ["class R(abc.ABC):" if c["ctx"] == "abstract" else "class R:",
                            "    def %s(self, a) -> %s:" % (c["name"], c["ret"])] + ["        " + b for b in c["body"][0]],
                            "emitted": line, "model": m})
        if not same:
            bad += 1
            if bad <= 3:
                ctx.violation("return-type correspondence broken (model ≠ ASTStubGenerator._get_func_return)",
                              {"broken": "correspondence Driver/C19 `T`", "part": "D", "case": {k: v for k, v in c.items() if k != "body"},
                               "body": c["body"][0], "emitted": line, "model": m}, found_input=bool(lost))
    ctx.coverage["return_disagreements"] = bad
