"""Generator of self-contained, importable, mypy-clean packages for the C19 search.

A package `pkgN/` = `__init__.py`, `base.py` (classes/aliases the other modules import relatively), a few
feature modules `mK.py` and one module in a sub-package (`sub/deep.py`, `from ..base import …`).
Every feature module is assembled from randomly chosen *features*; each feature emits top-level
statements that (i) run under CPython 3.12, (ii) type-check under mypy's default options.

Everything is derived from the `random.Random` passed in.  `avoid` is the set of construct classes the
random stream must not draw (known findings; each has an explicit witness module in witnesses.py).
"""
from __future__ import annotations

import random

# (spelling with {T} as the typing prefix placeholder, literal defaults valid for it, value for `return`)
POOL: list[tuple[str, list[str], str]] = [
    ("int", ["0", "1", "-1", "42", "0x10", "1_000", "+3"], "0"),
    ("str", ["''", "'a'", '"it\'s"', "'q\"'", "'\\n'", "'\\u03c0'", "'a\\\\b'", "'a' 'b'"], "''"),
    ("bytes", ["b''", "b'x'", "b'\\x00'", 'b"\'"', "b'\\\\'"], "b''"),
    ("float", ["1.5", "-0.5", "1e10", "1e-07", "0.0", "2."], "0.0"),
    ("bool", ["True", "False"], "True"),
    ("object", ["None", "0"], "0"),
    ("int | None", ["None", "3"], "None"),
    ("str | None", ["None", "'s'"], "None"),
    ("list[int]", ["[]", "[1, 2]"], "[]"),
    ("dict[str, int]", ["{}", "{'a': 1}"], "{}"),
    ("tuple[int, ...]", ["()", "(1,)", "(1, 2)"], "()"),
    ("tuple[int, str]", ["(1, 'a')"], "(1, 'a')"),
    ("set[int]", ["{1}", "set()"], "set()"),
    ("{T}Callable[[int], str]", ["str"], "str"),
    ("{T}Callable[..., {T}Any]", ["print"], "print"),
    ("{T}Any", ["None", "1", "[]"], "None"),
    ("{C}Sequence[int]", ["()", "[1]"], "()"),
    ("{T}Literal['a', 'b']", ["'a'"], "'a'"),
    ("{T}Literal[1, 2]", ["1"], "1"),
    ("{T}Optional[int]", ["None", "5"], "None"),
    ("{T}Union[int, str]", ["1", "'u'"], "1"),
    ("{T}List[int]", ["[]"], "[]"),
    ("{T}Dict[str, int]", ["{}"], "{}"),
    ("type[int]", ["int"], "int"),
    ("list[dict[str, tuple[int, ...]]]", ["[]"], "[]"),
    ("int | str | None", ["None", "'x'", "7"], "None"),
]
UNTYPED_DEFAULTS = ["None", "0", "-1", "1.5", "'s'", "b'b'", "True", "()", "(1, 2)", "[]", "[1, 'a']", "{}",
                    "{'k': 1}", "{1, 2}", "~1", "print", "len", "frozenset()", "lambda: 0", "1 + 2", "10 ** 3",
                    "(1, [2, (3,)])", "-1.5", "1j", "...", "not True", "'%s' % 1"]

KEYWORDISH = ["type", "id", "list", "input", "format", "match", "case", "_", "x__", "self_", "cls_", "async_"]


class Mod:
    """One module under construction."""

    def __init__(self, rng: random.Random, modname: str, relbase: str, avoid: frozenset[str], future: bool,
                 profile: str = "full", features: list[str] | None = None):
        self.rng = rng
        self.profile = profile          # "full" | "inspect" (the constructs --inspect-mode handles)
        self.features_override = features
        self.modname = modname
        self.relbase = relbase          # "." or ".." — how to reach the package that holds base.py
        self.avoid = avoid
        self.future = future
        self.style = rng.choice(["from", "from", "qual", "alias"]) if profile == "full" else "from"
        self.tprefix = {"from": "", "qual": "typing.", "alias": "t."}[self.style]
        self.cprefix = {"from": "", "qual": "collections.abc.", "alias": "cabc."}[self.style]
        self.typing_names: set[str] = set()
        self.cabc_names: set[str] = set()
        self.extra_imports: list[str] = []
        self.body: list[str] = []
        self.classes: list[str] = []       # local/imported class names usable in annotations
        self.public: list[str] = []        # top-level public names (candidates for __all__)
        self.leaf: set[str] = set()        # public names nothing else refers to (may be left out of __all__)
        self.final_classes: set[str] = set()   # classes that cannot be subclassed (enums with members, …)
        self.rebound: set[str] = set()
        self.force_all = False
        self.features: list[str] = []
        self.n = 0

    # ---- helpers ---------------------------------------------------------------------------------
    def fresh(self, stem: str) -> str:
        self.n += 1
        return f"{stem}{self.n}"

    def T(self, name: str) -> str:
        """Reference to a name of `typing`."""
        if self.style == "from":
            self.typing_names.add(name)
        return self.tprefix + name

    def spell(self, s: str) -> str:
        if "{T}" in s:
            import re
            for m in re.findall(r"\{T\}(\w+)", s):
                self.T(m)
            s = s.replace("{T}", self.tprefix)
        if "{C}" in s:
            import re
            for m in re.findall(r"\{C\}(\w+)", s):
                if self.style == "from":
                    self.cabc_names.add(m)
            s = s.replace("{C}", self.cprefix)
        return s

    def ty(self) -> tuple[str, list[str], str]:
        """A type spelling, literal defaults that inhabit it, an expression to return."""
        r = self.rng
        if self.profile == "inspect":
            if self.classes and r.random() < 0.2:
                return r.choice(self.classes), [], ""
            s, d, v = r.choice(POOL[:6])
            return s, d, v
        if self.classes and r.random() < 0.2:
            c = r.choice(self.classes)
            if r.random() < 0.5:
                return f"{c} | None", ["None"], "None"
            if r.random() < 0.5:
                return f"list[{c}]", ["[]"], "[]"
            return c, [], ""
        s, d, v = r.choice(POOL)
        return self.spell(s), d, v

    def emit(self, *lines: str) -> None:
        self.body.extend(lines)

    # ---- signatures ------------------------------------------------------------------------------
    def params(self, first: str | None, annot: str) -> tuple[str, list[str]]:
        """A parameter list obeying Python's grammar.  annot ∈ full | none | partial.
        Returns (text, names)."""
        r = self.rng
        npo = r.choice([0, 0, 0, 1, 2]) if self.profile == "full" else 0
        npos = r.choice([0, 1, 1, 2, 3])
        star = r.random() < 0.3
        nkw = r.choice([0, 0, 1, 2, 3])
        star2 = r.random() < 0.3
        names: list[str] = []

        def nm() -> str:
            while True:
                x = r.choice("abcdefghkmnpqrstuvwxyz") + r.choice(["", "", "1", "_x", "2"])
                if r.random() < 0.08:
                    x = r.choice(KEYWORDISH)
                if x not in names and x != first:
                    names.append(x)
                    return x

        def one(can_default: bool, force_default: bool, kind: str) -> tuple[str, bool]:
            n = nm()
            ann = annot == "full" or (annot == "partial" and r.random() < 0.5)
            if ann:
                t, ds, _ = self.ty()
                has = can_default and ds and (force_default or r.random() < 0.4)
                if kind == "star":
                    t = r.choice(["int", "str", self.spell("{T}Any"), "object"] if self.profile == "full" else ["int", "str", "object"])
                    return f"*{n}: {t}", False
                if kind == "star2":
                    t = r.choice(["int", "str", self.spell("{T}Any"), "object"] if self.profile == "full" else ["int", "str", "object"])
                    return f"**{n}: {t}", False
                if force_default and not ds:
                    t, ds = (t + " | None", ["None"]) if self.profile == "full" else ("int", ["0"])
                    has = True
                return (f"{n}: {t} = {r.choice(ds)}" if has else f"{n}: {t}"), bool(has)
            if kind == "star":
                return f"*{n}", False
            if kind == "star2":
                return f"**{n}", False
            has = can_default and (force_default or r.random() < 0.4)
            pool = UNTYPED_DEFAULTS if self.profile == "full" else [d for d in UNTYPED_DEFAULTS if d not in ("print", "len")]
            return (f"{n}={r.choice(pool)}" if has else n), has

        items: list[str] = []
        seen_default = False
        if first is not None:
            items.append(first)
        for i in range(npo):
            s, d = one(True, seen_default, "pos")
            seen_default = seen_default or d
            items.append(s)
        if npo or (first is not None and npos + npo > 0 and r.random() < 0.05 and self.profile == "full"):
            items.append("/")
        for i in range(npos):
            s, d = one(True, seen_default, "pos")
            seen_default = seen_default or d
            items.append(s)
        if star:
            items.append(one(False, False, "star")[0])
        elif nkw:
            items.append("*")
        for i in range(nkw):
            items.append(one(True, False, "kw")[0])
        if star2:
            items.append(one(False, False, "star2")[0])
        return ", ".join(items), names

    def func(self, name: str, indent: str = "", first: str | None = None, deco: list[str] | None = None,
             is_async: bool | None = None, stub_body: bool = False) -> None:
        r = self.rng
        annot = r.choice(["full", "full", "none", "partial"])
        ps, names = self.params(first, annot)
        if is_async is None:
            is_async = r.random() < 0.15 and self.profile == "full"
        ret = ""
        body = "pass"
        if annot != "none" and r.random() < 0.85:
            t, _, v = self.ty()
            if is_async or r.random() < 0.7 or not v:
                body = "raise NotImplementedError"
            else:
                body = f"return {v}"
            ret = f" -> {t}"
            if r.random() < 0.2:
                ret, body = " -> None", r.choice(["pass", "return None", "return"])
        elif annot == "none":
            body = r.choice(["pass", "return None", f"return {names[0]}" if names else "return 1",
                             "raise NotImplementedError", "yield 1", "x = yield", "pass"])
            if is_async and "yield" in body:
                body = "pass"
        if stub_body:
            body = "..."
        for d in deco or []:
            self.emit(f"{indent}{d}")
        self.emit(f"{indent}{'async ' if is_async else ''}def {name}({ps}){ret}:")
        if r.random() < 0.2:
            self.emit(f'{indent}    """Docstring of {name}."""')
        self.emit(f"{indent}    {body}")

    # ---- features --------------------------------------------------------------------------------
    def f_functions(self) -> None:
        for _ in range(self.rng.randint(1, 4)):
            n = self.fresh("func")
            self.func(n)
            self.public.append(n)
            self.leaf.add(n)
        if self.rng.random() < 0.3:
            n = self.fresh("_private_func")
            self.func(n)

    def f_variables(self) -> None:
        r = self.rng
        if self.profile == "inspect":
            for _ in range(r.randint(1, 3)):
                n = self.fresh("var")
                t, val = r.choice([("int", "3"), ("str", "'s'"), ("float", "1.5"), ("bool", "True"), ("bytes", "b'x'")])
                self.emit(f"{n}: {t} = {val}" if r.random() < 0.5 else f"{n} = {val}")
                self.public.append(n)
                self.leaf.add(n)
            return
        for _ in range(r.randint(1, 4)):
            n = self.fresh("VAR" if r.random() < 0.5 else "var")
            k = r.random()
            t, ds, v = self.ty()
            val = r.choice(ds) if ds else None
            if k < 0.45 and val is not None:
                self.emit(f"{n}: {t} = {val}")
            elif k < 0.6:
                self.emit(f"{n} = {r.choice(['1', chr(39) + 's' + chr(39), '1.5', 'True', 'None', '[1]', 'b' + chr(39) + chr(39), '-2', '(1, 2)'])}")
            elif k < 0.7 and self.style == "from":      # bare `typing.Final` (qualified) is a known class: witness final_qualified
                self.emit(f"{n}: {self.T('Final')} = {r.choice(['3', chr(39) + 'f' + chr(39), '2.5', 'True', '-1'])}")
            elif k < 0.8 and val is not None:
                self.emit(f"{n}: {self.T('Final')}[{t}] = {val}")
            elif k < 0.9:
                n2 = self.fresh("var")
                self.emit(f"{n}, {n2} = 1, 'two'")
                self.public.append(n2)
            else:
                self.emit(f"{n}: {t}" if False else f"{n}: int = 0")
            self.public.append(n)
            self.leaf.add(n)
        if r.random() < 0.3:
            self.emit(f"{self.fresh('_hidden')} = 1")

    def method_block(self, cname: str, indent: str = "    ", abstract: bool = False, no_init: bool = False) -> None:
        r = self.rng
        kinds = r.sample(["plain", "plain", "static", "classm", "prop", "proprw", "dunder", "init", "async", "private",
                          "nested", "dunder_ret"], r.randint(1, 5))
        if no_init:
            kinds = [k for k in kinds if k not in ("init", "nested")] or ["plain"]
        if self.profile == "inspect":
            kinds = [k for k in kinds if k in ("plain", "static", "classm", "init", "private", "dunder_ret")] or ["plain"]
        for k in kinds:
            if k == "plain":
                self.func(self.fresh("meth"), indent, "self",
                          deco=[f"@abc.abstractmethod"] if abstract and r.random() < 0.6 else None)
            elif k == "async":
                self.func(self.fresh("ameth"), indent, "self", is_async=True)
            elif k == "private":
                self.func(self.fresh("_pmeth"), indent, "self")
            elif k == "static":
                self.func(self.fresh("smeth"), indent, None, deco=["@staticmethod"])
            elif k == "classm":
                self.func(self.fresh("cmeth"), indent, "cls", deco=["@classmethod"])
            elif k == "prop":
                n = self.fresh("prop")
                t, _, v = self.ty()
                self.emit(f"{indent}@property", f"{indent}def {n}(self) -> {t}:", f"{indent}    raise NotImplementedError")
            elif k == "proprw":
                n = self.fresh("rwprop")
                t, _, v = self.ty()
                self.emit(f"{indent}@property", f"{indent}def {n}(self) -> {t}:", f"{indent}    raise NotImplementedError",
                          f"{indent}@{n}.setter", f"{indent}def {n}(self, value: {t}) -> None:", f"{indent}    pass")
            elif k == "dunder":
                d = r.choice(["__eq__", "__len__", "__iter__", "__call__", "__getitem__", "__bool__", "__hash__",
                              "__enter__", "__exit__", "__contains__"])
                if d == "__eq__":
                    self.emit(f"{indent}def __eq__(self, other: object) -> bool:", f"{indent}    return NotImplemented")
                elif d == "__len__":
                    self.emit(f"{indent}def __len__(self) -> int:", f"{indent}    return 0")
                elif d == "__iter__":
                    self.emit(f"{indent}def __iter__(self) -> {self.T('Iterator')}[int]:", f"{indent}    return iter(())")
                elif d == "__call__":
                    self.func("__call__", indent, "self")
                elif d == "__getitem__":
                    self.emit(f"{indent}def __getitem__(self, index: int) -> str:", f"{indent}    return ''")
                elif d == "__bool__":
                    self.emit(f"{indent}def __bool__(self) -> bool:", f"{indent}    return True")
                elif d == "__hash__":
                    self.emit(f"{indent}def __hash__(self) -> int:", f"{indent}    return 0")
                elif d == "__enter__":
                    self.emit(f"{indent}def __enter__(self) -> {self.T('Self')}:", f"{indent}    return self")
                elif d == "__exit__":
                    self.emit(f"{indent}def __exit__(self, exc_type, exc, tb):" if r.random() < 0.5 else
                              f"{indent}def __exit__(self, *args: object) -> None:", f"{indent}    pass")
                elif d == "__contains__":
                    self.emit(f"{indent}def __contains__(self, item: object) -> bool:", f"{indent}    return False")
            elif k == "dunder_ret":
                # special methods of infer_method_ret_type's table with a spelled-out, NON-conventional return type
                d, conv, extra = r.choice([("__lt__", "bool", ", other: object"), ("__le__", "bool", ", other: object"),
                                           ("__gt__", "bool", ", other: object"), ("__ge__", "bool", ", other: object"),
                                           ("__floor__", "int", ""), ("__ceil__", "int", ""), ("__trunc__", "int", ""),
                                           ("__contains__", "bool", ", item: object"), ("__length_hint__", "int", ""),
                                           ("__setitem__", "None", ", key: int, value: int"), ("__delitem__", "None", ", key: int")])
                t, _, _ = self.ty()
                if t == conv:
                    t = "object"
                self.emit(f"{indent}def {d}(self{extra}) -> {t}:", f"{indent}    raise NotImplementedError")
            elif k == "init":
                t, ds, _ = self.ty()
                t2, ds2, _ = self.ty()
                a1, a2, a3 = self.fresh("ia"), self.fresh("ib"), self.fresh("_ic")
                self.emit(f"{indent}def __init__(self, a: {t}, b: {t2}{' = ' + r.choice(ds2) if ds2 else ''}, c=1) -> None:",
                          f"{indent}    self.{a1} = a", f"{indent}    self.{a2}: {t2} = b", f"{indent}    self.{a3} = c",
                          f"{indent}    self.{self.fresh('count')} = 0")
            elif k == "nested" and indent == "    ":
                nn = self.fresh("Inner")
                self.emit(f"{indent}class {nn}:", f"{indent}    tag: int = 0")
                self.func(self.fresh("imeth"), indent + "    ", "self")

    def f_class(self) -> None:
        r = self.rng
        n = self.fresh("Klass")
        bases = []
        k = r.random()
        abstract = False
        if k < 0.2 and [c for c in self.classes if c not in self.final_classes]:
            bases.append(r.choice([c for c in self.classes if c not in self.final_classes]))
        elif k < 0.3:
            bases.append("abc.ABC")
            self.extra_imports.append("import abc")
            abstract = True
        elif k < 0.4:
            tv = self.need_typevar()
            bases.append(f"{self.T('Generic')}[{tv}]")
        elif k < 0.5:
            bases.append("object")
        if self.profile == "inspect":
            bases = [b for b in bases if b in self.classes]
            abstract = False
        self.emit(f"class {n}{'(' + ', '.join(bases) + ')' if bases else ''}:")
        if r.random() < 0.25:
            self.emit(f'    """Class {n}."""')
        nattr = r.randint(0, 3) if self.profile == "full" else 0
        if self.profile == "inspect" and r.random() < 0.5:
            self.emit(f"    {self.fresh('attr')} = {r.choice(['0', chr(39) + 'x' + chr(39), '1.0'])}")
        for _ in range(nattr):
            t, ds, _ = self.ty()
            a = self.fresh("attr")
            kk = r.random()
            if kk < 0.4 and ds:
                self.emit(f"    {a}: {t} = {r.choice(ds)}")
            elif kk < 0.6:
                self.emit(f"    {a}: {t}")
            elif kk < 0.8:
                self.emit(f"    {a} = {r.choice(['0', chr(39) + 'x' + chr(39), 'None', '1.0', 'True'])}")
            else:
                self.emit(f"    {a}: {self.T('ClassVar')}[int] = 0")
        if abstract:
            self.extra_imports.append("import abc")
            self.final_classes.add(n)     # a subclass that stays abstract is a known parse-only class (witness abstract_subclass_parse_only)
        self.method_block(n, abstract=abstract)
        self.classes.append(n)
        self.public.append(n)

    def need_typevar(self) -> str:
        n = self.fresh("T")
        kind = self.rng.choice(["plain", "bound", "constr", "co"])
        tv = self.T("TypeVar")
        if kind == "plain":
            self.emit(f"{n} = {tv}('{n}')")
        elif kind == "bound":
            self.emit(f"{n} = {tv}('{n}', bound=int)")
        elif kind == "constr":
            self.emit(f"{n} = {tv}('{n}', int, str)")
        else:
            self.emit(f"{n} = {tv}('{n}')")
        self.public.append(n)
        return n

    def f_generic_func(self) -> None:
        tv = self.need_typevar()
        n = self.fresh("gfunc")
        self.emit(f"def {n}(x: {tv}, items: list[{tv}]) -> {tv}:", "    return x")
        self.public.append(n)

    def f_dataclass(self) -> None:
        r = self.rng
        n = self.fresh("Data")
        how = r.choice(["from", "from", "mod"])
        args = r.choice(["", "", "(frozen=True)", "(order=True)", "(eq=False)", "(kw_only=True)", "(slots=True)"])
        if how == "from":
            self.extra_imports.append("from dataclasses import dataclass, field")
            self.emit(f"@dataclass{args}")
            fld = "field"
        else:
            self.extra_imports.append("import dataclasses")
            self.emit(f"@dataclasses.dataclass{args}")
            fld = "dataclasses.field"
        self.emit(f"class {n}:")
        seen_default = args == "(kw_only=True)" and False
        for i in range(r.randint(1, 5)):
            t, ds, _ = self.ty()
            a = self.fresh("f")
            k = r.random()
            if k < 0.1:
                self.emit(f"    {a}: {self.T('ClassVar')}[int] = 0")
                continue
            if (seen_default or k < 0.5) and ds or (seen_default and not ds):
                if not ds:
                    t, ds = t + " | None", ["None"]
                d = r.choice(ds)
                if d in ("[]", "{}", "set()", "[1, 2]", "{'a': 1}", "{1}", "[1]"):
                    fac = {"[]": "list", "{}": "dict", "set()": "set"}.get(d, f"lambda: {d}")
                    self.emit(f"    {a}: {t} = {fld}(default_factory={fac})")
                elif r.random() < 0.2:
                    self.emit(f"    {a}: {t} = {fld}(default={d}, repr=False)")
                else:
                    self.emit(f"    {a}: {t} = {d}")
                seen_default = True
            else:
                self.emit(f"    {a}: {t}")
        if r.random() < 0.5:
            self.method_block(n, no_init=True)
        self.classes.append(n)
        self.public.append(n)

    def f_enum(self) -> None:
        r = self.rng
        n = self.fresh("Color")
        base = r.choice(["Enum", "IntEnum", "Flag", "StrEnum", "Enum"])
        how = r.choice(["mod", "from"])
        if how == "mod":
            self.extra_imports.append("import enum")
            b, auto = f"enum.{base}", "enum.auto()"
        else:
            self.extra_imports.append(f"from enum import {base}, auto")
            b, auto = base, "auto()"
        self.emit(f"class {n}({b}):")
        for i in range(r.randint(1, 4)):
            m = self.fresh("MEMBER")
            if base == "StrEnum":
                v = r.choice([f"'{m.lower()}'", auto])
            elif base in ("IntEnum", "Flag"):
                v = r.choice([str(1 << i), auto])
            else:
                v = r.choice([str(i + 1), f"'{m.lower()}'", auto, f"({i}, 'x')", "1.5" if i == 0 else str(i + 10)])
            self.emit(f"    {m} = {v}")
        if r.random() < 0.4:
            self.func(self.fresh("emeth"), "    ", "self")
        self.classes.append(n)
        self.final_classes.add(n)
        self.public.append(n)

    def f_namedtuple(self) -> None:
        r = self.rng
        n = self.fresh("Point")
        k = r.random()
        if k < 0.5:
            self.emit(f"class {n}({self.T('NamedTuple')}):")
            seen = False
            for i in range(r.randint(1, 4)):
                t, ds, _ = self.ty()
                a = self.fresh("nt")
                if (seen or r.random() < 0.3) and (ds or seen):
                    if not ds:
                        t, ds = t + " | None", ["None"]
                    self.emit(f"    {a}: {t} = {r.choice(ds)}")
                    seen = True
                else:
                    self.emit(f"    {a}: {t}")
            if r.random() < 0.4:
                self.func(self.fresh("ntmeth"), "    ", "self")
        elif k < 0.7:
            self.emit(f"{n} = {self.T('NamedTuple')}('{n}', [('x', int), ('y', str | None)])")
        elif k < 0.85:
            self.extra_imports.append("import collections")
            self.emit(f"{n} = collections.namedtuple('{n}', {r.choice([repr('x y'), repr(['x', 'y']), repr('x, y')])})")
        else:
            self.extra_imports.append("from collections import namedtuple")
            self.emit(f"class {n}(namedtuple('{n}', ['x', 'y'])):", "    def total(self) -> int:", "        return 0")
        self.classes.append(n)
        self.public.append(n)

    def f_typeddict(self) -> None:
        r = self.rng
        n = self.fresh("Movie")
        k = r.random()
        if k < 0.6:
            tot = r.choice(["", "", ", total=False"])
            self.emit(f"class {n}({self.T('TypedDict')}{tot}):")
            for i in range(r.randint(1, 4)):
                t, _, _ = self.ty()
                a = self.fresh("key")
                kk = r.random()
                if kk < 0.15:
                    t = f"{self.T('NotRequired')}[{t}]"
                elif kk < 0.3:
                    t = f"{self.T('Required')}[{t}]"
                self.emit(f"    {a}: {t}")
            if r.random() < 0.3:
                n2 = self.fresh("Movie")
                self.emit(f"class {n2}({n}):", "    extra: int")
                self.public.append(n2)
        elif k < 0.85:
            self.emit(f"{n} = {self.T('TypedDict')}('{n}', {{'a': int, 'b': str | None}})")
        else:
            self.emit(f"{n} = {self.T('TypedDict')}('{n}', {{'a-b': int, 'class': str}}, total=False)")
        self.public.append(n)

    def f_overload(self) -> None:
        r = self.rng
        n = self.fresh("over")
        ov = self.T("overload")
        if r.random() < 0.6:
            self.emit(f"@{ov}", f"def {n}(x: int) -> int: ...", f"@{ov}", f"def {n}(x: str, y: int = ...) -> str: ...")
            if r.random() < 0.4:
                self.emit(f"@{ov}", f"def {n}(x: bytes, y: int = ..., *, flag: bool) -> bytes: ...")
                self.emit(f"def {n}(x, y=0, *, flag=False):", "    return x")
            else:
                self.emit(f"def {n}(x, y=0):", "    return x")
            self.public.append(n)
        else:
            c = self.fresh("Over")
            self.emit(f"class {c}:", f"    @{ov}", f"    def {n}(self, x: int) -> int: ...", f"    @{ov}",
                      f"    def {n}(self, x: str) -> str: ...", f"    def {n}(self, x):", "        return x")
            self.public.append(c)
            self.classes.append(c)

    def f_pep695(self) -> None:
        r = self.rng
        k = r.choice(["func", "bound", "constr", "class", "alias", "galias", "tvt", "pspec"])
        n = self.fresh("g695_")
        if k == "func":
            self.emit(f"def {n}[T](x: T, y: list[T]) -> T:", "    return x")
        elif k == "bound":
            self.emit(f"def {n}[T: int](x: T) -> T:", "    return x")
        elif k == "constr":
            self.emit(f"def {n}[T: (int, str)](x: T) -> T:", "    return x")
        elif k == "class":
            n = self.fresh("Stack")
            self.emit(f"class {n}[T]:", "    def __init__(self) -> None:", "        self.items: list[T] = []",
                      "    def push(self, item: T) -> None:", "        self.items.append(item)",
                      "    def pop(self) -> T:", "        return self.items.pop()")
        elif k == "alias":
            n = self.fresh("Alias695_")
            self.emit(f"type {n} = list[int] | None")
        elif k == "galias":
            n = self.fresh("Pair695_")
            self.emit(f"type {n}[T] = tuple[T, T]")
        elif k == "tvt":
            self.emit(f"def {n}[*Ts](*args: *Ts) -> tuple[*Ts]:", "    return args")
        elif k == "pspec":
            self.emit(f"def {n}[**P, R](f: {self.T('Callable')}[P, R]) -> {self.T('Callable')}[P, R]:", "    return f")
        self.public.append(n)

    def f_alias(self) -> None:
        r = self.rng
        k = r.choice(["simple", "union", "explicit", "newtype", "funcalias", "clsalias", "pspec", "callable"])
        n = self.fresh("Alias")
        if k == "simple":
            self.emit(f"{n} = {r.choice(['list[int]', 'dict[str, int]', 'tuple[int, ...]'])}")
        elif k == "union":
            self.emit(f"{n} = int | None" if r.random() < 0.5 else f"{n} = {self.T('Union')}[int, str]")
        elif k == "explicit" and self.style != "from":     # qualified typing.TypeAlias is a known class (witness typealias_qualified)
            self.emit(f"{n} = dict[str, int]")
        elif k == "explicit":
            self.emit(f"{n}: {self.T('TypeAlias')} = {r.choice(['dict[str, int]', 'list[int] | None'])}")
        elif k == "newtype":
            self.emit(f"{n} = {self.T('NewType')}('{n}', int)")
        elif k == "funcalias":
            f = self.fresh("func")
            self.func(f)
            self.public.append(f)
            self.emit(f"{n} = {f}")
        elif k == "clsalias":
            if not self.classes:
                self.f_class()
            self.emit(f"{n} = {self.rng.choice(self.classes)}")
        elif k == "pspec":
            self.emit(f"{n} = {self.T('ParamSpec')}('{n}')")
        elif k == "callable":
            self.emit(f"{n} = {self.T('Callable')}[[int], str]")
        self.public.append(n)

    def f_conditional(self) -> None:
        r = self.rng
        k = r.choice(["version", "flag", "typechecking", "try", "nested", "platform"])
        n = self.fresh("cond")
        if k == "version":
            self.extra_imports.append("import sys")
            self.emit("if sys.version_info >= (3, 9):", f"    def {n}(x: int) -> int:", "        return x", "else:",
                      f"    def {n}(x: str) -> str:", "        return x")
        elif k == "platform":
            self.extra_imports.append("import sys")
            self.emit("if sys.platform == 'linux':", f"    def {n}(x: int) -> int:", "        return x", "else:",
                      f"    def {n}(x: int) -> int:", "        return -x")
        elif k == "flag":
            fl = self.fresh("FLAG")
            self.emit(f"{fl} = True", f"if {fl}:", f"    def {n}(x: int, y: str = 'a') -> int:", "        return x", "else:",
                      f"    def {n}(x: int, y: str = 'b') -> int:", "        return -x")
            self.public.append(fl)
        elif k == "typechecking":
            self.emit(f"if {self.T('TYPE_CHECKING')}:", "    from decimal import Decimal",
                      f"def {n}(x: 'Decimal') -> 'Decimal':", "    return x")
        elif k == "try":
            self.emit("try:", "    import json as _json_mod", "except ImportError:", "    pass",
                      f"def {n}(x: int) -> int:", "    return x")
        elif k == "nested":
            self.emit(f"def {n}(x: int):", "    def inner(y: int) -> int:", "        return x + y", "    class Local:",
                      "        pass", "    return inner")
        self.public.append(n)

    def f_relative(self) -> None:
        r = self.rng
        rb = self.relbase
        k = r.choice(["from", "module", "alias", "base", "helper"] if self.profile == "full" else ["from", "base"])
        n = self.fresh("rel")
        if k == "from":
            self.extra_imports.append(f"from {rb}base import Base")
            self.emit(f"def {n}(b: Base) -> Base:", "    return b")
        elif k == "module":
            self.extra_imports.append(f"from {rb if rb != '.' else '.'} import base")
            self.emit(f"def {n}(b: base.Base, m: base.Mixin | None = None) -> base.Base:", "    return b")
        elif k == "alias":
            self.extra_imports.append(f"from {rb}base import Base as Root")
            self.emit(f"def {n}(b: Root) -> list[Root]:", "    return [b]")
        elif k == "base":
            self.extra_imports.append(f"from {rb}base import Base, Mixin")
            n = self.fresh("Derived")
            self.emit(f"class {n}(Base, Mixin):", "    def extra(self) -> int:", "        return 1")
            self.classes.append(n)
        elif k == "helper":
            self.extra_imports.append(f"from {rb}base import helper, BaseAlias")
            self.emit(f"def {n}(x: BaseAlias) -> int:", "    return helper(0)")
        self.public.append(n)

    def f_rebind(self) -> None:
        """An imported name that is also assigned at module level (optional-dependency fallbacks, wrapped re-binding)."""
        r = self.rng
        rb = self.relbase
        avail = [k for k in ("fallback_from", "fallback_module", "none_after_import", "wrapped", "wrapped_all")
                 if k not in self.rebound]
        if not avail:
            return self.f_functions()
        k = r.choice(avail)
        self.rebound.add(k)
        n = self.fresh("reb")
        if k == "fallback_from":
            self.emit("try:", f"    from {rb}base import helper", "except ImportError:",
                      "    helper = None  # type: ignore[assignment]",
                      f"def {n}(x: int) -> int:", "    return helper(x) if helper is not None else x")
        elif k == "fallback_module":
            self.emit("try:", "    import json", "except ImportError:", "    json = None  # type: ignore[assignment]",
                      f"def {n}(x: int) -> json.JSONDecoder | None:", "    return None")
        elif k == "none_after_import":
            fl = self.fresh("DISABLE")
            self.emit("import decimal", f"{fl} = False", f"if {fl}:", "    decimal = None  # type: ignore[assignment]",
                      f"def {n}(x: decimal.Decimal, y: int = 0) -> decimal.Decimal:", "    return x")
            self.public.append(fl)
        elif k == "wrapped":
            w = self.fresh("_wrap")
            tv = self.fresh("_W")
            self.emit(f"{tv} = {self.T('TypeVar')}('{tv}')", f"def {w}(f: {tv}) -> {tv}:", "    return f",
                      f"from {rb}base import helper2", f"helper2 = {w}(helper2)",
                      f"def {n}(x: int) -> int:", "    return helper2(x)")
        else:
            w = self.fresh("_wrap")
            tv = self.fresh("_W")
            self.emit(f"{tv} = {self.T('TypeVar')}('{tv}')", f"def {w}(f: {tv}) -> {tv}:", "    return f",
                      "from os.path import basename", f"basename = {w}(basename)",
                      f"def {n}(p: str) -> str:", "    return basename(p)")
            self.public.append("basename")
            self.force_all = True
        self.public.append(n)

    def f_aliased(self) -> None:
        """Aliased imports whose alias is public: in __all__, used in annotations, or both."""
        r = self.rng
        rb = self.relbase
        k = r.choice(["from_all", "from_all", "module_all", "import_as", "import_as_all", "from_ann"])
        n = self.fresh("ali")
        if k == "from_all":
            a = self.fresh("Root")
            self.emit(f"from {rb}base import Base as {a}", f"def {n}(b: {a}) -> {a}:", "    return b")
            self.public.append(a)
            self.force_all = True
        elif k == "module_all":
            a = self.fresh("backend")
            self.emit(f"from {rb} import base as {a}", f"def {n}(b: {a}.Base, k: int = 0) -> {a}.Base:", "    return b")
            self.public.append(a)
            self.force_all = True
        elif k == "import_as":
            a = self.fresh("cabc")
            self.emit(f"import collections.abc as {a}", f"def {n}(xs: {a}.Sequence[int]) -> {a}.Iterator[int]:", "    return iter(xs)")
        elif k == "import_as_all":
            a = self.fresh("osp")
            self.emit(f"import os.path as {a}", f"def {n}(p: str) -> str:", f"    return {a}.basename(p)")
            self.public.append(a)
            self.force_all = True
        else:
            a = self.fresh("Mix")
            self.emit(f"from {rb}base import Mixin as {a}", f"def {n}(m: {a} | None = None) -> list[{a}]:", "    return []")
        self.public.append(n)

    def f_decorated(self) -> None:
        d = self.fresh("deco")
        f = self.fresh("decorated")
        tv = self.fresh("F")
        self.emit(f"{tv} = {self.T('TypeVar')}('{tv}', bound={self.T('Callable')}[..., {self.T('Any')}])",
                  f"def {d}(f: {tv}) -> {tv}:", "    return f", f"@{d}", f"def {f}(x: int, y: str = 'a') -> str:", "    return y")
        self.public += [tv, d, f]

    FEATURES = ["functions", "functions", "variables", "class", "class", "generic_func", "dataclass", "enum",
                "namedtuple", "typeddict", "overload", "pep695", "alias", "conditional", "relative", "decorated", "rebind"]

    INSPECT_FEATURES = ["functions", "functions", "variables", "class", "class", "relative"]

    def build(self) -> str:
        r = self.rng
        k = r.randint(3, 7)
        pool = self.features_override or (self.FEATURES if self.profile == "full" else self.INSPECT_FEATURES)
        feats = [r.choice(pool) for _ in range(k)]
        feats = [f for f in feats if f not in self.avoid]
        for f in feats:
            getattr(self, "f_" + f)()
            self.features.append(f)
        head: list[str] = []
        if r.random() < 0.3:
            head.append(f'"""Module {self.modname}."""')
        if self.future:
            head.append("from __future__ import annotations")
        imports: list[str] = []
        if self.style == "qual":
            imports.append("import typing")
            if "collections.abc." in "\n".join(self.body):
                imports.append("import collections.abc")
        elif self.style == "alias":
            imports.append("import typing as t")
            if "cabc." in "\n".join(self.body):
                imports.append("import collections.abc as cabc")
        else:
            if self.typing_names:
                imports.append("from typing import " + ", ".join(sorted(self.typing_names)))
            if self.cabc_names:
                imports.append("from collections.abc import " + ", ".join(sorted(self.cabc_names)))
        for e in self.extra_imports:
            if e not in imports:
                imports.append(e)
        r.shuffle(imports)
        allstmt: list[str] = []
        self.all: list[str] | None = None
        if "dunder_all" not in self.avoid and self.public and (r.random() < 0.4 or self.force_all):
            pub = [p for p in self.public if p not in self.leaf or r.random() < 0.6] or self.public[:1]
            self.all = pub
            allstmt = ["__all__ = " + repr(pub)]
        if r.random() < 0.5:
            return "\n".join(head + imports + allstmt + self.body) + "\n"
        return "\n".join(head + imports + self.body + allstmt) + "\n"


BASE_PY = '''"""Shared definitions imported relatively by the sibling modules."""
from typing import TypeVar

T = TypeVar("T")
BaseAlias = dict[str, int]


class Base:
    level: int = 0

    def describe(self, prefix: str = "") -> str:
        return prefix


class Mixin:
    def mix(self) -> None:
        pass


def helper(x: int, /, *, scale: float = 1.0) -> int:
    return x


def helper2(x: int) -> int:
    return x
'''


BASE_INSPECT_PY = '''"""Shared definitions imported relatively by the sibling modules."""


class Base:
    def describe(self, prefix: str = "") -> str:
        return prefix


class Mixin:
    def mix(self) -> None:
        pass


def helper(x: int, *, scale: float = 1.0) -> int:
    return x


def helper2(x: int) -> int:
    return x
'''


ALIAS_FEATURES = ["aliased", "aliased", "aliased", "relative", "rebind", "functions", "class"]
ALIAS_INITS = ["from .base import Base as Root\nfrom . import base as backend\n__all__ = ['Root', 'backend']\n",
               "from .base import helper as assist, Base\n__all__ = ['assist', 'Base']\n",
               "from .base import Base as Root\n"]


def gen_package(rng: random.Random, pkg: str, nmods: int, avoid: frozenset[str] = frozenset(),
                profile: str = "full", features: list[str] | None = None,
                inits: list[str] | None = None) -> tuple[dict[str, str], dict[str, dict]]:
    """files: relative path -> source; meta: dotted module name -> {features, all}."""
    files: dict[str, str] = {}
    meta: dict[str, dict] = {}
    init = rng.choice(inits or ["", "from .base import Base as Base\n", "from . import base\n",
                                "from .base import Base, helper\n__all__ = ['Base', 'helper']\n"])
    files[f"{pkg}/__init__.py"] = init
    files[f"{pkg}/base.py"] = BASE_PY if profile == "full" else BASE_INSPECT_PY
    files[f"{pkg}/sub/__init__.py"] = ""
    meta[pkg] = {"features": ["init"], "all": None}
    meta[f"{pkg}.base"] = {"features": ["base"], "all": None}
    meta[f"{pkg}.sub"] = {"features": ["init"], "all": None}
    for i in range(nmods):
        deep = i == nmods - 1 and nmods > 1
        name = f"{pkg}.sub.deep" if deep else f"{pkg}.m{i}"
        m = Mod(rng, name, ".." if deep else ".", avoid, future=rng.random() < 0.35, profile=profile, features=features)
        src = m.build()
        files[name.replace(".", "/") + ".py"] = src
        meta[name] = {"features": m.features, "all": m.all, "future": m.future, "style": m.style}
    return files, meta
