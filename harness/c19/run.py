"""C19 — generated stubs are valid, self-consistent and faithful.

1. Lean: Props/C19 — (a) sig_roundtrip_partial / sig_valid_partial (+ not_sig_roundtrip, not_sig_valid),
   (b) default_is_valid_expr_partial / default_closed_partial (+ refutations), (c) imports_closed /
   imports_closed_request.  Proof covers these three decision cores only.
   (d) annotation_preserved (an explicit return annotation wins over the conventional type of a special method).
2. Tie (harness/c19/tie.py): the models vs. ASTStubGenerator / ImportTracker / CPython's grammar on generated inputs.
3. Search on the real tools (harness/c19/search.py) — *testing*, labelled as such: generated packages →
   stubgen in parse-only / semantic / inspect mode → ast.parse, mypy on the stub alone, stubtest, structural
   comparison with the source AST.
"""
from __future__ import annotations

import json
import os

from harness.vlib.core import Ctx, ToolFailure
from harness.c19 import tie

MODEL_FILES = ["MypyVerif/Model/StubRet.lean", "MypyVerif/Model/StubDefault.lean", "MypyVerif/Model/StubSig.lean", "MypyVerif/Model/StubImports.lean",
               "MypyVerif/Proofs/StubDefault.lean", "MypyVerif/Proofs/StubSig.lean", "MypyVerif/Proofs/StubImports.lean"]


def main(ctx: Ctx) -> None:
    ctx.level = "proof"
    ctx.coverage["rule"] = (
        "tie: one case = one generated def / item sequence / initializer / ImportTracker operation sequence, distinct by "
        "content, non-trivial when it has ≥ 2 parameters / items / nodes / ≥ 3 operations.  search: one case = one "
        "(generated module, stubgen mode) pair, non-trivial when the module has ≥ 3 features.")
    from translate import c19cfg
    c19cfg.main()       # Gen/StubCfg.lean: which rule the checked tree implements at the four decision points
    if c19cfg.NOTE:
        ctx.broken_ties.append(c19cfg.NOTE)
    ctx.coverage["checked_tree_rules"] = c19cfg.facts()
    proved = ctx.prove("MypyVerif.Props.C19", MODEL_FILES)
    ctx.trusted(
        "models: _get_func_args + format_sig (per-argument part), get_str_default_of_node, get_str_type_of_node, "
        "ImportTracker, BaseStubGenerator.add_name; the annotation printer is opaque (annotations are strings)",
        "Python's parameter grammar is a hand-written parser model, validated against CPython's ast.parse on every "
        "item sequence up to length 5/6 and random longer ones",
        "correspondence harness harness/c19/tie.py",
        "translator translate/c19cfg.py (four observed facts: `/`-prefix rule, spacing of `not`, non-finite floats, "
        "bytes delimiter) — the tie re-checks the selected rules on every generated case",
        "PARTIAL BY DESIGN: validity and faithfulness of whole stubs (class bodies, decorators, aliases, __all__, "
        "inspect mode, mypy/stubtest verdicts) are NOT proved; they are searched with the real tools — testing")
    ctx.coverage["covered_by_theorem"] = [
        "signature emission: names, kinds, has-default flags survive; `/` and `*` placement; grammar shape",
        "default rendering: emitted default is an expression / a closed literal (under stated hypotheses)",
        "import bookkeeping: every required imported name is bound by the emitted import lines",
        "return type decision: a spelled-out return annotation is the stub's (annotation_preserved)"]
    ctx.coverage["searched_only"] = [
        "stub parses (whole file)", "mypy on the stub alone", "stubtest on (module, stub)",
        "public names and spelled-out annotations vs the source AST",
        "resolved types of every annotated definition, source vs stub, both built by mypy (harness/c19/typecmp.py)",
        "inspect mode"]
    ctx.assume(
        "search inputs: generated packages that import without side effects under the host CPython (3.12) and "
        "type-check under mypy's default options; anything else is excluded and counted (search_excluded_inputs)",
        "tie A does not generate `__exit__` (infer_method_arg_types replaces its whole argument list — not modelled)",
        "parse-only mode is not evaluated on modules with enums / NamedTuples, inspect mode only on the restricted "
        "profile of gen.py (plain functions, classes, methods, simple annotations) plus the witnesses: the rest of "
        "these two modes is recorded as known findings, one explicit witness each (harness/c19/witnesses.py)")
    tie.tie_grammar(ctx)
    tie.tie_signatures(ctx)
    tie.tie_defaults(ctx)
    tie.tie_imports(ctx)
    tie.tie_returns(ctx)
    if os.environ.get("C19_SKIP_SEARCH") != "1":
        from harness.c19 import search
        search.run(ctx)
    if c19cfg.NOTE and not ctx.violations:
        ctx.violation(c19cfg.NOTE, {"broken": "translate/c19cfg.py probes"}, found_input=False)
    if not proved and not ctx.violations:
        ctx.violation("Lean development for C19 no longer builds", {"broken": ctx.broken_ties}, found_input=False)


def replay(ctx: Ctx, path: str) -> int:
    body = json.load(open(path))
    rep = body.get("replay", {})
    det = rep.get("detail", rep)
    print(json.dumps({"what": body.get("what"), "observed": rep.get("observed")}, indent=1))
    part = det.get("part")
    if part == "D":
        src = "\n".join(det.get("source") or ["import abc", "from typing import Any", "class Mask: pass", "class Vec: pass",
                         "class R:", "    def %s(self, a)%s:" % (det["case"]["name"], " -> " + det["case"]["ret"] if det["case"].get("ret") else "")]
                         + ["        " + b for b in det.get("body", ["pass"])]) + "\n"
        print(src)
        print("---- stub emitted now:")
        print(tie.real_stub(src))
    elif part == "A" or "real_def_line" in det:
        src = "\n".join(["from typing import Callable", "import mod", "class Foo: pass"] + det["source"]) + "\n"
        out = tie.real_stub(src)
        print(src)
        print("---- stub emitted now:")
        print(out)
        for l in out.splitlines():
            if l.lstrip().startswith(("def ", "async def ")):
                print("CPython reads:", tie.py_parse_sig(l))
    elif part == "B" or "source_default" in det:
        out = tie.real_stub(f"def f(x={det['source_default']}): pass\n")
        print(out)
    elif part == "C" or "ops" in det:
        t, refs = tie.real_tracker([tuple(o) for o in det["ops"]])
        print("".join(t.import_lines()), "required:", sorted(t.required_names), "refs:", refs)
    elif "files" in det:
        from harness.c19 import search
        return search.replay(ctx, det)
    return 0
