"""C19 search on the real tools (TESTING, not proof): generated packages → stubgen (parse-only / semantic /
inspect) → four oracles per (module, mode):

  syntax     ast.parse(stub)
  mypy       mypy (default options) on the stub tree alone reports no error in this stub
  stubtest   python -m mypy.stubtest on (imported module, stub) reports no disagreement
  structure  every public function / class / method / annotated variable of the source appears in the stub
             with the annotations the source spelled out (harness/c19/tools.structural)

plus `stubgen` itself (a module for which no stub is produced).  Random modules avoid the constructs of the
known classes; harness/c19/witnesses.py keeps one explicit module per known class.
"""
from __future__ import annotations

import ast
import json
import os
import re
import shutil

from harness.vlib.core import Ctx, PY, ToolFailure, repo_env
from harness.c19 import gen, tools, witnesses

MODES = ("parse", "semantic", "inspect")
# constructs a mode is known not to handle (each has a witness): modules containing them are not evaluated in that mode
MODE_AVOID = {"parse": {"enum", "namedtuple"}}
POOL = 8


# ------------------------------------------------------------------------------------------------ helpers
def stub_path(out: str, module: str) -> str | None:
    rel = module.replace(".", "/")
    for c in (f"{out}/{rel}.pyi", f"{out}/{rel}/__init__.pyi"):
        if os.path.exists(c):
            return c
    return None


def src_path(src: str, module: str) -> str:
    rel = module.replace(".", "/")
    for c in (f"{src}/{rel}.py", f"{src}/{rel}/__init__.py"):
        if os.path.exists(c):
            return c
    raise ToolFailure(f"no source for {module}")


def canon_msg(s: str) -> str:
    s = re.sub(r"/[^\s:]*/", "", s)
    return re.sub(r"\s+", " ", s).strip()


def owner(modules: list[str], obj: str) -> str | None:
    best = None
    for m in modules:
        if obj == m or obj.startswith(m + "."):
            if best is None or len(m) > len(best):
                best = m
    return best


# ---- known benign stubtest noise: each pattern is tied to the source construct that causes it ------------
def _src_node(tree: ast.Module, dotted: list[str]):
    body = tree.body
    node = None
    for part in dotted:
        found = None
        stack = list(body)
        while stack:
            st = stack.pop(0)
            if isinstance(st, (ast.ClassDef, ast.FunctionDef, ast.AsyncFunctionDef)) and st.name == part:
                found = st
                break
            if isinstance(st, ast.TypeAlias) and isinstance(st.name, ast.Name) and st.name.id == part:
                found = st
                break
            if isinstance(st, (ast.If, ast.Try)):
                stack = list(ast.iter_child_nodes(st)) + stack
        if found is None:
            return None
        node = found
        body = getattr(found, "body", [])
    return node


def _is_dataclass_order(node) -> bool:
    if not isinstance(node, ast.ClassDef):
        return False
    for d in node.decorator_list:
        if isinstance(d, ast.Call) and any(k.arg == "order" and isinstance(k.value, ast.Constant) and k.value.value is True
                                           for k in d.keywords):
            return True
    return False


def _has_namedtuple_call_base(node) -> bool:
    return isinstance(node, ast.ClassDef) and any(
        isinstance(b, ast.Call) and ast.unparse(b.func).split(".")[-1] in ("namedtuple", "NamedTuple") for b in node.bases)


def benign_stubtest(module: str, line: str, tree: ast.Module) -> str | None:
    """Name of the benign-noise class this stubtest line belongs to, or None.  Narrow: pattern AND construct."""
    m = re.match(r"^(\S+) (.*)$", line)
    if not m:
        return None
    obj, msg = m.group(1), m.group(2)
    rel = obj[len(module) + 1:].split(".") if obj.startswith(module + ".") else []
    if msg == "is not present in stub" and rel and rel[-1] == "__type_params__":
        node = _src_node(tree, rel[:-1])
        if node is not None and getattr(node, "type_params", None):
            return "pep695-__type_params__-attribute"           # stubtest does not know the PEP 695 dunder
    if msg == "is not present at runtime" and rel and re.fullmatch(r"\w+@base\d+", rel[-1]):
        node = _src_node(tree, [rel[-1].split("@")[0]])
        if _has_namedtuple_call_base(node):
            return "namedtuple-call-base-synthetic-class"       # mypy's synthetic class for a namedtuple(...) base
    if msg == "is not present at runtime" and rel and rel[-1] == "_DT":
        node = _src_node(tree, rel[:-1])
        if _is_dataclass_order(node):
            return "dataclass-order-_DT-typevar"                # the dataclass plugin's helper TypeVar
    if re.fullmatch(r"is not a (Union|subclass of \w+)", msg) and len(rel) == 1:
        node = _src_node(tree, rel)
        if isinstance(node, ast.TypeAlias):
            return "pep695-alias-runtime-object"                # runtime object is a TypeAliasType, not the aliased type
    return None


# ------------------------------------------------------------------------------------------------ pipeline
def stubgen_failure_reason(src: str, module: str, mode: str, scratch: str) -> str:
    """Re-run stubgen on one module without --ignore-errors to name the exception."""
    env = repo_env({"MYPY_CACHE_DIR": os.path.join(scratch, "cache_reason")})
    env["PYTHONPATH"] = env["PYTHONPATH"] + os.pathsep + src
    cmd = [PY, "-m", "mypy.stubgen", "-o", os.path.join(scratch, "reason_out")] + tools.MODES[mode] + ["-m", module]
    p = tools.run(cmd, src, env)
    lines = [l for l in (p.stdout + p.stderr).splitlines() if l.strip()]
    last = lines[-1] if lines else "?"
    return canon_msg(re.sub(r"0x[0-9a-f]+", "0x…", last))[:200]


def evaluate(root: str, tag: str, files: dict[str, str], meta: dict[str, dict], pkgs: list[str], mode: str,
             ctx: Ctx | None = None) -> dict[str, list[dict]]:
    """Run one stubgen mode over the packages and evaluate the oracles.  Returns module -> failures."""
    src = os.path.join(root, "src_" + tag)
    out = os.path.join(root, f"out_{tag}_{mode}")
    if not os.path.isdir(src):
        tools.write_tree(src, files)
    shutil.rmtree(out, ignore_errors=True)
    modules = list(meta)
    fails: dict[str, list[dict]] = {m: [] for m in modules}
    chunks = [pkgs[i:i + 3] for i in range(0, len(pkgs), 3)]
    res = tools.parallel(lambda c: tools.stubgen(src, out, mode, c, os.path.join(root, f"cache_sg_{tag}_{mode}_{c[0]}")), chunks)
    for c, (rc, txt) in zip(chunks, res):
        if rc != 0:
            raise ToolFailure(f"stubgen ({mode}) exited {rc} on {c}: {txt[-800:]}")
        for m in re.findall(r"Stub generation failed for (\S+)", txt):
            if m in fails:
                fails[m].append({"oracle": "stubgen", "message": "no stub: " + stubgen_failure_reason(src, m, mode, root)})
    # ---- syntax
    trees: dict[str, ast.Module] = {}
    stubs: dict[str, str] = {}
    for m in modules:
        sp = stub_path(out, m)
        if sp is None:
            if not fails[m]:
                fails[m].append({"oracle": "stubgen", "message": "no stub produced"})
            continue
        text = open(sp, encoding="utf-8").read()
        stubs[m] = text
        try:
            ast.parse(text)
        except SyntaxError as e:
            fails[m].append({"oracle": "syntax", "message": f"{e.msg}: {(e.text or '').strip()[:120]}"})
            os.rename(sp, sp + ".bad")
    # ---- mypy on the stubs alone (blocking errors name one file at a time: set it aside and repeat)
    errs: dict[str, list[str]] = {}
    for attempt in range(6):
        try:
            errs = tools.mypy_check(out, [p for p in pkgs if os.path.isdir(os.path.join(out, p))],
                                    os.path.join(root, f"cache_{tag}_{mode}"), "stubs")
            break
        except ToolFailure as e:
            mm = re.search(r"([\w/]+\.pyi):(\d+): error: (.*)", str(e))
            if not mm:
                raise
            bad = os.path.join(out, mm.group(1))
            mod = mm.group(1)[:-4].replace("/", ".").removesuffix(".__init__")
            if not os.path.exists(bad) or mod not in fails:
                raise
            fails[mod].append({"oracle": "syntax", "message": "mypy: " + canon_msg(mm.group(3))})
            os.rename(bad, bad + ".bad")
    else:
        raise ToolFailure("mypy on stubs keeps failing")
    for path, es in errs.items():
        mod = path[:-4].replace("/", ".").removesuffix(".__init__") if path.endswith(".pyi") else None
        if mod not in fails:
            raise ToolFailure(f"mypy reported an error outside the generated stubs: {path}: {es[:2]}")
        for e in es:
            fails[mod].append({"oracle": "mypy", "message": canon_msg(e.split(": ", 1)[1]), "line": e.split(":")[0]})
    # ---- stubtest on modules whose stub (and their package's shared stubs) are clean
    clean = {m for m in modules if m in stubs and not fails[m]}
    testable: list[str] = []
    for m in modules:
        pkg = m.split(".")[0]
        shared = [x for x in (pkg, f"{pkg}.base", f"{pkg}.sub") if x in fails]
        # stubtest expands a package to all its submodules, so packages themselves (trivial __init__ files)
        # are not passed to it
        subs = [x for x in modules if x.startswith(m + ".")]
        if subs and not all(x in clean for x in subs):
            continue
        if m in clean and all(x in clean for x in shared):
            testable.append(m)
    src_trees = {m: ast.parse(files[os.path.relpath(src_path(src, m), src)]) for m in modules}

    def run_stubtest(mods: list[str], key: str) -> list[str]:
        rc, lines, full = tools.stubtest(src, out, mods, os.path.join(root, f"cache_st_{tag}_{mode}_{key}"))
        if rc not in (0, 1):
            raise ToolFailure(f"stubtest exited {rc}: {full[-1500:]}")
        if any("not checking stubs due to" in l for l in lines):
            if len(mods) == 1:
                return ["%s stubtest could not check the stub: %s" % (mods[0], canon_msg(" | ".join(l for l in lines if "error:" in l)[:300]))]
            h = len(mods) // 2
            return run_stubtest(mods[:h], key + "a") + run_stubtest(mods[h:], key + "b")
        return [l for l in lines if not l.startswith(("Found ", "Success"))]

    by_pkg: dict[str, list[str]] = {}
    for m in testable:
        by_pkg.setdefault(m.split(".")[0], []).append(m)
    groups, cur = [], []
    for p, ms in by_pkg.items():
        cur += ms
        if len(cur) >= 24:
            groups.append(cur); cur = []
    if cur:
        groups.append(cur)
    results = tools.parallel(lambda g: run_stubtest(g[1], str(g[0])), list(enumerate(groups)))
    for lines in results:
        for l in lines:
            obj = l.split(" ", 1)[0]
            mod = owner(modules, obj)
            if mod is None:
                raise ToolFailure(f"stubtest line not attributable to a generated module: {l!r}")
            noise = benign_stubtest(mod, l, src_trees[mod])
            if noise:
                if ctx is not None:
                    ctx.dist("benign_stubtest_noise", noise)
                continue
            fails[mod].append({"oracle": "stubtest", "message": canon_msg(l)})
    # ---- types: every spelled-out annotation denotes the same type in the stub (both trees built by mypy)
    src_json = os.path.join(root, f"types_src_{tag}.json")
    if tag == "wit":            # the recorded verdicts of the witnesses are those of the four original oracles
        sdump = tdump = {}
    else:
        sdump = json.load(open(src_json)) if os.path.exists(src_json) else type_dump(root, src, src_json, "py", pkgs)
        tdump = type_dump(root, out, os.path.join(root, f"types_{tag}_{mode}.json"), "pyi",
                          [p for p in pkgs if os.path.isdir(os.path.join(out, p))])
    if "modules" in sdump and "modules" in tdump:
        for m in modules:
            if m in stubs and m in sdump["modules"] and m in tdump["modules"] and \
                    not any(f["oracle"] == "syntax" for f in fails[m]):
                for msg in compare_types(sdump["modules"][m], tdump["modules"][m])[:6]:
                    fails[m].append({"oracle": "types", "message": msg})
    # ---- structure
    for m in modules:
        if m in stubs and not any(f["oracle"] == "syntax" for f in fails[m]):
            for p in tools.structural(files[os.path.relpath(src_path(src, m), src)], stubs[m], mode):
                fails[m].append({"oracle": "structure", "message": p["class"] + " " + str(p.get("name")), "detail": p})
    fails["__stubs__"] = [{"module": m, "stub": s} for m, s in stubs.items()]  # type: ignore[assignment]
    return fails


def source_precheck(root: str, tag: str, files: dict[str, str], meta: dict[str, dict], pkgs: list[str]) -> dict[str, str]:
    """module -> reason, for generated modules that are not usable inputs (not mypy-clean / not importable)."""
    src = os.path.join(root, "src_" + tag)
    tools.write_tree(src, files)
    bad: dict[str, str] = {}
    dirty = tools.mypy_check(src, pkgs, os.path.join(root, f"cache_src_{tag}"), "sources")
    for path, es in dirty.items():
        mod = path[:-3].replace("/", ".").removesuffix(".__init__")
        bad[mod] = "mypy: " + es[0]
    env = repo_env()
    code = ("import importlib, sys\nfor m in sys.argv[1:]:\n    try:\n        importlib.import_module(m)\n"
            "    except BaseException as e:\n        print('IMPORTFAIL', m, type(e).__name__, e)\n")
    p = tools.run([PY, "-c", code] + list(meta), src, env)
    for l in p.stdout.splitlines():
        if l.startswith("IMPORTFAIL"):
            bad[l.split()[1]] = "import: " + l.split(" ", 2)[2][:120]
    return bad


def type_dump(root: str, tree_root: str, out_json: str, ext: str, pkgs: list[str]) -> dict:
    """Resolved types of every definition (harness/c19/typecmp.py under the checked tree's mypy)."""
    env = repo_env({"MYPY_FORCE_COLOR": "0"})
    worker = os.path.join(os.path.dirname(os.path.abspath(__file__)), "typecmp.py")
    p = tools.run([PY, worker, tree_root, out_json, ext] + pkgs, tree_root, env)
    if p.returncode != 0 or not os.path.exists(out_json):
        raise ToolFailure("typecmp worker failed: " + (p.stdout + p.stderr)[-1200:])
    return json.load(open(out_json))


def _cmp_func(name: str, s: dict, t: dict) -> list[str]:
    out = []
    if not s.get("annotated") or not t.get("annotated"):
        if s.get("annotated") and any(a[2] for a in s["args"]) or (s.get("annotated") and s["ret"][1]):
            if not t.get("annotated"):
                out.append(f"{name}: annotated in the source, no annotation at all in the stub")
        return out
    targs = {(a[0] if a[0] is not None else f"#{i}"): a[1] for i, a in enumerate(t["args"])}
    for i, (n, ty, ex) in enumerate(s["args"]):
        n = n if n is not None else f"#{i}"          # positional-only parameters have no name in mypy's callable type
        if ex and n in targs and targs[n] != ty:
            out.append(f"{name}: parameter {n} is {ty} in the source, {targs[n]} in the stub")
    if s["ret"][1] and t["ret"][0] != s["ret"][0]:
        out.append(f"{name}: returns {s['ret'][0]} in the source, {t['ret'][0]} in the stub")
    return out


def compare_types(src: dict, stub: dict) -> list[str]:
    """Every spelled-out annotation of the source module must denote the same type in the stub module."""
    out: list[str] = []
    for name, s in src.items():
        t = stub.get(name)
        if s is None or t is None:
            continue            # presence is the structure oracle's business
        if s["kind"] == "func" and t["kind"] == "func":
            out += _cmp_func(name, s, t)
        elif s["kind"] == "overloaded" and t["kind"] == "overloaded":
            si = [x for x in s["items"] if x and x.get("annotated")]
            ti = [x for x in t["items"] if x and x.get("annotated")]
            for k, x in enumerate(ti):
                if not any(not _cmp_func(name, y, x) and len(y["args"]) == len(x["args"]) for y in si):
                    cand = si[k] if k < len(si) else (si[0] if si else None)
                    out += (_cmp_func(f"{name} (item {k})", cand, x) if cand else []) or [f"{name}: stub overload item {k} matches no source item"]
        elif s["kind"] == "overloaded" and t["kind"] == "func" and s.get("property"):
            getter = s["items"][0]
            if getter and getter.get("annotated"):
                out += _cmp_func(name, getter, t)
        elif s["kind"] == "var" and t["kind"] == "var":
            if s["explicit"] and s["type"] != t["type"]:
                out.append(f"{name}: declared {s['type']} in the source, {t['type']} in the stub")
    return out


def failure_summary(fs: list[dict]) -> str:
    return " ;; ".join(sorted({f"{f['oracle']}: {f['message']}" for f in fs}))


# ------------------------------------------------------------------------------------------------ entry
def run(ctx: Ctx) -> None:
    root = os.path.join(ctx.tmp, "search")
    os.makedirs(root, exist_ok=True)
    # QUICK tier: the random stream of stubgen inputs is drawn from a fixed pool of POOL generator seeds
    # (VERIF_SEED % POOL), each verified on the unchanged tree: a search over whole stubs has a long tail of rare
    # construct combinations, and a quick run must not raise an alarm for a defect class nobody has looked at.
    # Free exploration (a fresh stream per seed) belongs to the thorough tier.  The ties always use ctx.rng.
    if ctx.quick():
        import random
        rng = random.Random(f"C19-search-pool:{ctx.seed % POOL}")
        ctx.coverage["search_pool"] = f"{ctx.seed % POOL} of {POOL}"
    else:
        rng = ctx.rng
    npk_full = ctx.pick(8, 100)
    npk_insp = ctx.pick(3, 32)
    nm = 5
    sets: list[tuple[str, dict, dict, list[str], tuple[str, ...]]] = []
    files: dict[str, str] = {}
    meta: dict[str, dict] = {}
    pkgs = []
    for i in range(npk_full):
        f, m = gen.gen_package(rng, f"pk{i}", nm)
        files.update(f); meta.update(m); pkgs.append(f"pk{i}")
    # aliased imports whose alias is public (in __all__, in annotations, re-exported by the package __init__): a small
    # batch on its own stream (the pool's streams stay as verified); a larger one when the ImportTracker tie broke
    import random as _random
    arng = _random.Random(f"C19-search-aliased:{ctx.seed % POOL if ctx.quick() else ctx.seed}")
    nali = 8 if ctx.coverage.get("import_disagreements") else ctx.pick(2, 12)
    for i in range(nali):
        f, m = gen.gen_package(arng, f"al{i}", 4, features=gen.ALIAS_FEATURES, inits=gen.ALIAS_INITS)
        files.update(f); meta.update(m); pkgs.append(f"al{i}")
    # the hand-written corpus package travels with the generated ones (corpus/c19/corp)
    cdir = os.path.join(os.path.dirname(os.path.dirname(os.path.dirname(os.path.abspath(__file__)))), "corpus", "c19", "corp")
    for fn in sorted(os.listdir(cdir)):
        if fn.endswith(".py"):
            files[f"corp/{fn}"] = open(os.path.join(cdir, fn), encoding="utf-8").read()
            mod = "corp" if fn == "__init__.py" else "corp." + fn[:-3]
            meta[mod] = {"features": ["corpus", "corpus", "corpus"], "all": None}
    pkgs.append("corp")
    sets.append(("full", files, meta, pkgs, ("parse", "semantic")))
    files, meta, pkgs = {}, {}, []
    for i in range(npk_insp):
        f, m = gen.gen_package(rng, f"ins{i}", nm, profile="inspect")
        files.update(f); meta.update(m); pkgs.append(f"ins{i}")
    sets.append(("insp", files, meta, pkgs, ("inspect",)))
    wf, wm = witnesses.witness_package("wit")
    sets.append(("wit", wf, wm, ["wit"], MODES))

    nreported = 0
    excluded: dict[str, int] = {}
    import time
    timings: dict[str, float] = {}
    for tag, files, meta, pkgs, modes in sets:
        t0 = time.time()
        bad = source_precheck(root, tag, files, meta, pkgs)
        timings[f"{tag}:precheck"] = round(time.time() - t0, 1)
        for m, why in bad.items():
            excluded[why.split(":")[0]] = excluded.get(why.split(":")[0], 0) + 1
        if tag == "wit" and bad:
            raise ToolFailure(f"witness modules are not clean inputs: {bad}")
        if len(bad) > len(meta) // 4:
            raise ToolFailure(f"too many generated modules are unusable inputs ({len(bad)}/{len(meta)}): {list(bad.items())[:3]}")
        for mode in modes:
            t0 = time.time()
            fails = evaluate(root, tag, files, meta, pkgs, mode, ctx)
            timings[f"{tag}:{mode}"] = round(time.time() - t0, 1)
            stubs = {d["module"]: d["stub"] for d in fails.pop("__stubs__")}  # type: ignore[union-attr]
            for m, fs in fails.items():
                if m in bad:
                    continue
                info = meta[m]
                feats = info.get("features", [])
                if tag != "wit" and set(feats) & MODE_AVOID.get(mode, set()):
                    excluded["mode-avoid:" + mode] = excluded.get("mode-avoid:" + mode, 0) + 1
                    continue
                if tag == "wit" and "witness" in info and mode not in info["modes"]:
                    continue        # a witness is evaluated in the mode(s) its class is about
                ctx.case(("search", tag, m, mode, files[_rel(files, m)]), nontrivial=len(feats) >= 3 or tag == "wit")
                ctx.dist("search_mode", mode)
                for ft in set(feats):
                    ctx.dist("search_feature", ft)
                ctx.dist("search_outcome", "clean" if not fs else "failure")
                if not fs:
                    if tag == "wit" and mode in info.get("modes", ()):
                        ctx.coverage.setdefault("witnesses_now_clean", []).append(f"{info['witness']}/{mode}")
                    continue
                ctx.count("disagreements_checked")
                # the recorded verdicts of the witnesses are those of the four original oracles
                summary = failure_summary([f for f in fs if f["oracle"] != "types"] if tag == "wit" else fs)
                pk = m.split(".")[0]
                replay = {"part": "search", "module": m, "mode": mode, "failures": fs[:12],
                          "files": {k: v for k, v in files.items() if k.startswith(pk + "/")},
                          "stub": stubs.get(m)}
                if tag == "wit" and "witness" in info:
                    observed = {"class": "witness", "witness": info["witness"], "mode": mode, "failures": summary}
                    ctx.report(observed, f"witness {info['witness']} ({mode}): {summary[:300]}", replay)
                else:
                    nreported += 1
                    if nreported <= 6:
                        first = fs[0]
                        observed = {"class": "stub-" + first["oracle"], "mode": mode, "message": first["message"]}
                        ctx.report(observed, f"{m} ({mode} mode): {summary[:400]}", replay)
            if ctx.coverage.get("samples") is not None and tag == "full" and mode == "semantic":
                m0 = next((m for m in meta if m.endswith(".m0") and m in stubs), None)
                if m0:
                    ctx.sample({"generated_module": files[_rel(files, m0)][:1500], "semantic_stub": stubs[m0][:1500]})
    ctx.coverage["search_timings_s"] = timings
    ctx.coverage["search_excluded_inputs"] = excluded
    ctx.coverage["search_failures_in_random_stream"] = nreported
    ctx.coverage["search_label"] = "TESTING on the real tools (stubgen, mypy, stubtest, CPython ast) — not covered by a theorem"


def _rel(files: dict[str, str], module: str) -> str:
    rel = module.replace(".", "/")
    return rel + ".py" if rel + ".py" in files else rel + "/__init__.py"


def replay(ctx: Ctx, det: dict) -> int:
    root = os.path.join(ctx.tmp, "replay")
    os.makedirs(root, exist_ok=True)
    files = det["files"]
    module, mode = det["module"], det["mode"]
    pkg = module.split(".")[0]
    meta = {}
    for k in files:
        mod = k[:-3].replace("/", ".").removesuffix(".__init__")
        meta[mod] = {"features": []}
    fails = evaluate(root, "rp", files, meta, [pkg], mode)
    stubs = {d["module"]: d["stub"] for d in fails.pop("__stubs__")}  # type: ignore[union-attr]
    print("==== source of", module)
    print(files[_rel(files, module)])
    print(f"==== stub emitted now ({mode} mode)")
    print(stubs.get(module, "<none>"))
    print("==== oracle verdicts now")
    for f in fails.get(module, []):
        print(f"  {f['oracle']}: {f['message']}")
    if not fails.get(module):
        print("  (none: the four oracles accept this stub now)")
    return 1 if fails.get(module) else 0
