"""Running the real tools (stubgen in its three modes, mypy, stubtest, CPython's ast) on generated packages
and evaluating the four oracles of C19.  Labelled *testing* in the evidence: nothing here is a proof."""
from __future__ import annotations

import ast
import os
import re
import subprocess
from concurrent.futures import ThreadPoolExecutor

from harness.vlib.core import PY, ToolFailure, repo_env

MODES = {"parse": ["--parse-only"], "semantic": [], "inspect": ["--inspect-mode"]}


def write_tree(root: str, files: dict[str, str]) -> None:
    for rel, src in files.items():
        p = os.path.join(root, rel)
        os.makedirs(os.path.dirname(p), exist_ok=True)
        with open(p, "w", encoding="utf-8") as f:
            f.write(src)


def run(cmd: list[str], cwd: str, env: dict, timeout: int = 600) -> subprocess.CompletedProcess:
    try:
        return subprocess.run(cmd, cwd=cwd, env=env, capture_output=True, text=True, timeout=timeout)
    except subprocess.TimeoutExpired:
        raise ToolFailure("timeout: " + " ".join(cmd[:6]))


def mypy_check(root: str, targets: list[str], cache: str, what: str, as_packages: bool = True) -> dict[str, list[str]]:
    """Run mypy (default options) on packages found under `root`; returns {relative path: [error lines]}."""
    env = repo_env({"MYPYPATH": root, "MYPY_FORCE_COLOR": "0"})
    cmd = [PY, "-m", "mypy", "--no-error-summary", "--hide-error-context", "--no-color-output", "--cache-dir", cache,
           "--show-traceback"]
    if as_packages:
        for t in targets:
            cmd += ["-p", t]
    else:
        cmd += targets
    p = run(cmd, root, env)
    if p.returncode not in (0, 1):
        raise ToolFailure(f"mypy on {what} failed ({p.returncode}): " + (p.stdout + p.stderr)[-1500:])
    out: dict[str, list[str]] = {}
    for line in p.stdout.splitlines():
        m = re.match(r"^([^:]+\.pyi?):(\d+): (error|note): (.*)$", line)
        if m and m.group(3) == "error":
            out.setdefault(os.path.normpath(m.group(1)), []).append(f"{m.group(2)}: {m.group(4)}")
        elif "error:" in line and not m:
            out.setdefault("?", []).append(line)
    return out


def stubgen(src: str, out: str, mode: str, pkgs: list[str], cache: str) -> tuple[int, str]:
    env = repo_env({"MYPY_CACHE_DIR": cache})
    env["PYTHONPATH"] = env["PYTHONPATH"] + os.pathsep + src
    cmd = [PY, "-m", "mypy.stubgen", "--ignore-errors", "-o", out] + MODES[mode]
    for p in pkgs:
        cmd += ["-p", p]
    p = run(cmd, src, env)
    return p.returncode, p.stdout + p.stderr


def stubtest(src: str, stubs: str, pkgs: list[str], cache: str) -> tuple[int, list[str], str]:
    """python -m mypy.stubtest on the packages; returns (rc, concise error lines, full text)."""
    env = repo_env({"MYPYPATH": stubs, "MYPY_CACHE_DIR": cache})
    env["PYTHONPATH"] = env["PYTHONPATH"] + os.pathsep + src
    cmd = [PY, "-m", "mypy.stubtest", "--concise"] + pkgs
    p = run(cmd, src, env)
    lines = [l for l in p.stdout.splitlines() if l.strip()]
    return p.returncode, lines, p.stdout + p.stderr


def parallel(fn, items, workers: int = 6):
    with ThreadPoolExecutor(max_workers=workers) as ex:
        return list(ex.map(fn, items))


# --------------------------------------------------------------------------- structural comparison
TYPING_BUILTIN = {"List": "list", "Dict": "dict", "Tuple": "tuple", "Set": "set", "FrozenSet": "frozenset",
                  "Type": "type", "Text": "str"}
TYPING_MODS = {"typing", "t", "typing_extensions"}
CABC_MODS = {"cabc"}


class _Norm(ast.NodeTransformer):
    """Canonical form of a type expression: drops the `typing.`/`t.`/`collections.abc.` qualifier, rewrites
    Optional/Union to `|`, typing.List & co. to the builtins, unquotes forward references (not inside
    Literal[...]).  These are exactly the rewrites stubgen documents (TYPING_BUILTIN_REPLACEMENTS, PEP 604)."""

    def __init__(self) -> None:
        self.in_literal = 0

    def visit_Attribute(self, node: ast.Attribute):
        self.generic_visit(node)
        if isinstance(node.value, ast.Name) and node.value.id in TYPING_MODS | CABC_MODS:
            return ast.Name(id=TYPING_BUILTIN.get(node.attr, node.attr), ctx=ast.Load())
        if (isinstance(node.value, ast.Attribute) and isinstance(node.value.value, ast.Name)
                and node.value.value.id == "collections" and node.value.attr == "abc"):
            return ast.Name(id=node.attr, ctx=ast.Load())
        return node

    def visit_Name(self, node: ast.Name):
        return ast.Name(id=TYPING_BUILTIN.get(node.id, node.id), ctx=ast.Load()) if node.id in TYPING_BUILTIN else node

    def visit_Constant(self, node: ast.Constant):
        if isinstance(node.value, str) and not self.in_literal:
            try:
                inner = ast.parse(node.value, mode="eval").body
            except SyntaxError:
                return node
            return self.visit(inner)
        return node

    def visit_Subscript(self, node: ast.Subscript):
        base = self.visit(node.value)
        bname = base.id if isinstance(base, ast.Name) else None
        if bname == "Literal":
            self.in_literal += 1
            sl = self.visit(node.slice)
            self.in_literal -= 1
        else:
            sl = self.visit(node.slice)
        if bname == "Optional":
            return ast.BinOp(left=sl, op=ast.BitOr(), right=ast.Constant(value=None))
        if bname == "Union":
            items = sl.elts if isinstance(sl, ast.Tuple) else [sl]
            acc = items[0]
            for it in items[1:]:
                acc = ast.BinOp(left=acc, op=ast.BitOr(), right=it)
            return acc
        return ast.Subscript(value=base, slice=sl, ctx=ast.Load())


def norm_ann(node: ast.expr | None) -> str | None:
    if node is None:
        return None
    try:
        n = _Norm().visit(ast.parse(ast.unparse(node), mode="eval").body)
        return ast.unparse(ast.fix_missing_locations(n)).replace("'", '"')
    except Exception:
        return ast.unparse(node)


def sig_of(fn: ast.FunctionDef | ast.AsyncFunctionDef) -> dict:
    a = fn.args
    params = []
    npos = len(a.posonlyargs) + len(a.args)
    ndef = len(a.defaults)
    for i, p in enumerate(a.posonlyargs + a.args):
        kind = "posonly" if i < len(a.posonlyargs) else "pos"
        params.append((p.arg, kind, i >= npos - ndef, norm_ann(p.annotation)))
    if a.vararg:
        params.append((a.vararg.arg, "star", False, norm_ann(a.vararg.annotation)))
    for p, d in zip(a.kwonlyargs, a.kw_defaults):
        params.append((p.arg, "kwonly", d is not None, norm_ann(p.annotation)))
    if a.kwarg:
        params.append((a.kwarg.arg, "star2", False, norm_ann(a.kwarg.annotation)))
    return {"params": params, "ret": norm_ann(fn.returns), "async": isinstance(fn, ast.AsyncFunctionDef)}


def is_public(name: str) -> bool:
    return not name.startswith("_")


def collect(tree: ast.Module | ast.ClassDef, conditional: bool = True) -> dict[str, list[tuple[str, object]]]:
    """name -> [(kind, payload)] for every definition in the body (descending into if/else/try at this
    level — conditional definitions)."""
    out: dict[str, list[tuple[str, object]]] = {}

    def add(name: str, kind: str, payload: object) -> None:
        out.setdefault(name, []).append((kind, payload))

    def walk(body: list[ast.stmt]) -> None:
        for st in body:
            if isinstance(st, (ast.FunctionDef, ast.AsyncFunctionDef)):
                add(st.name, "func", st)
            elif isinstance(st, ast.ClassDef):
                add(st.name, "class", st)
            elif isinstance(st, ast.AnnAssign) and isinstance(st.target, ast.Name):
                add(st.target.id, "annvar", st)
            elif isinstance(st, ast.Assign):
                for t in st.targets:
                    for n in ([t] if isinstance(t, ast.Name) else t.elts if isinstance(t, (ast.Tuple, ast.List)) else []):
                        if isinstance(n, ast.Name):
                            add(n.id, "var", st)
            elif isinstance(st, ast.TypeAlias) and isinstance(st.name, ast.Name):
                add(st.name.id, "typealias", st)
            elif isinstance(st, ast.If) and conditional:
                walk(st.body); walk(st.orelse)
            elif isinstance(st, ast.Try) and conditional:
                walk(st.body); walk(st.orelse); walk(st.finalbody)
                for h in st.handlers:
                    walk(h.body)
    walk(tree.body)
    return out


def dunder_all(tree: ast.Module) -> list[str] | None:
    for st in tree.body:
        if isinstance(st, ast.Assign) and any(isinstance(t, ast.Name) and t.id == "__all__" for t in st.targets):
            try:
                return list(ast.literal_eval(st.value))
            except Exception:
                return None
    return None


def structural(source: str, stub: str, mode: str) -> list[dict]:
    """Every public function / class / method / annotated variable of the source must appear in the stub with
    the annotations the source spelled out (modulo _Norm).  Returns a list of discrepancy dicts."""
    src_t = ast.parse(source)
    stub_t = ast.parse(stub)
    problems: list[dict] = []
    allv = dunder_all(src_t)

    def compare(scope: str, src_defs: dict, stub_defs: dict, top: bool) -> None:
        for name, occ in src_defs.items():
            if top and allv is not None:
                if name not in allv:
                    continue
            elif not is_public(name) and name != "__init__":
                continue
            kinds = {k for k, _ in occ}
            if name == "__all__":
                continue
            if kinds == {"var"}:
                continue        # unannotated variables: presence is not demanded by the property
            got = stub_defs.get(name)
            full = f"{scope}{name}"
            if not got:
                problems.append({"class": "missing-name", "name": full, "kind": sorted(kinds)[0]})
                continue
            if "func" in kinds:
                want = [sig_of(p) for k, p in occ if k == "func"]        # type: ignore[arg-type]
                have = [sig_of(p) for k, p in got if k == "func"]        # type: ignore[arg-type]
                if not have:
                    # a method may legitimately become an attribute only for properties; otherwise report
                    if not any(isinstance(p, ast.AnnAssign) for _, p in got):
                        problems.append({"class": "kind-changed", "name": full, "from": "func", "to": got[0][0]})
                    continue
                # overloads: source has n+1 (with implementation), stub n — every stub signature must equal a source one
                ok = all(any(sig_matches(w, h, mode == "inspect") for w in want) for h in have)
                if not ok:
                    d = sig_diff(want, have)
                    d.update({"name": full})
                    problems.append(d)
            if "class" in kinds:
                sc = [p for k, p in occ if k == "class"][0]
                gc = [p for k, p in got if k == "class"]
                if not gc:
                    problems.append({"class": "kind-changed", "name": full, "from": "class", "to": got[0][0]})
                    continue
                compare(full + ".", collect(sc, conditional=True), collect(gc[0], conditional=True), False)  # type: ignore[arg-type]
            if "annvar" in kinds and "func" not in kinds and "class" not in kinds:
                want_a = {norm_ann(p.annotation) for k, p in occ if k == "annvar"}   # type: ignore[attr-defined]
                have_a = {norm_ann(p.annotation) for k, p in got if k == "annvar"}   # type: ignore[attr-defined]
                if not have_a:
                    problems.append({"class": "annotation-dropped", "name": full, "want": sorted(map(str, want_a))})
                elif not (want_a & have_a):
                    # `x: Final = 3` is completed to Final[int]: a refinement, not a change
                    if any(w == "Final" and h and h.startswith("Final[") for w in want_a for h in have_a):
                        continue
                    problems.append({"class": "annotation-changed", "name": full, "want": sorted(map(str, want_a)),
                                     "have": sorted(map(str, have_a))})

    compare("", collect(src_t), collect(stub_t), True)
    # names listed in __all__ that the module merely imports are public too: the stub must bind them
    if allv is not None:
        src_bound = set(collect(src_t)) | imported_names(src_t)
        stub_bound = set(collect(stub_t)) | imported_names(stub_t)
        for name in allv:
            if name in src_bound and name not in stub_bound:
                if not any(p.get("name") == name for p in problems):
                    problems.append({"class": "missing-name", "name": name, "kind": "__all__ re-export"})
    return problems


def imported_names(tree: ast.Module) -> set[str]:
    out: set[str] = set()

    def walk(body: list[ast.stmt]) -> None:
        for st in body:
            if isinstance(st, ast.Import):
                for al in st.names:
                    out.add(al.asname or al.name.split(".")[0])
            elif isinstance(st, ast.ImportFrom):
                for al in st.names:
                    out.add(al.asname or al.name)
            elif isinstance(st, ast.If):
                walk(st.body); walk(st.orelse)
            elif isinstance(st, ast.Try):
                walk(st.body); walk(st.orelse); walk(st.finalbody)
                for h in st.handlers:
                    walk(h.body)
    walk(tree.body)
    return out


def unqualify(a: str | None) -> str | None:
    """`pkg.mod.C` → `C` (inspect mode prints classes by their fully qualified name and imports the module)."""
    return None if a is None else re.sub(r"\b(?:[A-Za-z_]\w*\.)+([A-Za-z_]\w*)", r"\1", a)


def pep484(params: list) -> list:
    """PEP 484: a positional parameter named `__x` is positional-only when every parameter before it is
    (what mypy's parser — and stubtest — read into the source signature)."""
    out, prefix = [], True
    for p in params:
        n, k = p[0], p[1]
        if prefix and k == "posonly":
            out.append(p)
        elif prefix and k == "pos" and n.startswith("__") and not n.endswith("__"):
            out.append((n, "posonly") + tuple(p[2:]))
        else:
            prefix = False
            out.append(p)
    return out


def sig_matches(want: dict, have: dict, loose: bool = False) -> bool:
    if _sig_matches(want, have, loose):
        return True
    conv = dict(want, params=pep484(want["params"]))
    return conv["params"] != want["params"] and _sig_matches(conv, have, loose)


def _sig_matches(want: dict, have: dict, loose: bool = False) -> bool:
    if loose:
        q = lambda d: {"params": [(n, k, dd, unqualify(a)) for n, k, dd, a in d["params"]], "ret": unqualify(d["ret"]),
                       "async": d["async"]}
        want, have = q(want), q(have)
    wp, hp = want["params"], have["params"]
    if len(wp) != len(hp) or want["async"] != have["async"]:
        return False
    for (wn, wk, wd, wa), (hn, hk, hd, ha) in zip(wp, hp):
        if (wn, wk, wd) != (hn, hk, hd):
            return False
        if wa is not None and wa != ha and not (hn in ("self", "cls")):
            return False
    if want["ret"] is not None and want["ret"] != have["ret"]:
        return False
    return True


def sig_diff(want: list[dict], have: list[dict]) -> dict:
    w, h = want[0], have[0]
    for hh in have:
        if not any(sig_matches(ww, hh) for ww in want):
            h = hh
            break
    # pick the source signature with the same parameter names if there is one
    for ww in want:
        if [p[0] for p in ww["params"]] == [p[0] for p in h["params"]]:
            w = ww
            break
    cls = "signature-changed"
    if [p[:3] for p in w["params"]] == [p[:3] for p in h["params"]] and w["async"] == h["async"]:
        cls = "annotation-changed"
        dropped = [p[0] for p, q in zip(w["params"], h["params"]) if p[3] is not None and q[3] is None]
        if dropped or (w["ret"] is not None and h["ret"] is None):
            cls = "annotation-dropped"
    elif w["async"] != h["async"]:
        cls = "async-changed"
    return {"class": cls, "want": w, "have": h}
