"""Private runner for part B (bind/fold) — not part of the check; `./check C12` uses run.py.
usage: VERIF_REPO=… /venv/bin/python -m harness.c12._runb [bind|fold|both] [quick|thorough] [seed] [--known]"""
import json, os, sys, time
from harness.vlib.core import Ctx, ToolFailure

PROPOSED = os.path.join(os.path.dirname(__file__), "proposed_known_findings.json")

def main():
    what = sys.argv[1] if len(sys.argv) > 1 else "both"
    tier = sys.argv[2] if len(sys.argv) > 2 else "quick"
    seed = int(sys.argv[3]) if len(sys.argv) > 3 else 0
    ctx = Ctx("C12", tier, seed)
    if "--known" in sys.argv and os.path.exists(PROPOSED):
        have = {e.get("id") for e in ctx.findings}
        ctx.findings = ctx.findings + [e for e in json.load(open(PROPOSED)) if e.get("id") not in have]
    rc = 0
    try:
        if what in ("bind", "both"):
            from harness.c12 import bind
            bind.run(ctx)
        if what in ("fold", "both"):
            from harness.c12 import fold
            fold.run(ctx)
        cov = ctx.coverage
        print(json.dumps({k: v for k, v in cov.items() if k not in ("samples", "theorems", "distribution")}, indent=1, default=str)[:3000])
        print("distribution:", json.dumps(cov.get("distribution", {}), default=str)[:3000])
        rc = 1 if ctx.violations else 0
        print(f"rc={rc} wall={time.time()-ctx.t0:.1f}s known={[k for k,_ in ctx.known_hits]}")
    except ToolFailure as e:
        print("TOOL-FAILURE", e); rc = 2
    finally:
        ctx.cleanup()
    return rc

if __name__ == "__main__":
    sys.exit(main())
