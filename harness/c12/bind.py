"""C12 (part B) — call binding: mypy rejects a call for arity / keyword reasons iff CPython raises TypeError.

1. Lean: Props/C12Bind (arity_iff_core / arity_iff_star / arity_iff_partial over all signatures and all call
   shapes with statically known sizes and keys, unbounded; F9 witnesses inside the excluded shapes).
2. Tie, both sides, on the same generated (signature, call) pairs:
   a. real mypy — one generated module per batch, checked in-process; per call line the
      `formal_to_actual` mapping handed to `check_argument_count` and the arity diagnostics —
      vs the `ArgMap` model (`map=`, `errs=`);
   b. real `def` + call executed by CPython vs the `PyBind` model (`py=`).
3. Search / oracle of the property itself: mypy reports an arity/keyword error on the call line ⇔ the call
   raises TypeError at run time.  Known classes (F8 crash, F9 false accepts) are recognised by the
   model's decidable shape predicates and reported through ctx.report.
"""
from __future__ import annotations

import contextlib
import io
import itertools
import json
import os
import re
from typing import Any

from harness.vlib.core import Ctx, ToolFailure

MODEL_FILES = ["MypyVerif/Model/ArgMap.lean", "MypyVerif/Model/PyBind.lean", "MypyVerif/Proofs/Bind.lean",
               "MypyVerif/Proofs/BindStar.lean", "MypyVerif/Proofs/BindTD.lean", "MypyVerif/Proofs/BindDup.lean",
               "MypyVerif/Gen/BindCfg.lean"]
DRIVER = "Driver/C12Bind.lean"

# ------------------------------------------------------------------------------------ names
NAMES = ["a", "b", "c", "d", "k", "l", "z", "va", "kw", "y"]
NUM = {n: i + 1 for i, n in enumerate(NAMES)}
NAME_OF = {v: k for k, v in NUM.items()}
POS_NAMES = ["a", "b", "c", "d"]
KWONLY_NAMES = ["k", "l"]


# ------------------------------------------------------------------------------------ signatures
class Sig:
    """posonly/poskw: names; ndef: defaults on the last ndef positional params; kwonly: [(name, has_default)]"""
    __slots__ = ("posonly", "poskw", "ndef", "varargs", "kwonly", "varkw")

    def __init__(self, posonly, poskw, ndef, varargs, kwonly, varkw):
        self.posonly, self.poskw, self.ndef = tuple(posonly), tuple(poskw), ndef
        self.varargs, self.kwonly, self.varkw = varargs, tuple(kwonly), varkw

    def nparams(self) -> int:
        return len(self.posonly) + len(self.poskw) + len(self.kwonly) + bool(self.varargs) + bool(self.varkw)

    def text(self) -> str:
        pos = list(self.posonly) + list(self.poskw)
        parts = []
        for i, p in enumerate(pos):
            parts.append(f"{p}: int = 0" if i >= len(pos) - self.ndef else f"{p}: int")
            if self.posonly and i == len(self.posonly) - 1:
                parts.append("/")
        if self.varargs:
            parts.append(f"*{self.varargs}: int")
        elif self.kwonly:
            parts.append("*")
        for k, d in self.kwonly:
            parts.append(f"{k}: int = 0" if d else f"{k}: int")
        if self.varkw:
            parts.append(f"**{self.varkw}: int")
        return ", ".join(parts)

    def line(self) -> str:
        def ns(xs):
            return ",".join(str(NUM[x]) for x in xs)
        return ";".join([ns(self.posonly), ns(self.poskw), str(self.ndef),
                         str(NUM[self.varargs]) if self.varargs else "-",
                         ",".join(f"{NUM[k]}:{int(d)}" for k, d in self.kwonly),
                         str(NUM[self.varkw]) if self.varkw else "-"])

    def key(self):
        return (self.posonly, self.poskw, self.ndef, self.varargs, self.kwonly, self.varkw)

    def shape(self) -> str:
        return f"po{len(self.posonly)}pk{len(self.poskw)}d{self.ndef}{'V' if self.varargs else ''}" \
               f"ko{''.join('o' if d else 'r' for _, d in self.kwonly)}{'W' if self.varkw else ''}"


def all_sigs(maxn: int) -> list[Sig]:
    out = []
    for npo in range(0, maxn + 1):
        for npk in range(0, maxn + 1 - npo):
            for nko in range(0, min(2, maxn - npo - npk) + 1):
                for va in (False, True):
                    for kw in (False, True):
                        if npo + npk + nko + va + kw > maxn:
                            continue
                        for ndef in range(0, npo + npk + 1):
                            for kd in itertools.product([False, True], repeat=nko):
                                names = POS_NAMES[:npo + npk]
                                out.append(Sig(names[:npo], names[npo:], ndef, "va" if va else None,
                                               list(zip(KWONLY_NAMES, kd)), "kw" if kw else None))
    return out


# ------------------------------------------------------------------------------------ calls
# atom = (driver token, python source text, class)
TUPLES = {0: "t0", 1: "t1", 2: "t2", 3: "t3"}
TD_KEYSETS = [(), ("a",), ("b",), ("a", "b"), ("k",), ("z",), ("a", "z"), ("va",), ("kw",), ("b", "k")]


def td_var(keys) -> str:
    return "d_" + "_".join(keys) if keys else "d0"


def td_cls(keys) -> str:
    return "D_" + "_".join(keys) if keys else "D0"


ATOM_POS = ("p", "1", "pos")
ATOM_STARS = [(f"t{k}", f"*{v}", "star") for k, v in TUPLES.items()]
ATOM_KWS = [(f"n{NUM[x]}", f"{x}=1", "kw") for x in ["a", "b", "c", "k", "z", "va", "kw"]]
ATOM_TDS = [("d" + ",".join(str(NUM[x]) for x in ks), f"**{td_var(ks)}", "td") for ks in TD_KEYSETS]
ATOM_UNK = [("t?", "*xs", "ustar"), ("d?", "**mp", "ustar2")]

HEADER = ["from typing import TypedDict"]
for _ks in TD_KEYSETS:
    HEADER.append(f"class {td_cls(_ks)}(TypedDict):\n" + ("".join(f"    {k}: int\n" for k in _ks) if _ks else "    pass\n"))
for _k, _v in TUPLES.items():
    ann = "tuple[()]" if _k == 0 else "tuple[" + ", ".join(["int"] * _k) + "]"
    HEADER.append(f"{_v}: {ann} = ({''.join('1, ' for _ in range(_k))})")
for _ks in TD_KEYSETS:
    HEADER.append(f"{td_var(_ks)}: {td_cls(_ks)} = {{{', '.join(repr(k) + ': 1' for k in _ks)}}}")
HEADER.append("xs: list[int] = [1]")
HEADER.append("mp: dict[str, int] = {'z': 1}")
HEADER_TEXT = "\n".join(HEADER) + "\n"


def valid_call(atoms) -> bool:
    """Python's syntax rules for argument lists"""
    seen_kw = seen_ss = False
    names = set()
    for tok, _, cls in atoms:
        if cls == "pos":
            if seen_kw or seen_ss:
                return False
        elif cls in ("star", "ustar"):
            if seen_ss:
                return False
        elif cls == "kw":
            if tok in names:
                return False
            names.add(tok)
            seen_kw = True
        else:
            seen_ss = True
    return True


def all_calls(maxa: int, atoms) -> list[tuple]:
    out = []
    for n in range(0, maxa + 1):
        for combo in itertools.product(atoms, repeat=n):
            if valid_call(combo):
                out.append(combo)
    return out


def ast_order(call) -> list:
    """mypy (like Python's `ast.Call`) keeps positional and `*` actuals first, then keywords and `**`
    actuals, each group in source order: `f(a=1, *t)` has actuals [*t, a=1]"""
    return [a for a in call if a[2] in ("pos", "star", "ustar")] + [a for a in call if a[2] not in ("pos", "star", "ustar")]


def call_tokens(call) -> str:
    return " ".join(a[0] for a in ast_order(call))


def call_text(call) -> str:
    return ", ".join(a[1] for a in call)


def call_shape(call) -> str:
    return "".join({"pos": "p", "star": "*", "ustar": "*?", "kw": "k", "td": "D", "ustar2": "D?"}[a[2]] for a in ast_order(call)) or "-"


# ------------------------------------------------------------------------------------ real mypy
ARITY_PATTERNS = [
    (re.compile(r'^Too many positional arguments'), lambda m: "TMP"),
    (re.compile(r'^Too many arguments'), lambda m: "TM"),
    (re.compile(r'^Too few arguments'), lambda m: "TF"),
    (re.compile(r'^Missing positional arguments? '), lambda m: "TF"),
    (re.compile(r'^Missing named argument "([^"]+)"'), lambda m: "MN:" + str(NUM.get(m.group(1), m.group(1)))),
    (re.compile(r'^Unexpected keyword argument "([^"]+)"'), lambda m: "UK:" + str(NUM.get(m.group(1), m.group(1)))),
    (re.compile(r'^Extra argument "([^"]+)" from \*\*args'), lambda m: "XTD:" + str(NUM.get(m.group(1), m.group(1)))),
    (re.compile(r'gets multiple values for keyword argument "([^"]+)"'),
     lambda m: "DUP:" + ("?" if m.group(1) == "None" else str(NUM.get(m.group(1), m.group(1))))),
]


def classify_mypy(msg: str) -> str:
    for rx, f in ARITY_PATTERNS:
        m = rx.search(msg)
        if m:
            return f(m)
    return "OTHER:" + msg


class MypyRunner:
    def __init__(self, ctx: Ctx):
        self.ctx = ctx
        self.cache = os.path.join(ctx.tmp, "bind-cache")
        self.nbuilds = 0
        self.crash_builds = 0
        self.max_crash_builds = ctx.pick(300, 2500)    # bisection budget (a tree that crashes everywhere)

    def build(self, text: str):
        """(errors by line, formal_to_actual by line) or raises"""
        from mypy import build as mbuild
        from mypy import checkexpr
        from mypy.fscache import FileSystemCache
        from mypy.modulefinder import BuildSource
        from mypy.options import Options
        opts = Options()
        opts.incremental = True
        opts.cache_dir = self.cache
        opts.show_traceback = True
        opts.raise_exceptions = True
        opts.hide_error_codes = False
        msgs: list[str] = []
        f2a: dict[int, list[list[int]]] = {}
        orig = checkexpr.ExpressionChecker.check_argument_count

        def spy(self_, callee, actual_types, actual_kinds, actual_names, formal_to_actual, context, *a, **k):
            if context is not None and getattr(context, "line", -1) > 0:
                f2a[context.line] = [list(x) for x in formal_to_actual]
            return orig(self_, callee, actual_types, actual_kinds, actual_names, formal_to_actual, context, *a, **k)

        checkexpr.ExpressionChecker.check_argument_count = spy  # harness-side observation point
        sink = io.StringIO()
        try:
            self.nbuilds += 1
            with contextlib.redirect_stdout(sink), contextlib.redirect_stderr(sink):   # crash reports are noisy
                mbuild.build([BuildSource("bindm.py", "bindm", text)], opts,
                             flush_errors=lambda f, m, s: msgs.extend(m), fscache=FileSystemCache())
        finally:
            checkexpr.ExpressionChecker.check_argument_count = orig
        errs: dict[int, list[str]] = {}
        for line in msgs:
            m = re.match(r"bindm\.py:(\d+)(?::\d+)?: error: (.*?)(?:  \[[a-z-]+\])?$", line)
            if m:
                errs.setdefault(int(m.group(1)), []).append(m.group(2))
            elif ": note:" not in line:
                raise ToolFailure("unparsed mypy output: " + line)
        return errs, f2a

    def run(self, cases: list[tuple[Sig, tuple]]) -> list[dict]:
        """per case: {"errs": [...], "f2a": [[..]], "crash": None | str}; bisects a crashing batch"""
        if not cases:
            return []
        lines = [HEADER_TEXT]
        lineno = HEADER_TEXT.count("\n")
        at: list[int] = []
        fn_of: dict = {}
        for sig, call in cases:
            k = sig.key()
            if k not in fn_of:
                fn_of[k] = f"f{len(fn_of)}"
                lines.append(f"def {fn_of[k]}({sig.text()}) -> None: ...\n")
                lineno += 1
            lines.append(f"{fn_of[k]}({call_text(call)})\n")
            lineno += 1
            at.append(lineno)
        text = "".join(lines)
        try:
            errs, f2a = self.build(text)
        except ToolFailure:
            raise
        except BaseException as e:  # noqa: BLE001 - a crash of mypy on an accepted program
            if isinstance(e, KeyboardInterrupt):
                raise
            self.crash_builds += 1
            if len(cases) == 1:
                return [{"errs": [], "f2a": None, "crash": f"{type(e).__name__}: {str(e)[:120]}"}]
            if self.crash_builds > self.max_crash_builds:
                # enough crashes have been located and reported: the rest of this batch is not evaluated
                return [{"errs": [], "f2a": None, "crash": None, "skipped": True} for _ in cases]
            mid = len(cases) // 2
            return self.run(cases[:mid]) + self.run(cases[mid:])
        return [{"errs": errs.get(ln, []), "f2a": f2a.get(ln), "crash": None} for ln in at]


# ------------------------------------------------------------------------------------ real CPython
def classify_py(msg: str) -> str:
    if "multiple values for keyword argument" in msg:
        return "KWDUP"
    if "multiple values for argument" in msg:
        return "MULT"
    if "unexpected keyword argument" in msg:
        return "UNEXP"
    if "positional-only arguments passed as keyword" in msg:
        return "POSONLYKW"
    if "positional argument" in msg and "given" in msg:
        return "TOOMANY"
    if "required positional argument" in msg:
        return "MISSPOS"
    if "required keyword-only argument" in msg:
        return "MISSKW"
    return "OTHER:" + msg


class PyRunner:
    def __init__(self):
        self.ns: dict = {}
        exec(compile(HEADER_TEXT, "<bind-header>", "exec"), self.ns)
        self.fns: dict = {}

    def call(self, sig: Sig, call) -> str:
        k = sig.key()
        fn = self.fns.get(k)
        if fn is None:
            loc: dict = {}
            exec(f"def f({sig.text()}) -> None: ...", self.ns, loc)
            fn = self.fns[k] = loc["f"]
        self.ns["f"] = fn
        try:
            eval(compile(f"f({call_text(call)})", "<call>", "eval"), self.ns)
        except TypeError as e:
            return classify_py(str(e))
        return "ok"


# ------------------------------------------------------------------------------------ comparison
def parse_model(line: str) -> dict:
    try:
        d = dict(kv.split("=", 1) for kv in line.split(" "))
        d["map"] = [] if d["map"] == "-" else [[int(x) for x in part.split(",") if x] for part in d["map"][1:-1].split("][")]
        d["errs"] = [] if d["errs"] == "-" else d["errs"].split(",")
        return d
    except (ValueError, KeyError):
        raise ToolFailure(f"bind driver: bad output {line!r}")


def shape_of(m: dict, crash: bool = False) -> str:
    """the known shape the call falls into (decidable predicates of Model/PyBind.lean).  Two **TypedDict
    actuals sharing a key are the crash shape (F8); when mypy does not crash on them, a wrong verdict is
    judged like any other call (a shared key routed to **kwargs is the duplicate-key shape F9a)."""
    if crash and m["f8"] == "1":
        return "two-typeddicts-share-key"
    if m["f9a"] == "1":
        return "duplicate-key-routed-to-star-formal"
    if m["f9b"] == "1":
        return "star-tuple-then-typeddict-same-formal"
    if m["f9c"] == "1":
        return "typeddict-key-names-star-args-formal"
    return "other"


def report_once(ctx: Ctx, observed: dict, what: str, detail: Any) -> None:
    seen = ctx.__dict__.setdefault("_bind_reported", {})
    key = json.dumps(observed, sort_keys=True)
    seen[key] = seen.get(key, 0) + 1
    if seen[key] == 1:
        ctx.report(observed, what, detail)


def compare(ctx: Ctx, cases, models, reals, pys, stats: dict) -> None:
    for (sig, call), mline, real, py in zip(cases, models, reals, pys):
        m = parse_model(mline)
        src = f"def f({sig.text()}) -> None: ...   f({call_text(call)})"
        detail = {"sub": "bind", "sig": sig.line(), "call": call_tokens(call), "source": src}
        known_static = m["py"] != "unknown" and py != "unknown"
        ctx.case(("bind", sig.line(), call_tokens(call)), nontrivial=len(call) > 0 and sig.nparams() > 0)
        ctx.dist("bind_sig_params", str(sig.nparams()))
        ctx.dist("bind_call_shape", call_shape(call))
        # ---- CPython vs the model of CPython (only when everything is statically known)
        if known_static:
            if py != m["py"]:
                raise ToolFailure(f"CPython-binding model disagrees with CPython on {src}: model {m['py']}, CPython {py}")
            ctx.dist("bind_cpython", py)
        if real.get("skipped"):
            stats["not_evaluated_after_crash_budget"] = stats.get("not_evaluated_after_crash_budget", 0) + 1
            continue
        # ---- mypy crashed on this call
        if real["crash"]:
            stats["crash"] += 1
            report_once(ctx, {"sub": "bind", "class": "mypy-crash", "shape": shape_of(m, crash=True),
                              "exception": real["crash"].split(":")[0]},
                        f"mypy crashes ({real['crash']}) on {src}", dict(detail, crash=real["crash"]))
            continue
        kinds = [classify_mypy(e) for e in real["errs"]]
        other = [k for k in kinds if k.startswith("OTHER:")]
        arity = sorted(set(k for k in kinds if not k.startswith("OTHER:")))
        if other:
            stats["other"] += 1
            ctx.dist("bind_other_diagnostic", other[0][:60])
        ctx.dist("bind_mypy", "reject" if arity else "accept")
        # ---- the property itself
        holds = True
        if known_static:
            rejects, raises = bool(arity), py != "ok"
            if rejects != raises:
                holds = False
                stats["property_fail"] += 1
                cls = "false-accept" if raises else "false-reject"
                report_once(ctx, {"sub": "bind", "class": cls, "shape": shape_of(m)},
                            f"{cls}: mypy {'reports ' + ','.join(arity) if arity else 'is silent'}, CPython "
                            f"{'raises TypeError (' + py + ')' if raises else 'binds the call'} on {src}",
                            dict(detail, mypy=real["errs"], cpython=py))
        # ---- real mypy vs the model of mypy
        diff = None
        if real["f2a"] is None:
            diff = "check_argument_count was not reached for this call"
        elif real["f2a"] != m["map"]:
            diff = f"formal_to_actual {real['f2a']} vs model {m['map']}"
        elif arity != sorted(set(m["errs"])):
            diff = f"diagnostics {arity} vs model {sorted(set(m['errs']))}"
        if diff:
            stats["model_diff"] += 1
            ctx.count("disagreements_checked")
            ctx.sample({"bind_model_diff": diff, "source": src}, limit=12)
            if holds and len(stats["pending"]) < 3:
                # decided at the end of the run: reported only if the search finds no call on which mypy and
                # CPython actually disagree
                stats["pending"].append((f"bind correspondence broken: {diff} on {src}; mypy and CPython still agree on "
                                         "this call and on every other explored call (the model no longer describes the code)",
                                         dict(detail, broken="correspondence Driver/C12Bind vs map_actuals_to_formals/check_argument_count",
                                              mypy=real["errs"], f2a=real["f2a"], model=mline)))


def run_pairs(ctx: Ctx, mypy: MypyRunner, py: PyRunner, pairs, stats, batch: int = 4000) -> None:
    for i in range(0, len(pairs), batch):
        chunk = pairs[i:i + batch]
        chunk.sort(key=lambda p: p[0].line())
        lines = [f"{s.line()} | {call_tokens(c)}" for s, c in chunk]
        models = ctx.lean_driver(DRIVER, lines)
        if len(models) != len(lines):
            raise ToolFailure("bind driver: wrong number of output lines")
        reals = mypy.run(chunk)
        pys = [py.call(s, c) if all(a[2] not in ("ustar", "ustar2") for a in c) else "unknown" for s, c in chunk]
        compare(ctx, chunk, models, reals, pys, stats)
        ctx.count("traces_validated_against_impl", len(chunk))


def shares_key(call) -> bool:
    tds = [set(a[0][1:].split(",")) - {""} for a in call if a[2] == "td"]
    return any(tds[i] & tds[j] for i in range(len(tds)) for j in range(i + 1, len(tds)))


def run(ctx: Ctx) -> None:
    rng = ctx.rng
    ctx.coverage["rule"] = (ctx.coverage.get("rule") or "") + \
        " | bind: signatures ≤ 4 parameters (positional-only, positional-or-keyword, defaults, *args, keyword-only " \
        "with/without default, **kwargs) × call shapes ≤ 4 actuals from {positional, *tuple of length 0–3, keywords, " \
        "**TypedDict with 0–2 keys, *list, **dict}; exhaustive for small bounds, sampled above. Non-trivial: non-empty " \
        "call to a function with parameters; distinct by (signature, call)."
    from translate import c12bind
    c12bind.main()        # Gen/BindCfg.lean: one dispatch fact of the mapper under check (F9 iii present or repaired)
    proved = ctx.prove("MypyVerif.Props.C12Bind", MODEL_FILES)
    if c12bind.NOTE:
        ctx.broken_ties.append(c12bind.NOTE)
        proved = False
    ctx.trusted("translator translate/c12bind.py (one observed fact: where a **TypedDict key naming *args is mapped)",
                "bind model: map_actuals_to_formals, check_argument_count, check_for_extra_actual_arguments, "
                "is_duplicate_mapping (ParamSpec branches and unchecked call sites excluded)",
                "CPython binding model (PyBind) is compared with the running interpreter (real def + call) on every case",
                "harness observes formal_to_actual by wrapping ExpressionChecker.check_argument_count in-process")
    before = len(ctx.violations)
    stats = {"crash": 0, "other": 0, "property_fail": 0, "model_diff": 0, "pending": []}
    mypy, py = MypyRunner(ctx), PyRunner()
    atoms_small = [ATOM_POS, ATOM_STARS[1], ATOM_STARS[2], ATOM_KWS[0], ATOM_KWS[4], ATOM_TDS[1], ATOM_TDS[5]]
    atoms_all = [ATOM_POS] + ATOM_STARS + ATOM_KWS + ATOM_TDS
    # (1) exhaustive blocks: every signature ≤ N params × every call ≤ M actuals over an atom alphabet
    blocks = ctx.pick([(2, 2, atoms_small)],
                      [(4, 3, atoms_small), (3, 4, atoms_small), (4, 2, atoms_all)])
    pairs, seen_pairs = [], set()
    ctx.coverage["bind_exhaustive_blocks"] = []
    for nsig, ncall, alphabet in blocks:
        sigs_b, calls_b = all_sigs(nsig), all_calls(ncall, alphabet)
        n0 = len(pairs)
        for s_ in sigs_b:
            for c in calls_b:
                if shares_key(c):
                    continue
                k = (s_.key(), call_tokens(c), call_text(c))
                if k not in seen_pairs:
                    seen_pairs.add(k)
                    pairs.append((s_, c))
        ctx.coverage["bind_exhaustive_blocks"].append(
            {"max_params": nsig, "max_actuals": ncall, "alphabet": [a[1] for a in alphabet],
             "signatures": len(sigs_b), "calls": len(calls_b), "new_pairs": len(pairs) - n0})
    if ctx.quick():
        # plus a sample of the next block
        sigs3, calls3 = all_sigs(3), [c for c in all_calls(3, atoms_small) if not shares_key(c)]
        for _ in range(4500):
            pairs.append((rng.choice(sigs3), rng.choice(calls3)))
    # (2) sampled block: signatures ≤ 4 params × calls ≤ 4 actuals over all atoms
    sigs_big = all_sigs(4)
    nsample = ctx.pick(12000, 100000)
    calls_cache: dict[int, list] = {}
    seen = set()
    tries = 0
    while len(seen) < nsample and tries < nsample * 5:
        tries += 1
        s = rng.choice(sigs_big)
        n = rng.choice([1, 2, 2, 3, 3, 3, 4, 4])
        call = tuple(rng.choice(atoms_all) if rng.random() < 0.8 else ATOM_POS for _ in range(n))
        # order the random atoms into a syntactically valid call: positional / * first, keywords, then **
        if not valid_call(call):
            call = tuple(sorted(call, key=lambda a: {"pos": 0, "star": 0, "ustar": 0, "kw": 1, "td": 2, "ustar2": 2}[a[2]]))
            if not valid_call(call):
                continue
        if shares_key(call):
            continue
        k = (s.key(), call_tokens(call))
        if k in seen:
            continue
        seen.add(k)
        pairs.append((s, call))
    # (3) statically unknown * / ** actuals: mypy vs model only
    atoms_unk = [ATOM_POS, ATOM_STARS[1], ATOM_KWS[0], ATOM_KWS[4], ATOM_TDS[1]] + ATOM_UNK
    calls_unk = [c for c in all_calls(3, atoms_unk) if any(a[2] in ("ustar", "ustar2") for a in c) and not shares_key(c)]
    nunk = ctx.pick(1500, 20000)
    for _ in range(nunk):
        pairs.append((rng.choice(sigs_big), rng.choice(calls_unk)))
    run_pairs(ctx, mypy, py, pairs, stats)
    # (4) F8 probes: two **TypedDict actuals sharing a key (crash class) — small separate batches
    f8_calls = [c for c in all_calls(3, [ATOM_POS, ATOM_KWS[4], ATOM_TDS[1], ATOM_TDS[5], ATOM_TDS[6], ATOM_TDS[3]]) if shares_key(c)]
    f8_pairs = [(rng.choice(sigs_big), rng.choice(f8_calls)) for _ in range(ctx.pick(40, 600))]
    run_pairs(ctx, mypy, py, f8_pairs, stats, batch=200)
    pending = stats.pop("pending")
    if len(ctx.violations) == before:
        for what, det in pending:
            ctx.violation(what, det, found_input=False)
    ctx.coverage["bind_stats"] = dict(stats, mypy_builds=mypy.nbuilds, pairs=len(pairs) + len(f8_pairs))
    if not proved and len(ctx.violations) == before:
        ctx.violation("Lean development for C12 call binding no longer builds and no call was found on which mypy and "
                      "CPython disagree outside the known classes", {"sub": "bind", "broken": ctx.broken_ties},
                      found_input=False)


def sig_from_line(line: str) -> Sig:
    po, pk, nd, va, ko, kw = line.split(";")

    def names(x):
        return [NAME_OF[int(t)] for t in x.split(",") if t]
    return Sig(names(po), names(pk), int(nd), None if va == "-" else NAME_OF[int(va)],
               [(NAME_OF[int(t.split(":")[0])], t.split(":")[1] == "1") for t in ko.split(",") if t],
               None if kw == "-" else NAME_OF[int(kw)])


def call_from_tokens(toks: str) -> tuple:
    table = {a[0]: a for a in [ATOM_POS] + ATOM_STARS + ATOM_KWS + ATOM_TDS + ATOM_UNK}
    return tuple(table[t] for t in toks.split())


def replay(ctx: Ctx, det: dict) -> bool:
    """re-run the recorded (signature, call) on the current tree: model, real mypy, CPython"""
    if det.get("sub") != "bind":
        return False
    print(json.dumps({k: v for k, v in det.items() if k != "model"}, indent=1, default=str))
    if det.get("sig") and det.get("call") is not None:
        sig, call = sig_from_line(det["sig"]), call_from_tokens(det["call"])
        print("source :", f"def f({sig.text()}) -> None: ...   f({call_text(call)})")
        print("model  :", ctx.lean_driver(DRIVER, [f"{det['sig']} | {det['call']}"])[0])
        real = MypyRunner(ctx).run([(sig, call)])[0]
        print("mypy   :", "CRASH " + real["crash"] if real["crash"] else
              {"formal_to_actual": real["f2a"], "diagnostics": real["errs"]})
        if all(a[2] not in ("ustar", "ustar2") for a in call):
            print("cpython:", PyRunner().call(sig, call))
    return True
