"""C12 (part B) — constant folding agrees with CPython.

1. Lean: Props/C12Fold (fold_sound / fold_exact over all int, bool, str, bytes operands and all operators;
   Python's integer semantics characterised on `Int`).
2. Tie, both sides, same generated cases:
   a. the real folders (`mypy.constant_fold.constant_fold_binary_op / _unary_op / constant_fold_expr`,
      `mypyc.irbuild.constant_fold.constant_fold_binary_op_extended / constant_fold_expr`) vs the model's
      `fold…`;
   b. CPython (`eval`) vs the model's `py…`;
   c. float / complex operands (no Lean model): real folder vs `eval` directly;
   d. end to end: `X: Final = <expr>` through a real mypy build, `Var.final_value` vs model vs `eval`.
3. Search / oracle of the property itself: a folded value must be the value (and type) CPython computes;
   a folder must never raise.  F6 (cost of huge powers/shifts) belongs to C20: exponents and shift
   counts fed to the real folder are ≤ 64 (right shifts ≤ 200).
"""
from __future__ import annotations

import json
import operator
import sys
from typing import Any

from harness.vlib.core import Ctx, ToolFailure

if hasattr(sys, "set_int_max_str_digits"):
    sys.set_int_max_str_digits(0)      # big ints travel as decimal text to the Lean driver

MODEL_FILES = ["MypyVerif/Model/Fold.lean", "MypyVerif/Proofs/Fold.lean", "MypyVerif/Gen/FoldCfg.lean"]
DRIVER = "Driver/C12Fold.lean"

BIN_OPS = ["+", "-", "*", "/", "//", "%", "&", "|", "^", "<<", ">>", "**", "@"]
UN_OPS = ["-", "~", "+"]
PYOP = {"+": operator.add, "-": operator.sub, "*": operator.mul, "/": operator.truediv,
        "//": operator.floordiv, "%": operator.mod, "&": operator.and_, "|": operator.or_,
        "^": operator.xor, "<<": operator.lshift, ">>": operator.rshift, "**": operator.pow,
        "@": operator.matmul}
PYUN = {"-": operator.neg, "~": operator.invert, "+": operator.pos}
MAX_EXP = 64          # F6: never feed a bigger exponent / left-shift count to the real folder
MAX_RSHIFT = 200
MAX_REPEAT = 64


# ------------------------------------------------------------------------------------ value encoding
def tok(v: Any) -> str:
    if isinstance(v, bool):
        return "b1" if v else "b0"
    if isinstance(v, int):
        return f"i{v}"
    if isinstance(v, str):
        return "s" + ",".join(str(ord(c)) for c in v)
    if isinstance(v, bytes):
        return "y" + ",".join(str(c) for c in v)
    raise ValueError(v)


def canon(v: Any) -> str:
    """type-tagged canonical form of a Python value (model's `showRes`)"""
    if v is None:
        return "none"
    if isinstance(v, float):
        return "float:" + v.hex()            # exact: every float is compared bit for bit
    if isinstance(v, complex):
        return "float:complex:" + v.real.hex() + "," + v.imag.hex()
    return tok(v)


def norm_model(m: str) -> str:
    """the model's result in the harness's canonical form.  `quot:a/b` is the model's *oracle* for int true
    division — CPython's correctly rounded quotient of exactly these two integers; the oracle is realised
    here by the running interpreter (`a / b`), which is what ties the symbolic model value to a float."""
    if m.startswith("quot:"):
        a, b = m[5:].split("/")
        try:
            return "float:" + (int(a) / int(b)).hex()
        except (OverflowError, ZeroDivisionError) as e:
            return "quot-undefined:" + type(e).__name__
    return m


def model_agrees(model: str, actual: str) -> bool:
    """model `float` (some float the model does not pin down, e.g. a negative power) matches any float"""
    model = norm_model(model)
    if model == "float":
        return actual.startswith("float:")
    return model == actual


def canon_exact(v: Any) -> str:
    if isinstance(v, (float, complex)):
        return type(v).__name__ + ":" + repr(v)
    return canon(v)


def py_eval(fn, *args) -> str:
    try:
        return canon(fn(*args))
    except (ZeroDivisionError, ValueError, TypeError) as e:
        return "raise:" + type(e).__name__
    except OverflowError:
        return "raise:OverflowError"


def safe_operands(op: str, l: Any, r: Any) -> bool:
    """keep the cost of the real folder / eval bounded (F6 is C20's business)"""
    if isinstance(r, int) and not isinstance(r, bool) or isinstance(r, bool):
        ri = int(r)
        if op in ("<<", "**") and ri > MAX_EXP and isinstance(l, (int, float)):
            return False
        if op == ">>" and ri > MAX_RSHIFT:
            return False
    if op == "*":
        for s, n in ((l, r), (r, l)):
            if isinstance(s, (str, bytes)) and isinstance(n, int) and int(n) > MAX_REPEAT:
                return False
    if op == "**" and isinstance(l, float) and isinstance(r, int) and abs(int(r)) > 10 ** 6:
        return False
    return True


# ------------------------------------------------------------------------------------ operand grids
def boundary_ints(ctx: Ctx) -> list[int]:
    s = {0, 1, 2, 3, 5, 7, 10, 63, 64}
    for k in (7, 8, 15, 16, 31, 32, 62, 63, 64, 65, 127, 128):
        for d in (-1, 0, 1):
            s.add(2 ** k + d)
    for _ in range(ctx.pick(6, 20)):
        s.add(ctx.rng.getrandbits(ctx.rng.choice([5, 20, 40, 70, 130, 200])))
    s |= {-x for x in s}
    return sorted(s)


SMALL_RIGHT = [-2, -1, 0, 1, 2, 3, 7, 31, 32, 33, 62, 63, 64]
STRS = ["", "a", "ab", "éx", "\U0001F600"]
BYTESS = [b"", b"a", b"\x00\xff"]
REPEATS = [-2, -1, 0, 1, 2, 3, True, False]
FLOATS = [0.0, -0.0, 1.0, -1.0, 0.5, -2.5, 3.0, 1e308, -1e308, 5e-324, float("inf"), float("-inf"), float("nan")]


def binary_cases(ctx: Ctx) -> list[tuple[str, Any, Any]]:
    rng = ctx.rng
    ints = boundary_ints(ctx)
    cases: list[tuple[str, Any, Any]] = []
    pairs = [(a, b) for a in ints for b in ints]
    npairs = ctx.pick(220, len(pairs))
    for op in BIN_OPS:
        if op in ("<<", ">>", "**"):
            rights = SMALL_RIGHT + ([100, 200] if op == ">>" else [])
            ps = [(a, b) for a in ints for b in rights]
            ps = ps if not ctx.quick() else rng.sample(ps, min(len(ps), 260))
        else:
            ps = pairs if npairs >= len(pairs) else rng.sample(pairs, npairs)
            # the sign/zero corners always
            ps = ps + [(a, b) for a in (-7, -1, 0, 1, 7) for b in (-2, -1, 0, 1, 2)]
        cases += [(op, a, b) for a, b in ps]
        # bool operands (bool is an int) and mixes
        for a in (True, False):
            for b in (True, False, -2, 0, 3):
                cases.append((op, a, b))
                cases.append((op, b, a))
        # sequences
        for s in STRS + BYTESS:
            for n in REPEATS:
                cases.append((op, s, n))
                cases.append((op, n, s))
            for t in (STRS[:3] + BYTESS[:2]):
                cases.append((op, s, t))
    return [c for c in cases if safe_operands(*c)]


def float_cases(ctx: Ctx) -> list[tuple[str, Any, Any]]:
    """correspondence only (no Lean model): float / mixed operands incl. huge ints"""
    rng = ctx.rng
    ints = [0, 1, -1, 2, -3, 7, 2 ** 53 + 1, -(2 ** 63), 10 ** 400, -(10 ** 400)]
    cases = []
    for op in BIN_OPS:
        for a in FLOATS:
            for b in FLOATS:
                cases.append((op, a, b))
            for i in ints:
                cases.append((op, a, i))
                cases.append((op, i, a))
        for i in ints:                     # int / int → float
            for j in ints:
                if op == "/":
                    cases.append((op, i, j))
        for z in (1j, -2.5j):
            for a in (1, 2.5, True):
                cases.append((op, a, z))
                cases.append((op, z, a))
    if ctx.quick():
        cases = rng.sample(cases, min(len(cases), 1500))
    return [c for c in cases if safe_operands(*c)]


# ------------------------------------------------------------------------------------ expression trees
def gen_tree(ctx: Ctx, depth: int, ints: list[int]) -> Any:
    """nested tuples: ("lit", v) ("T",) ("F",) ("ref", same, v) ("bin", op, l, r) ("un", op, e)"""
    rng = ctx.rng
    if depth == 0 or rng.random() < 0.15:
        k = rng.random()
        if k < 0.62:
            v = rng.choice(ints) if rng.random() < 0.5 else rng.choice([0, 1, 2, 3, 5, 8, 63, 64, 255])
            return ("lit", abs(v)) if rng.random() < 0.8 else ("un", "-", ("lit", abs(v)))
        if k < 0.7:
            return ("T",) if rng.random() < 0.5 else ("F",)
        if k < 0.84:
            return ("ref", rng.random() < 0.8, rng.choice([rng.choice(ints), True, False, "ab", 7, -3]))
        if k < 0.9:
            return ("lit", rng.choice(STRS))
        return ("lit", rng.choice(BYTESS))
    if rng.random() < 0.2:
        return ("un", rng.choice(UN_OPS), gen_tree(ctx, depth - 1, ints))
    op = rng.choice(["+", "-", "*", "//", "%", "&", "|", "^", "<<", ">>", "**", "+", "*", "/", "@"])
    return ("bin", op, gen_tree(ctx, depth - 1, ints), gen_tree(ctx, depth - 1, ints))


def tree_tokens(t: Any) -> list[str]:
    k = t[0]
    if k == "lit":
        return [tok(t[1])]
    if k in ("T", "F"):
        return [k]
    if k == "ref":
        return ["R1" if t[1] else "R0", tok(t[2])]
    if k == "bin":
        return [t[1]] + tree_tokens(t[2]) + tree_tokens(t[3])
    return ["u" + t[1]] + tree_tokens(t[2])


class Unsafe(Exception):
    pass


def tree_eval(t: Any) -> Any:
    """CPython's value of the tree.  *Every* sub-tree is evaluated (the folder folds both operands even
    when the other one is not foldable), so that an expensive application anywhere → Unsafe.
    Raises the Python exception of the first failing application in evaluation order."""
    kind, payload = _tree_eval(t)
    if kind == "raise":
        raise payload
    return payload


def _tree_eval(t: Any) -> tuple[str, Any]:
    k = t[0]
    if k == "lit":
        return "ok", t[1]
    if k == "T":
        return "ok", True
    if k == "F":
        return "ok", False
    if k == "ref":
        return "ok", t[2]
    if k == "bin":
        lk, l = _tree_eval(t[2])
        rk, r = _tree_eval(t[3])
        if lk == "raise":
            return lk, l
        if rk == "raise":
            return rk, r
        if not safe_operands(t[1], l, r):
            raise Unsafe()
        try:
            v = PYOP[t[1]](l, r)
        except (ZeroDivisionError, ValueError, TypeError, OverflowError) as e:
            return "raise", e
        if isinstance(v, int) and v.bit_length() > 12000 or isinstance(v, (str, bytes)) and len(v) > 5000:
            raise Unsafe()
        return "ok", v
    ek, e = _tree_eval(t[2])
    if ek == "raise":
        return ek, e
    try:
        return "ok", PYUN[t[1]](e)
    except TypeError as ex:
        return "raise", ex


def tree_overflows(t: Any) -> bool:
    """some operator application inside the tree raises OverflowError in CPython — there the real folder
    raises too (F24) and the Lean model (which has no 'folder raises' outcome) is not consulted"""
    k = t[0]
    if k == "bin":
        if tree_overflows(t[2]) or tree_overflows(t[3]):
            return True
        (lk, l), (rk, r) = _tree_eval(t[2]), _tree_eval(t[3])
        if lk == "ok" and rk == "ok":
            try:
                PYOP[t[1]](l, r)
            except OverflowError:
                return True
            except Exception:  # noqa: BLE001
                return False
        return False
    if k == "un":
        return tree_overflows(t[2])
    return False


def tree_nodes(t: Any, mypyc: bool):
    """the real AST for the tree (hand-built nodes, as the folders receive them after semantic analysis)"""
    from mypy.nodes import BytesExpr, IntExpr, NameExpr, OpExpr, StrExpr, UnaryExpr, Var
    k = t[0]
    if k == "lit":
        v = t[1]
        if isinstance(v, int):
            return IntExpr(v)
        if isinstance(v, str):
            return StrExpr(v)
        # BytesExpr holds the escaped source text
        return BytesExpr("".join("\\x%02x" % c for c in v))
    if k in ("T", "F"):
        return NameExpr("True" if k == "T" else "False")
    if k == "ref":
        n = NameExpr("K")
        var = Var("K")
        var._fullname = ("m.K" if t[1] else "other.K")
        var.is_final = True
        var.final_value = t[2]
        n.node = var
        return n
    if k == "bin":
        return OpExpr(t[1], tree_nodes(t[2], mypyc), tree_nodes(t[3], mypyc))
    return UnaryExpr(t[1], tree_nodes(t[2], mypyc))


def tree_src(t: Any, names: dict) -> str:
    k = t[0]
    if k == "lit":
        return repr(t[1])
    if k == "T":
        return "True"
    if k == "F":
        return "False"
    if k == "ref":
        key = (t[1], repr(t[2]))
        if key not in names:
            names[key] = ("K%d" if t[1] else "OK%d") % len(names)
        return names[key]
    if k == "bin":
        return f"({tree_src(t[2], names)} {t[1]} {tree_src(t[3], names)})"
    return f"({t[1]}{tree_src(t[2], names)})"


def tree_has(t: Any, pred) -> bool:
    if pred(t):
        return True
    if t[0] == "bin":
        return tree_has(t[2], pred) or tree_has(t[3], pred)
    if t[0] == "un":
        return tree_has(t[2], pred)
    return False


# ------------------------------------------------------------------------------------ real folders
def real_call(fn, *args) -> tuple[str, Any]:
    """(canonical result, raw) — a folder that raises is reported as `exc:<Type>`"""
    try:
        v = fn(*args)
    except Exception as e:  # noqa: BLE001 - the folder must not raise at all
        return "exc:" + type(e).__name__, e
    return canon(v), v


# ------------------------------------------------------------------------------------ reporting
def describe(v: Any) -> str:
    r = repr(v)
    return type(v).__name__ + ":" + (r if len(r) < 80 else r[:40] + "…" + r[-20:])


def operand_class(v: Any) -> str:
    if isinstance(v, bool):
        return "bool"
    if isinstance(v, int):
        return "int" if v.bit_length() <= 1024 else "hugeint"
    return type(v).__name__


def report_once(ctx: Ctx, observed: dict, what: str, detail: Any) -> None:
    """one report per distinct observed-dict (a class of failures), not one per case"""
    seen = ctx.__dict__.setdefault("_fold_reported", {})
    key = json.dumps(observed, sort_keys=True)
    seen[key] = seen.get(key, 0) + 1
    if seen[key] == 1:
        ctx.report(observed, what, detail)


def pend(ctx: Ctx, what: str, detail: dict) -> None:
    """a correspondence difference on a case where the property holds: reported at the end of the run,
    and only if the search found no folded value that differs from CPython"""
    lst = ctx.__dict__.setdefault("_fold_pending", [])
    if len(lst) < 3:
        lst.append((what, detail))


def pretty(c: str) -> str:
    """canonical result for messages: floats also in decimal"""
    if c.startswith("float:") and not c.startswith("float:complex:"):
        try:
            return f"float:{float.fromhex(c[6:])!r} ({c[6:]})"
        except ValueError:
            return c
    return c if len(c) < 120 else c[:60] + "…" + c[-20:]


def property_check(ctx: Ctx, which: str, kind: str, op: str, operands: list, real_c: str, real_raw: Any,
                   want_c: str, want_exact: str | None = None) -> bool:
    """The property's own oracle on one case.  Returns True when it holds.
    real_c: canonical folder result; want_c: canonical CPython result (or raise:X)."""
    detail = {"sub": "fold", "folder": which, "kind": kind, "op": op,
              "operands": [describe(o) for o in operands], "operands_tok": None,
              "folder_result": real_c if not real_c.startswith("exc:") else real_c + " " + str(real_raw)[:100],
              "cpython": want_c}
    try:
        detail["operands_tok"] = [tok(o) for o in operands]
    except ValueError:
        detail["operands_repr"] = [repr(o) for o in operands]
    classes = [operand_class(o) for o in operands]
    if real_c.startswith("exc:"):
        report_once(ctx, {"sub": "fold", "class": "folder-raises", "exception": real_c[4:],
                    "cpython": want_c},
                   f"{which} folder raised {real_c[4:]} on {op} {[describe(o) for o in operands]} "
                   f"(CPython: {want_c})", detail)
        return False
    if real_c == "none":
        return True                      # declining to fold is always allowed
    ok = real_c == want_c
    if ok and want_exact is not None and real_c.startswith("float:"):
        ok = canon_exact(real_raw) == want_exact
    if not ok:
        report_once(ctx, {"sub": "fold", "class": "folded-value-differs", "op": ("u" if kind == "U" else "") + op,
                    "operand_types": ",".join(classes), "folder_result_type": type(real_raw).__name__},
                   f"{which} folds {op} {[describe(o) for o in operands]} to {describe(real_raw)}, "
                   f"CPython gives {pretty(want_c)}", detail)
    return ok


# ------------------------------------------------------------------------------------ main pieces
def run_grid(ctx: Ctx) -> None:
    from mypy.constant_fold import constant_fold_binary_op, constant_fold_unary_op
    from mypyc.irbuild.constant_fold import constant_fold_binary_op_extended

    cases = binary_cases(ctx)
    ints = boundary_ints(ctx)
    ucases = [(op, v) for op in UN_OPS for v in ints + [True, False] + STRS[:2] + BYTESS[:2]]
    lines, meta = [], []
    for op, a, b in cases:
        has_bytes = isinstance(a, bytes) or isinstance(b, bytes)
        for ext in (0, 1):
            if ext == 0 and has_bytes:
                continue                 # bytes are not in mypy's ConstantValue
            lines.append(f"B {ext} {op} {tok(a)} {tok(b)}")
            meta.append(("B", ext, op, [a, b]))
    for op, v in ucases:
        for ext in (0, 1):
            if ext == 0 and isinstance(v, bytes):
                continue
            lines.append(f"U {ext} u{op} {tok(v)}")
            meta.append(("U", ext, op, [v]))
    model = ctx.lean_driver(DRIVER, lines)
    if len(model) != len(lines):
        raise ToolFailure(f"fold driver returned {len(model)} lines for {len(lines)} cases")
    nd_fold = nd_py = 0
    for (kind, ext, op, ops), mline, line in zip(meta, model, lines):
        try:
            mfold, mpy = mline.split(" ")
            mfold, mpy = mfold[5:], mpy[3:]
        except ValueError:
            raise ToolFailure(f"fold driver: bad output {mline!r} for {line!r}")
        which = "mypyc" if ext else "mypy"
        if kind == "B":
            fn = constant_fold_binary_op_extended if ext else constant_fold_binary_op
            real_c, real_raw = real_call(fn, op, *ops)
            want = py_eval(PYOP[op], *ops)
        else:
            if ext and isinstance(ops[0], bytes):
                real_c, real_raw = "none", None      # mypyc's constant_fold_expr guard (checked on trees)
            else:
                real_c, real_raw = real_call(constant_fold_unary_op, op, *ops)
            want = py_eval(PYUN[op], *ops)
        ctx.case((kind, ext, op, [tok(o) for o in ops]),
                 nontrivial=not all(isinstance(o, int) and abs(int(o)) <= 1 for o in ops))
        ctx.dist("fold_op", ("u" if kind == "U" else "") + op)
        ctx.dist("fold_operand_types", ",".join(operand_class(o) for o in ops))
        ctx.dist("fold_cpython_outcome", want if want.startswith("raise") else ("float" if want.startswith("float:") else "value"))
        # (b) CPython vs the model of CPython — a disagreement is a defect of the model, not of mypy
        if mpy != "notmodelled" and not model_agrees(mpy, want):
            nd_py += 1
            raise ToolFailure(f"Python-semantics model disagrees with CPython on {line!r}: model {mpy}, CPython {want}")
        if mpy == "notmodelled" and not (op == "%" and isinstance(ops[0], (str, bytes))):
            raise ToolFailure(f"model says notmodelled outside printf formatting: {line!r}")
        # the property itself on the real folder
        holds = property_check(ctx, which, kind, op, ops, real_c, real_raw, want)
        # (a) real folder vs model of the folder
        if not model_agrees(mfold, real_c) and not real_c.startswith("exc:"):
            nd_fold += 1
            ctx.count("disagreements_checked")
            if holds:
                pend(ctx, f"fold correspondence broken: {which} folder gives {real_c}, model {mfold} on {line!r}; "
                          f"CPython gives {want} (no folded value was seen to be wrong; the model no longer describes the code)",
                     {"sub": "fold", "broken": f"correspondence Driver/C12Fold `{kind}` vs {which} folder",
                      "kind": kind, "folder": which, "op": op, "operands_tok": [tok(o) for o in ops],
                      "folder_result": real_c, "model": mfold, "cpython": want})
    ctx.count("traces_validated_against_impl", len(lines))
    ctx.coverage["fold_grid_cases"] = len(lines)
    ctx.coverage["fold_grid_disagreements"] = nd_fold
    ctx.sample({"fold_case": lines[len(lines) // 3], "model": model[len(lines) // 3]})


def guard_boundary_cases(ctx: Ctx, max_int: int, max_str: int) -> list[tuple[str, Any, Any, tuple]]:
    """operands whose *guard expression* (the operand-size test of commit f18fd55) is just below / at / just
    above the bound: (op, left, right, folders).  All-ones operands make the result size equal the guard
    expression, so a missing guard shows as a result larger than the declared bound."""
    rng = ctx.rng
    M, S = max_int, max_str

    def num(bits: int, ones: bool = True, neg: bool = False) -> int:
        if bits <= 0:
            return 0
        v = (1 << bits) - 1 if ones else 1 << (bits - 1)
        return -v if neg else v

    both = (0, 1)
    cases: list[tuple[str, Any, Any, tuple]] = []
    for d in (-1, 0, 1):
        for bl in (1, 2, 17, M // 2, M - 2):
            br = M + d - bl
            cases.append(("*", num(bl), num(br), both))
            cases.append(("*", num(br, ones=False, neg=True), num(bl, neg=rng.random() < 0.5), both))
        cases.append(("*", True, num(M + d - 1), both))
        for bl in (1, 2, 17, M // 2):
            cases.append(("<<", num(bl), M + d - bl, both))
            cases.append(("<<", num(bl, ones=False, neg=True), M + d - bl, both))
        cases.append(("<<", True, M + d - 1, both))
        for base in (1, -1, 2, 3, -3, 7, 5, 65535, 65537, num(40)):
            bl = base.bit_length()
            cases.append(("**", base, M // bl + d, both))
        for ll in (0, 1, S // 2, S - 1):
            cases.append(("+", "a" * ll, "b" * (S + d - ll), both))
            cases.append(("+", b"a" * ll, b"\xff" * (S + d - ll), (1,)))
        for unit in ("a", "ab", "\u00e9xy", "abcdefg"):
            n = S // len(unit) + d
            cases.append(("*", unit, n, both))
            cases.append(("*", n, unit, both))
            cases.append(("*", unit.encode("latin-1"), n, (1,)))
            cases.append(("*", n, unit.encode("latin-1"), (1,)))
    # corners: products that are small although an operand is large; counts outside ssize_t
    cases += [("<<", 0, M + 5, both), ("**", 0, M + 5, both), ("**", 1, M + 1, both), ("**", -1, M + 2, both),
              ("*", 0, num(M + 3), both), ("*", "", S + 7, both), ("*", S + 7, "", both), ("*", "ab", -(S + 1), both),
              ("*", b"", S + 7, (1,)), ("*", "a", 2 ** 64, both), ("*", -(2 ** 70), "a", both),
              ("*", b"a", 2 ** 64, (1,)), ("*", "", 2 ** 64, both), ("+", "", "", both),
              ("*", True, "a" * S, both), ("*", "a" * (S + 1), True, both), ("*", "a" * (S + 1), False, both)]
    return cases


def run_guard_boundary(ctx: Ctx) -> None:
    """the size guards of the folders (MAX_FOLDED_INT_BITS / MAX_FOLDED_STR_LENGTH): model vs real folder vs
    CPython on operands around each bound; on a tree without the constants the same operands are used with
    the bound 65536 (everything is folded, by model and code alike)."""
    import mypy.constant_fold as cf
    from mypy.constant_fold import constant_fold_binary_op
    from mypyc.irbuild.constant_fold import constant_fold_binary_op_extended
    live_int, live_str = getattr(cf, "MAX_FOLDED_INT_BITS", None), getattr(cf, "MAX_FOLDED_STR_LENGTH", None)
    declared = isinstance(live_int, int) and isinstance(live_str, int)
    M = live_int if isinstance(live_int, int) and 64 <= live_int <= 1 << 20 else 1 << 16
    S = live_str if isinstance(live_str, int) and 64 <= live_str <= 1 << 20 else 1 << 16
    ctx.coverage["fold_guard_bounds"] = {"MAX_FOLDED_INT_BITS": live_int, "MAX_FOLDED_STR_LENGTH": live_str,
                                         "bounds_used_for_operands": [M, S]}
    cases = guard_boundary_cases(ctx, M, S)
    lines, meta = [], []
    for op, a, b, folders in cases:
        for ext in folders:
            lines.append(f"G {ext} {op} {tok(a)} {tok(b)}")
            meta.append((ext, op, a, b))
    model = ctx.lean_driver(DRIVER, lines)
    if len(model) != len(lines):
        raise ToolFailure("fold driver: wrong number of output lines for the guard-boundary stream")
    nd = 0
    for (ext, op, a, b), mline in zip(meta, model):
        try:
            mfold, mpy, mbelow = mline.split(" ")
            mfold, mpy, mbelow = mfold[5:], mpy[3:], mbelow[6:]
        except ValueError:
            raise ToolFailure(f"fold driver: bad output {mline[:200]!r}")
        which = "mypyc" if ext else "mypy"
        fn = constant_fold_binary_op_extended if ext else constant_fold_binary_op
        real_c, real_raw = real_call(fn, op, a, b)
        want = py_eval(PYOP[op], a, b)
        short = f"{op} {describe(a)} {describe(b)}"
        ctx.case(("G", ext, op, operand_class(a), operand_class(b), hash((tok(a), tok(b)))))
        ctx.dist("fold_guard_side", f"{op}:{'below' if mbelow == '1' else 'above'}")
        ctx.dist("fold_guard_real", f"{op}:{'declined' if real_c == 'none' else 'raised' if real_c.startswith('exc:') else 'folded'}")
        if mpy != "notmodelled" and not model_agrees(mpy, want):
            raise ToolFailure(f"Python-semantics model disagrees with CPython on guard-boundary case {short}")
        holds = property_check(ctx, which, "B", op, [a, b], real_c, real_raw, want)
        # a tree that declares a bound must not fold past it
        if declared and not real_c.startswith("exc:") and real_c != "none":
            too_big = (op in ("*", "<<", "**") and type(real_raw) is int and real_raw.bit_length() > max(1, live_int)) or \
                      (op in ("+", "*") and isinstance(real_raw, (str, bytes)) and len(real_raw) > live_str)
            if too_big:
                holds = False
                size = real_raw.bit_length() if isinstance(real_raw, int) else len(real_raw)
                report_once(ctx, {"sub": "fold", "class": "folded-value-exceeds-declared-bound", "op": op,
                                  "folder": which, "result_type": type(real_raw).__name__},
                            f"{which} folds {short} to a value of size {size} although the tree declares "
                            f"MAX_FOLDED_INT_BITS={live_int} / MAX_FOLDED_STR_LENGTH={live_str}",
                            {"sub": "fold", "folder": which, "kind": "G", "op": op,
                             "operands_tok": [tok(a)[:60] + ("…" if len(tok(a)) > 60 else ""), tok(b)[:60]],
                             "operands": [describe(a), describe(b)], "result_size": size})
        if not model_agrees(mfold, real_c) and not real_c.startswith("exc:"):
            nd += 1
            ctx.count("disagreements_checked")
            if holds:
                pend(ctx, f"fold correspondence broken at a size guard: {which} folder gives "
                          f"{real_c[:40]}, model {mfold[:40]} (model: {'below' if mbelow == '1' else 'above'} the guard) on {short}; "
                          f"CPython gives {want[:40]}",
                     {"sub": "fold", "broken": f"correspondence Driver/C12Fold `G` vs {which} folder (size guards)",
                      "kind": "G", "folder": which, "op": op, "operands": [describe(a), describe(b)],
                      "folder_result": real_c[:80], "model": mfold[:80], "model_below_guard": mbelow})
    ctx.count("traces_validated_against_impl", len(lines))
    ctx.coverage["fold_guard_boundary_cases"] = len(lines)
    ctx.coverage["fold_guard_boundary_disagreements"] = nd


def truediv_pairs(ctx: Ctx) -> list[tuple[int, int]]:
    """int / int where rounding matters: an operand above 2**53 that is not exactly representable (converting
    the operands to float first rounds twice), quotients near ties, and the OverflowError threshold"""
    rng = ctx.rng
    big = []
    for k in (53, 54, 55, 60, 63, 64, 100):
        big += [2 ** k + d for d in (-3, -1, 1, 3, 5)]
    big += [10 ** k for k in (16, 17, 22, 23, 24, 30, 40, 100)] + [10 ** 23 + 1, 3 ** 40, 7 ** 30 * 11 ** 9, 123456789 ** 5]
    big += [rng.getrandbits(rng.choice([60, 64, 80, 128, 200])) | 1 for _ in range(ctx.pick(120, 1500))]
    small = [1, 2, 3, 5, 7, 9, 10, 11, 13, 49, 1000, 2 ** 10 + 1, 10 ** 6 + 3]
    div = small + [10 ** k for k in (15, 16, 22)] + [2 ** 53 + 1, 2 ** 60 - 1] + \
        [rng.getrandbits(rng.choice([20, 40, 64, 100])) | 1 for _ in range(ctx.pick(12, 60))]
    pairs = []
    for a in big:
        for b in (rng.sample(div, ctx.pick(7, 20)) + [3, 7]):
            sa, sb = rng.choice([1, 1, -1]), rng.choice([1, 1, -1])
            pairs.append((sa * a, sb * b))
        pairs.append((rng.choice(small), a))            # small / big
    # both operands big and inexact
    for _ in range(ctx.pick(150, 1500)):
        pairs.append((rng.getrandbits(rng.choice([70, 130, 200])) | 1, (rng.getrandbits(rng.choice([60, 65, 120])) | 1) * rng.choice([1, -1])))
    # OverflowError threshold: |a / b| around 2**1024 - 2**970, and plainly beyond
    T = 2 ** 1024 - 2 ** 970
    for b in (1, 3, -7, 2 ** 60 + 1, 10 ** 30):
        for d in (-2, -1, 0, 1):
            pairs.append((T * abs(b) + d, b))
            pairs.append((-(T * abs(b) + d), b))
    pairs += [(10 ** 400, 1), (10 ** 400, 10 ** 100), (1, 10 ** 400), (-(10 ** 400), 7), (2 ** 53 + 1, 3), (10 ** 23, 7),
              (True, 3), (2 ** 53 + 1, True), (0, 5), (5, 0), (0, 0)]
    return pairs


def run_truediv(ctx: Ctx) -> None:
    """true division of ints: model (oracle `quot`) vs both real folders vs CPython, floats compared bit for bit"""
    from mypy.constant_fold import constant_fold_binary_op
    from mypyc.irbuild.constant_fold import constant_fold_binary_op_extended
    pairs = truediv_pairs(ctx)
    lines = [f"B {ext} / {tok(a)} {tok(b)}" for a, b in pairs for ext in (0, 1)]
    model = ctx.lean_driver(DRIVER, lines)
    if len(model) != len(lines):
        raise ToolFailure("fold driver: wrong number of output lines for the true-division stream")
    nd = i = 0
    for a, b in pairs:
        want = py_eval(operator.truediv, a, b)
        inexact = any(isinstance(x, int) and abs(int(x)) > 2 ** 53 and float(x) != x
                      for x in (a, b) if abs(int(x)) < 2 ** 1000)
        for ext in (0, 1):
            mline = model[i]
            i += 1
            mfold, mpy = mline.split(" ")
            mfold, mpy = mfold[5:], mpy[3:]
            which = "mypyc" if ext else "mypy"
            fn = constant_fold_binary_op_extended if ext else constant_fold_binary_op
            real_c, real_raw = real_call(fn, "/", a, b)
            ctx.case(("D", ext, tok(a), tok(b)), nontrivial=inexact)
            ctx.dist("fold_truediv", "inexact-operand" if inexact else ("raises" if want.startswith("raise") else "exact-operands"))
            if not model_agrees(mpy, want):
                raise ToolFailure(f"Python-semantics model disagrees with CPython on {a} / {b}: model {mpy}, CPython {want}")
            holds = property_check(ctx, which, "B", "/", [a, b], real_c, real_raw, want)
            if not model_agrees(mfold, real_c) and not real_c.startswith("exc:"):
                nd += 1
                ctx.count("disagreements_checked")
                if holds:
                    pend(ctx, f"fold correspondence broken on int true division: {which} folder gives {real_c}, model {mfold} "
                              f"on {describe(a)} / {describe(b)}; CPython gives {want}",
                         {"sub": "fold", "broken": f"correspondence Driver/C12Fold `B /` vs {which} folder",
                          "kind": "B", "folder": which, "op": "/", "operands_tok": [tok(a), tok(b)],
                          "folder_result": real_c, "model": mfold, "cpython": want})
    ctx.count("traces_validated_against_impl", len(lines))
    ctx.coverage["fold_truediv_cases"] = len(lines)
    ctx.coverage["fold_truediv_disagreements"] = nd


def run_floats(ctx: Ctx) -> None:
    """float/complex operands: no Lean model; the real folder against CPython directly"""
    from mypy.constant_fold import constant_fold_binary_op, constant_fold_unary_op
    n = 0
    for op, a, b in float_cases(ctx):
        real_c, real_raw = real_call(constant_fold_binary_op, op, a, b)
        try:
            w = PYOP[op](a, b)
            want, want_exact = canon(w), canon_exact(w)
        except Exception as e:  # noqa: BLE001
            want, want_exact = "raise:" + type(e).__name__, None
        ctx.case(("F", op, repr(a), repr(b)))
        ctx.dist("fold_float_op", op)
        property_check(ctx, "mypy", "B", op, [a, b], real_c, real_raw, want, want_exact)
        n += 1
    for op in UN_OPS:
        for a in FLOATS + [1j]:
            real_c, real_raw = real_call(constant_fold_unary_op, op, a)
            try:
                w = PYUN[op](a)
                want, want_exact = canon(w), canon_exact(w)
            except Exception as e:  # noqa: BLE001
                want, want_exact = "raise:" + type(e).__name__, None
            ctx.case(("FU", op, repr(a)))
            property_check(ctx, "mypy", "U", op, [a], real_c, real_raw, want, want_exact)
            n += 1
    ctx.coverage["fold_float_cases"] = n


def run_trees(ctx: Ctx) -> None:
    from mypy.constant_fold import constant_fold_expr as mypy_fold
    from mypyc.irbuild.constant_fold import constant_fold_expr as mypyc_fold
    ints = boundary_ints(ctx)
    ntrees = ctx.pick(2500, 30000)
    trees, wants = [], []
    tries = 0
    while len(trees) < ntrees and tries < ntrees * 4:
        tries += 1
        t = gen_tree(ctx, ctx.rng.choice([1, 2, 2, 3, 3]), ints)
        try:
            v = tree_eval(t)
            want = canon(v)
        except Unsafe:
            continue
        except (ZeroDivisionError, ValueError, TypeError, OverflowError) as e:
            want = "raise:" + type(e).__name__
        except MemoryError:
            continue
        trees.append(t)
        wants.append(want)
    lines, meta, to_driver = [], [], []
    for t, w in zip(trees, wants):
        toks = " ".join(tree_tokens(t))
        ovf = tree_overflows(t)
        for ext in (0, 1):
            lines.append(f"E {ext} {toks}")
            meta.append((ext, t, w))
            to_driver.append(not ovf)
    out = iter(ctx.lean_driver(DRIVER, [ln for ln, d in zip(lines, to_driver) if d]))
    try:
        model = [next(out) if d else "fold=skip py=skip" for d in to_driver]
    except StopIteration:
        raise ToolFailure("fold driver: wrong number of output lines for trees")
    nd = 0
    for (ext, t, want), mline, line in zip(meta, model, lines):
        mfold, mpy = mline.split(" ")
        mfold, mpy = mfold[5:], mpy[3:]
        skip_model = mfold == "skip"
        if skip_model:
            ctx.count("fold_trees_outside_model_overflow")
            mfold, mpy = "none", "notmodelled"
        which = "mypyc" if ext else "mypy"
        node = tree_nodes(t, bool(ext))
        if ext:
            real_c, real_raw = real_call(mypyc_fold, None, node)
        else:
            real_c, real_raw = real_call(mypy_fold, node, "m")
        ctx.case(("E", ext, line), nontrivial=True)
        ctx.dist("fold_tree_outcome", real_c if real_c == "none" or real_c.startswith("exc") else "folded:" + real_c[0])
        ctx.dist("fold_tree_cpython", want if want.startswith("raise") else "value")
        if mpy != "notmodelled" and not model_agrees(mpy, want):
            raise ToolFailure(f"Python-semantics model disagrees with CPython on {line!r}: model {mpy}, CPython {want}")
        # property: a folded value is CPython's value
        holds = True
        if real_c.startswith("exc:") or (real_c != "none" and real_c != want):
            holds = False
            src = tree_src(t, {})
            obs, where = first_wrong_subtree(t, ext)
            report_once(ctx, obs, f"{which} constant_fold_expr gives {real_c} for {src}, CPython gives {want} ({where})",
                        {"sub": "fold", "folder": which, "kind": "E", "tokens": line, "source": src,
                         "folder_result": real_c, "cpython": want})
        # a float below the root is outside the model: compare the real folder with CPython only
        float_path = (real_c.startswith("float:") and not mfold.startswith("quot:")) or \
            (mfold == "none" and mpy == "notmodelled") or skip_model
        if not float_path and not model_agrees(mfold, real_c) and not real_c.startswith("exc:"):
            nd += 1
            ctx.count("disagreements_checked")
            if holds:
                pend(ctx, f"fold correspondence broken on an expression tree: {which} constant_fold_expr gives {real_c}, "
                          f"model {mfold} on {tree_src(t, {})}; CPython gives {want}",
                     {"sub": "fold", "broken": f"correspondence Driver/C12Fold `E` vs {which} constant_fold_expr",
                      "kind": "E", "folder": which, "tokens": line, "folder_result": real_c, "model": mfold,
                      "cpython": want})
    ctx.count("traces_validated_against_impl", len(lines))
    ctx.coverage["fold_tree_cases"] = len(lines)
    ctx.coverage["fold_tree_disagreements"] = nd
    if lines:
        ctx.sample({"fold_tree": lines[0], "model": model[0]})


def first_wrong_subtree(t: Any, ext: int) -> tuple[dict, str]:
    """(observed-dict for known-finding matching, description) of the innermost operator application the
    real folder gets wrong (raises, or returns a value CPython does not compute)"""
    from mypy.constant_fold import constant_fold_binary_op, constant_fold_unary_op
    from mypyc.irbuild.constant_fold import constant_fold_binary_op_extended

    def judge(op, unary, operands):
        if unary:
            fn, pyf = constant_fold_unary_op, PYUN[op]
            args = operands
        else:
            fn, pyf = (constant_fold_binary_op_extended if ext else constant_fold_binary_op), PYOP[op]
            args = operands
        try:
            want = canon(pyf(*args))
        except Exception as e:  # noqa: BLE001
            want = "raise:" + type(e).__name__
        got, raw = (real_call(fn, op, *args))
        where = f"{op} on {[describe(o) for o in args]}: folder {got}, CPython {want}"
        if got.startswith("exc:"):
            return {"sub": "fold", "class": "folder-raises", "exception": got[4:], "cpython": want}, where
        if got not in ("none", want):
            return {"sub": "fold", "class": "folded-value-differs", "op": ("u" if unary else "") + op,
                    "operand_types": ",".join(operand_class(o) for o in args),
                    "folder_result_type": type(raw).__name__}, where
        return None

    def walk(x):
        k = x[0]
        if k == "bin":
            for sub in (x[2], x[3]):
                r = walk(sub)
                if r:
                    return r
            (lk, l), (rk, r) = _tree_eval(x[2]), _tree_eval(x[3])
            if lk == "ok" and rk == "ok":
                return judge(x[1], False, [l, r])
        elif k == "un":
            r = walk(x[2])
            if r:
                return r
            ek, e = _tree_eval(x[2])
            if ek == "ok":
                return judge(x[1], True, [e])
        return None
    try:
        res = walk(t)
    except Unsafe:
        res = None
    return res or ({"sub": "fold", "class": "folded-value-differs", "op": "tree"}, "not localised")


def run_end_to_end(ctx: Ctx) -> None:
    """`X: Final = <expr>` through a real build: parser → semantic analysis → Var.final_value."""
    from mypy import build as mbuild
    from mypy.constant_fold import constant_fold_expr
    from mypy.fscache import FileSystemCache
    from mypy.modulefinder import BuildSource
    from mypy.options import Options
    ints = [0, 1, 2, 3, 7, 8, 63, 64, 255, 2 ** 31, 2 ** 63, 2 ** 64 + 1, 10 ** 30]
    n = ctx.pick(400, 3000)
    trees, wants = [], []
    tries = 0
    while len(trees) < n and tries < 6 * n:
        tries += 1
        t = gen_tree(ctx, ctx.rng.choice([1, 2, 3]), ints)
        # source text has no negative literals and no bytes in mypy's folder; keep `/` (float path) out
        if tree_has(t, lambda x: x[0] == "lit" and (isinstance(x[1], bytes) or (isinstance(x[1], int) and x[1] < 0))):
            continue
        if tree_has(t, lambda x: x[0] == "ref" and isinstance(x[2], bool)):
            continue        # `K: Final = True` is covered by the T/F leaves
        try:
            want = canon(tree_eval(t))
        except Unsafe:
            continue
        except (ZeroDivisionError, ValueError, TypeError, OverflowError) as e:
            want = "raise:" + type(e).__name__
        if tree_overflows(t):
            continue
        # a folder that raises takes the whole build down; those are found (and reported) by run_trees
        if real_call(constant_fold_expr, tree_nodes(t, False), "m")[0].startswith("exc:"):
            ctx.count("fold_e2e_skipped_folder_raises")
            continue
        trees.append(t)
        wants.append(want)
    names: dict = {}
    body = []
    for i, t in enumerate(trees):
        body.append(f"X{i}: Final = {tree_src(t, names)}")
    head_m = ["from typing import Final", "from other import *"]
    head_o = ["from typing import Final"]
    for (same, rv), nm in names.items():
        (head_m if same else head_o).append(f"{nm}: Final = {rv}")
    src_m = "\n".join(head_m + body) + "\n"
    src_o = "\n".join(head_o) + "\n"
    opts = Options()
    opts.incremental = False
    opts.cache_dir = "/dev/null"
    opts.show_traceback = True
    msgs: list[str] = []
    try:
        res = mbuild.build([BuildSource("m.py", "m", src_m), BuildSource("other.py", "other", src_o)], opts,
                           flush_errors=lambda f, m, s: msgs.extend(m), fscache=FileSystemCache())
    except Exception as e:  # noqa: BLE001
        # a folder that raises takes the whole build down: bisect to the line
        culprit = None
        for i, t in enumerate(trees):
            r, _ = real_call(__import__("mypy.constant_fold").constant_fold.constant_fold_expr, tree_nodes(t, False), "m")
            if r.startswith("exc:"):
                culprit = (i, t, r)
                break
        if culprit is None:
            raise ToolFailure(f"end-to-end fold build failed: {type(e).__name__}: {e}")
        i, t, r = culprit
        obs, where = first_wrong_subtree(t, 0)
        report_once(ctx, obs, f"mypy crashes ({r[4:]}) on `X: Final = {tree_src(t, {})}` ({where})",
                   {"sub": "fold", "kind": "E", "folder": "mypy", "tokens": "E 0 " + " ".join(tree_tokens(t))})
        return
    tree = res.files["m"]
    lines = ["E 0 " + " ".join(tree_tokens(t)) for t in trees]
    model = ctx.lean_driver(DRIVER, lines)
    nd = 0
    for i, (t, want, mline) in enumerate(zip(trees, wants, model)):
        mfold, mpy = mline.split(" ")
        mfold, mpy = mfold[5:], mpy[3:]
        sym = tree.names.get(f"X{i}")
        if sym is None or sym.node is None:
            raise ToolFailure(f"end-to-end: X{i} missing from the symbol table")
        fv = getattr(sym.node, "final_value", None)
        real_c = canon(fv)
        ctx.case(("E2E", lines[i]))
        ctx.dist("fold_e2e_outcome", "none" if real_c == "none" else ("float" if real_c.startswith("float:") else "folded"))
        if mpy != "notmodelled" and not model_agrees(mpy, want):
            raise ToolFailure(f"Python-semantics model disagrees with CPython on {lines[i]!r}: {mpy} vs {want}")
        holds = real_c == "none" or real_c == want
        if not holds:
            obs, where = first_wrong_subtree(t, 0)
            report_once(ctx, obs,
                       f"mypy records final_value {real_c} for `X: Final = {tree_src(t, {})}`, CPython gives {want} ({where})",
                       {"sub": "fold", "kind": "E2E", "folder": "mypy", "tokens": lines[i], "source": tree_src(t, {}),
                        "folder_result": real_c, "cpython": want})
        float_path = (real_c.startswith("float:") and not mfold.startswith("quot:")) or \
            (mfold == "none" and mpy == "notmodelled")
        if not float_path and not model_agrees(mfold, real_c):
            nd += 1
            ctx.count("disagreements_checked")
            if holds:
                pend(ctx, f"end-to-end fold correspondence broken: final_value {real_c}, model {mfold} for "
                          f"`X: Final = {tree_src(t, {})}` (CPython {want})",
                     {"sub": "fold", "broken": "correspondence Driver/C12Fold `E` vs Var.final_value after a build",
                      "kind": "E2E", "tokens": lines[i], "folder_result": real_c, "model": mfold})
    ctx.count("traces_validated_against_impl", len(trees))
    ctx.coverage["fold_e2e_cases"] = len(trees)
    ctx.coverage["fold_e2e_disagreements"] = nd


def run(ctx: Ctx) -> None:
    ctx.coverage["rule"] = (ctx.coverage.get("rule") or "") + \
        " | fold: boundary operand grid (0, ±1, ±2ᵏ±1, random up to 200 bits; bool, str, bytes) × 13 binary + 3 unary " \
        "operators for both folders; random expression trees to depth 3 with Final references; float/complex operands " \
        "against CPython only; `X: Final = expr` through a real build. Non-trivial: an operand other than 0/±1."
    from translate import c12fold
    c12fold.main()        # Gen/FoldCfg.lean: dispatch facts of the folder under check (feeds fold_unary_exact_status)
    proved = ctx.prove("MypyVerif.Props.C12Fold", MODEL_FILES)
    if c12fold.NOTE:
        ctx.broken_ties.append(c12fold.NOTE)
        proved = False
    ctx.trusted("translator translate/c12fold.py (one observed fact: what `+` returns for a bool operand)",
                "fold model: constant_fold_binary_op/_int_op/_unary_op/constant_fold_expr (mypy) and "
                "constant_fold_binary_op_extended/constant_fold_expr (mypyc) on int/bool/str/bytes; float and complex "
                "arithmetic is not modelled in Lean (correspondence with CPython only)",
                "CPython semantics model (Fold.pyBin/pyUnary) is compared with the running interpreter on every case",
                "exponents / left-shift counts fed to the real folder are bounded by 64 (F6, cost, is C20's)")
    before = len(ctx.violations)
    run_grid(ctx)
    run_guard_boundary(ctx)
    run_truediv(ctx)
    run_floats(ctx)
    run_trees(ctx)
    run_end_to_end(ctx)
    if len(ctx.violations) == before:
        for what, det in ctx.__dict__.get("_fold_pending", []):
            ctx.violation(what, det, found_input=False)
    if not proved and len(ctx.violations) == before:
        ctx.violation("Lean development for C12 constant folding no longer builds and no folded value was seen to differ "
                      "from CPython", {"sub": "fold", "broken": ctx.broken_ties}, found_input=False)


def replay(ctx: Ctx, det: dict) -> bool:
    if det.get("sub") != "fold":
        return False
    from mypy.constant_fold import constant_fold_binary_op, constant_fold_unary_op
    from mypyc.irbuild.constant_fold import constant_fold_binary_op_extended
    print(json.dumps(det, indent=1, default=str))
    if det.get("tokens"):
        print("model:", ctx.lean_driver(DRIVER, [det["tokens"]]))
        if det.get("source"):
            print("source:", det["source"])
    elif det.get("operands_tok"):
        ext = 1 if det.get("folder") == "mypyc" else 0
        k = det.get("kind", "B")
        op = det["op"]
        line = f"{k} {ext} {'u' if k == 'U' else ''}{op} " + " ".join(det["operands_tok"])
        print("model:", ctx.lean_driver(DRIVER, [line]))
        ops = [untok(x) for x in det["operands_tok"]]
        if k == "B":
            fn = constant_fold_binary_op_extended if ext else constant_fold_binary_op
            print("folder:", real_call(fn, op, *ops)[0], " cpython:", py_eval(PYOP[op], *ops))
        else:
            print("folder:", real_call(constant_fold_unary_op, op, *ops)[0], " cpython:", py_eval(PYUN[op], *ops))
    return True


def untok(t: str) -> Any:
    body = t[1:]
    if t[0] == "i":
        return int(body)
    if t[0] == "b":
        return body == "1"
    if t[0] == "s":
        return "".join(chr(int(x)) for x in body.split(",") if x)
    return bytes(int(x) for x in body.split(",") if x)
