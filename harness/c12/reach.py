"""C12 / reachability — statically decided sys.version_info / sys.platform tests have their run-time value.

1. Lean: Props/C12Reach (version_test_exact_partial, not_version_test_exact, platform_test_exact, soundness of
   the not/and/or tables for the mypy-time value and — partially — the run-time value).
2. Tie:
   a. mypy side — the real ``mypy.reachability.infer_condition_value`` on the expression parsed by mypy's
      parser, with ``Options.python_version / platform / always_true / always_false`` set, vs. the model's
      `infer` (every form × operator × literal × target × platform below);
   b. run-time side — CPython's ``eval`` of the same source with a fake ``sys`` whose ``version_info`` is a
      real ``sys.version_info``-typed 5-tuple (two micro/releaselevel/serial variants) vs. the model's `eval`;
   c. the observation point itself: ``Block.is_unreachable`` of ``if``/``else`` bodies after a real build
      (default parser and, when ``ast_serialize`` is installed, the native parser) vs. the model.
   The model input is derived from CPython's own ``ast`` of the source (not from mypy's tree): everything
   outside the modelled grammar becomes an opaque leaf whose run-time truth value is measured with ``eval``.
3. Search / the property's own oracle: whenever real mypy decides a condition, its claim (ALWAYS_TRUE and
   MYPY_FALSE: true at run time; ALWAYS_FALSE and MYPY_TRUE: false) is compared with what ``eval`` returns for
   every target/micro variant, and the mypy-time claim with ``eval`` under TYPE_CHECKING = MYPY = True.  A
   failing condition is shrunk to its smallest failing sub-expression before it is reported.
"""
from __future__ import annotations

import ast
import itertools
import warnings
import json
import os
import re
import sys
import time
import types
from concurrent.futures import ThreadPoolExecutor

from harness.vlib.core import Ctx, ToolFailure

MODEL_FILES = ["MypyVerif/Model/Reach.lean", "MypyVerif/Proofs/Reach.lean"]
DRIVER = "Driver/C12Reach.lean"

TVNAME = {1: "AT", 2: "MT", 3: "AF", 4: "MF", 5: "U"}
RT_CLAIM = {"AT": True, "MF": True, "AF": False, "MT": False}
MT_CLAIM = {"AT": True, "MT": True, "AF": False, "MF": False}
OPNAME = {ast.Eq: "eq", ast.NotEq: "ne", ast.Lt: "lt", ast.LtE: "le", ast.Gt: "gt", ast.GtE: "ge"}
OPSYM = {"eq": "==", "ne": "!=", "lt": "<", "le": "<=", "gt": ">", "ge": ">="}
REV = {"eq": "eq", "ne": "ne", "lt": "gt", "gt": "lt", "le": "ge", "ge": "le"}
IDENT = re.compile(r"^[A-Za-z0-9_]*$")
MICROS = [(0, "final", 0), (7, "candidate", 2)]

# which consider_sys_version_info the tree has (translate/reach_tables.open_slice_fix(), set in run()/replay());
# the model variant is chosen accordingly — theorem tables_match_source ties the flag to the source
OPEN_SLICE_FIX = False

# entries of the `or` / `and` tables whose *run-time* component is wrong on the unchanged tree
# (Lean: Reach.badOr / Reach.badAnd, theorem not_tables_runtime_sound); (table, left, right) ↦ value claimed
KNOWN_BAD_TABLE = {
    ("or", "U", "MT"): "MT", ("or", "MT", "U"): "MT", ("or", "MF", "MT"): "MT", ("or", "MT", "MF"): "MT",
    ("or", "MF", "AF"): "AF", ("or", "AF", "MF"): "AF",
    ("and", "U", "MF"): "MF", ("and", "MF", "U"): "MF", ("and", "MT", "MF"): "MF", ("and", "MF", "MT"): "MF",
}


# --------------------------------------------------------------------- source → model tokens (CPython's ast)
class Conv:
    """Condition source → prefix tokens of Driver/C12Reach; unmodelled sub-expressions become `opq k`."""

    def __init__(self):
        self.opaque: list[ast.expr] = []
        self.names: dict[str, ast.expr] = {}

    @staticmethod
    def _lit(n):
        if isinstance(n, ast.Constant) and type(n.value) is int:
            return f"i{n.value}"
        if isinstance(n, ast.UnaryOp) and isinstance(n.op, ast.USub) and isinstance(n.operand, ast.Constant) \
                and type(n.operand.value) is int:
            return f"n{n.operand.value}"
        return None

    @staticmethod
    def _sys_attr(n, name):
        return isinstance(n, ast.Attribute) and n.attr == name and isinstance(n.value, ast.Name) and n.value.id == "sys"

    def operand(self, n):
        if self._sys_attr(n, "version_info"):
            return ["vi"]
        if self._sys_attr(n, "platform"):
            return ["plat"]
        if isinstance(n, ast.Subscript) and self._sys_attr(n.value, "version_info"):
            s = n.slice
            if isinstance(s, ast.Slice):
                parts = []
                for b in (s.lower, s.upper):
                    if b is None:
                        parts.append("_")
                    else:
                        lit = self._lit(b)
                        if lit is None:
                            return None
                        parts.append(lit)
                if s.step is None:
                    parts.append("_")
                elif isinstance(s.step, ast.Constant) and type(s.step.value) is int:
                    parts.append(str(s.step.value))
                else:
                    return None
                return ["sl"] + parts
            lit = self._lit(s)
            return None if lit is None else ["idx", lit]
        lit = self._lit(n)
        if lit is not None:
            return ["lit", lit]
        if isinstance(n, ast.Tuple):
            lits = [self._lit(e) for e in n.elts]
            if any(x is None for x in lits):
                return None
            return ["tup", str(len(lits))] + lits
        if isinstance(n, ast.Constant) and type(n.value) is str and IDENT.match(n.value):
            return ["str", n.value or "%"]
        if isinstance(n, ast.JoinedStr) and all(isinstance(v, ast.Constant) and type(v.value) is str for v in n.values):
            v = "".join(v.value for v in n.values)          # an f-string without placeholders is a StrExpr for mypy
            if IDENT.match(v):
                return ["str", v or "%"]
        return None

    def cond(self, n):
        if isinstance(n, ast.UnaryOp) and isinstance(n.op, ast.Not):
            return ["not"] + self.cond(n.operand)
        if isinstance(n, ast.BoolOp):
            op = "and" if isinstance(n.op, ast.And) else "or"
            vals = [self.cond(v) for v in n.values]
            out = vals[-1]
            for v in reversed(vals[:-1]):             # mypy: a op (b op c)
                out = [op] + v + out
            return out
        if isinstance(n, ast.Name):
            self.names.setdefault(n.id, n)
            return ["name", n.id]
        if isinstance(n, ast.Attribute) and IDENT.match(n.attr):
            self.names.setdefault(n.attr, n)
            return ["name", n.attr]
        if isinstance(n, ast.Compare) and len(n.ops) == 1 and type(n.ops[0]) in OPNAME:
            l, r = self.operand(n.left), self.operand(n.comparators[0])
            if l is not None and r is not None:
                return ["cmp"] + l + [OPNAME[type(n.ops[0])]] + r
        if isinstance(n, ast.Call) and isinstance(n.func, ast.Attribute) and n.func.attr in ("startswith", "endswith") \
                and len(n.args) + len(n.keywords) == 1:
            # one argument; passed by keyword it is the same CallExpr.args for mypy and a TypeError at run time
            a = n.args[0] if n.args else (n.keywords[0].value if n.keywords[0].arg is not None else None)
            recv, arg = self.operand(n.func.value), (self.operand(a) if a is not None and not isinstance(a, ast.Starred) else None)
            if recv is not None and arg is not None:
                return ["call" if n.args else "callkw"] + recv + [n.func.attr] + arg
        self.opaque.append(n)
        return ["opq", str(len(self.opaque) - 1)]


def subconditions(n):
    """The condition's own sub-conditions (through not / and / or), smallest last."""
    out = [n]
    if isinstance(n, ast.UnaryOp) and isinstance(n.op, ast.Not):
        out += subconditions(n.operand)
    elif isinstance(n, ast.BoolOp):
        for i in range(1, len(n.values) - 1):          # mypy's right-nested groups, largest first
            out.append(ast.BoolOp(op=n.op, values=n.values[i:]))
        for v in n.values:
            out += subconditions(v)
    return out


# ------------------------------------------------------------------------------------------- the two real sides
class Real:
    def __init__(self):
        from mypy.errors import Errors
        from mypy.fastparse import parse
        from mypy.options import Options
        from mypy.reachability import infer_condition_value
        self.Options, self.Errors, self.parse, self.infer = Options, Errors, parse, infer_condition_value
        self.parse_opts = Options()
        self._opts: dict = {}
        self._globals: dict = {}
        # type(sys.version_info) cannot be instantiated; a named tuple has the same tuple behaviour (slices are
        # plain tuples, comparison is tuple comparison, .major/.minor exist)
        import collections
        self.vi_type = collections.namedtuple("version_info", "major minor micro releaselevel serial")

    def options(self, major, minor, platform, at=(), af=()):
        key = (major, minor, platform, tuple(at), tuple(af))
        o = self._opts.get(key)
        if o is None:
            o = self.Options()
            o.python_version = (major, minor)
            o.platform = platform
            o.always_true = list(at)
            o.always_false = list(af)
            self._opts[key] = o
        return o

    def mypy_expr(self, src: str):
        e = self.Errors(self.parse_opts)
        tree = self.parse(f"if {src}: pass\n", "c.py", "c", e, self.parse_opts)
        if e.is_errors() or len(tree.defs) != 1:
            return None
        return tree.defs[0].expr[0]

    def static(self, expr, o) -> str:
        try:
            return TVNAME[self.infer(expr, o)]
        except Exception as e:                      # a crash of the code under check is an observation
            return "CRASH:" + type(e).__name__

    def globals(self, major, minor, micro, platform, type_checking: bool):
        """eval globals for one target (cached: the conditions have no side effects)"""
        key = (major, minor, tuple(micro), platform, type_checking)
        g = self._globals.get(key)
        if g is None:
            vi = self.vi_type(major, minor, *micro)
            fake = types.SimpleNamespace(version_info=vi, platform=platform)
            g = {"sys": fake, "__builtins__": {}}
            g.update(std_names(type_checking))
            self._globals[key] = g
        return g

    @staticmethod
    def truth(code, g):
        try:
            return "1" if eval(code, g) else "0"
        except Exception:
            return "raise"


def std_names(type_checking: bool) -> dict:
    ns = types.SimpleNamespace
    return {"TYPE_CHECKING": type_checking, "MYPY": type_checking, "PY2": False, "PY3": True, "XT": True, "XF": False,
            "ATN": True, "AFN": False,
            "typing": ns(TYPE_CHECKING=type_checking), "six": ns(PY2=False, PY3=True), "m": ns(XT=True, XF=False),
            "os": ns(version_info=(9, 9), platform="zz"), "f": (lambda *a: 1 / 0), "len": len}


AT_NAMES, AF_NAMES = ("ATN",), ("AFN",)


# ------------------------------------------------------------------------------------------------- generators
def version_forms(ctx: Ctx) -> list[str]:
    forms = ["sys.version_info"]
    for i in (-6, -5, -1, 0, 1, 2, 3, 4, 5):
        forms.append(f"sys.version_info[{i}]")
    bounds_lo = [None, 0, 1, 2, -1] + ([3, -5] if not ctx.quick() else [])
    bounds_hi = [None, 0, 1, 2, 3, -1] + ([5, 6, -3] if not ctx.quick() else [])
    for lo in bounds_lo:
        for hi in bounds_hi:
            a = "" if lo is None else str(lo)
            b = "" if hi is None else str(hi)
            forms.append(f"sys.version_info[{a}:{b}]")
            forms.append(f"sys.version_info[{a}:{b}:1]")
    forms += ["sys.version_info[::2]", "sys.version_info[0:2:2]", "sys.version_info[::-1]", "sys.version_info[::0]",
              "sys.version_info[0:2:]", "sys.version_info[1::1]"]
    return forms


def version_literals(ctx: Ctx, targets) -> list[str]:
    if ctx.quick():
        bs = sorted({0} | {b for (_, m) in targets for b in (m - 1, m, m + 1) if 0 <= b <= 16})
    else:
        bs = list(range(0, 17))
    minors = sorted({m for (_, m) in targets})
    lits = ["()", "(2,)", "(3,)", "(4,)", "0", "2", "3", "4"] + [str(b) for b in bs if b not in (0, 2, 3, 4)]
    lits += [f"(3, {b})" for b in bs]
    lits += [f"({a}, {b})" for a in (2, 4) for b in (minors[0], minors[-1])]
    lits += [f"(3, {b}, {c})" for b in minors for c in (0, 8)]
    lits += ["(2, 7, 18)", "(4, 0, 0)", "(3, -1)", "-1"]
    return lits


def version_cases(ctx: Ctx, targets) -> list[str]:
    out = []
    for f, op, l in itertools.product(version_forms(ctx), OPSYM.values(), version_literals(ctx, targets)):
        out.append(f"{f} {op} {l}")
        out.append(f"{l} {op} {f}")
    return out


PLATFORMS = ["linux", "win32", "darwin", "cygwin"]


def platform_cases() -> list[str]:
    lits = ["linux", "win32", "darwin", "cygwin", "win", "lin", "", "Linux", "linux2", "32"]
    out = []
    for s in lits:
        q = repr(s)
        for op in list(OPSYM.values()) + ["is", "in"]:
            out.append(f"sys.platform {op} {q}")
            out.append(f"{q} {op} sys.platform")
        out += [f"sys.platform.startswith({q})", f"sys.platform.endswith({q})", f"sys.platform.startswith(({q},))",
                f"sys.platform.startswith({q}, 0)", f"{q}.startswith(sys.platform)", f"os.platform == {q}",
                f"sys.platform.lower() == {q}", f"sys.platform[:3] == {q}", f"sys.platform == {q} == {q}"]
    return out


LEAVES = {  # a leaf of every static class, with a fixed run-time value on every target ≥ 3.0
    "AT": "sys.version_info >= (3,)", "AF": "sys.version_info[0] < 3", "MT": "TYPE_CHECKING", "MF": "not typing.TYPE_CHECKING",
    "Utrue": "XT", "Ufalse": "m.XF", "Uraise": "f()", "PY2": "six.PY2", "PY3": "PY3", "MYPY": "MYPY",
    "ATN": "ATN", "AFN": "AFN", "plat": "sys.platform == 'linux'", "platsw": "sys.platform.startswith('win')",
}


def boolean_cases(ctx: Ctx) -> list[str]:
    atoms = list(LEAVES.values())
    atoms += [f"not ({a})" for a in list(LEAVES.values())]
    out = list(atoms)
    for a, b in itertools.product(atoms, atoms):
        out.append(f"({a}) or ({b})")
        out.append(f"({a}) and ({b})")
    rng = ctx.rng
    for _ in range(ctx.pick(1500, 12000)):
        k = rng.choice([3, 3, 4])
        parts = [rng.choice(atoms) for _ in range(k)]
        shape = rng.randrange(5)
        o1, o2 = rng.choice(["and", "or"]), rng.choice(["and", "or"])
        p = [f"({x})" for x in parts]
        if shape == 0:
            s = f"{p[0]} {o1} {p[1]} {o1} {p[2]}" + (f" {o1} {p[3]}" if k == 4 else "")
        elif shape == 1:
            s = f"({p[0]} {o1} {p[1]}) {o2} {p[2]}"
        elif shape == 2:
            s = f"{p[0]} {o1} ({p[1]} {o2} {p[2]})"
        elif shape == 3:
            s = f"not ({p[0]} {o1} {p[1]}) {o2} {p[2]}"
        else:
            s = f"not ({p[0]} {o1} not ({p[1]} {o2} {p[2]}))"
        out.append(s)
    return out


def malformed_cases(ctx: Ctx) -> list[str]:
    """Forms at and beyond the edge of what reachability.py supports."""
    out = ["sys.version_info", "sys.platform", "not sys.version_info", "sys.version_info >= (3, 8) >= (3,)",
           "(3,) <= sys.version_info < (4,)", "sys.version_info is (3, 8)", "sys.version_info in ((3, 8),)",
           "sys.version_info >= (3, 8.0)", "sys.version_info >= (3, '8')", "sys.version_info >= [3, 8]",
           "sys.version_info >= ((3, 8))", "sys.version_info >= (3, (8))", "sys.version_info >= (3, True)",
           "sys.version_info >= (0x3, 0o10)", "sys.version_info >= (3, 1_0)", "sys.version_info.major >= 3",
           "sys.version_info[:2][0] >= 3", "sys.version_info[0:2] [1:] >= (8,)", "os.version_info >= (3, 8)",
           "sys.version_info[0] >= 3.0", "sys.version_info[0] == True", "sys.version_info[True] == 3",
           "sys.version_info[0.0] == 3", "sys.version_info[(0)] == 3", "sys.version_info[0,] == 3",
           "sys.version_info[:2] >= (3, 8, *())", "sys.version_info[slice(0, 2)] >= (3, 8)", "len(sys.version_info) >= 2",
           "sys.version_info >= (3, 8) if XT else XF", "(sys.version_info >= (3, 8),)", "sys.version_info[-0] == 3",
           "sys.version_info[0] == -3", "sys.version_info[0] == +3", "sys.version_info[0] == ~3", "sys.version_info[:+2] >= (3, 8)",
           "sys.version_info[0:2:+1] >= (3, 8)", "sys.version_info[0:2:True] >= (3, 8)", "sys.version_info >= (3, 8) and",
           "sys.platform == f'linux'", "sys.platform == 'lin' 'ux'", "sys.platform == b'linux'", "sys.platform.startswith(prefix='l')",
           "sys.platform.startswith", "sys.platform.startswith()", "sys.platform != 'linux' != 'x'",
           "(sys).version_info >= (3, 8)", "sys.version_info>=(3,8)", "sys.version_info >= (3, 8,)", "sys.version_info >= 3,",
           "TYPE_CHECKING is True", "typing.TYPE_CHECKING", "not not TYPE_CHECKING", "TYPE_CHECKING()", "x.y.MYPY", "f().PY2"]
    rng = ctx.rng
    pieces = ["sys.version_info", "sys.version_info[:2]", "sys.version_info[0]", "sys.version_info[1:]", "(3, 8)", "(3,)", "3", "8",
              "sys.platform", "'linux'", "XT", "TYPE_CHECKING", "()", "sys.version_info[1]", "(3, 8, 0)", "-1", "sys.version_info[-1]"]
    ops = list(OPSYM.values()) + ["is", "is not", "in", "not in", "and", "or", "+", ","]
    for _ in range(ctx.pick(1200, 10000)):
        n = rng.choice([2, 2, 3])
        s = rng.choice(pieces)
        for _ in range(n - 1):
            s += f" {rng.choice(ops)} {rng.choice(pieces)}"
        if rng.random() < 0.15:
            s = "not " + s
        out.append(s)
    return out


# ------------------------------------------------------------------------------------------------ evaluation
class Case:
    __slots__ = ("src", "kind", "tree", "tokens", "opaque", "names", "mexpr", "code_sub")

    def __init__(self, src, kind):
        self.src, self.kind = src, kind


def prepare(real: Real, src: str, kind: str) -> Case | None:
    """None when the source is not an expression CPython and mypy both parse."""
    try:
        with warnings.catch_warnings():
            warnings.simplefilter("ignore", SyntaxWarning)
            tree = ast.parse(src, mode="eval").body
    except (SyntaxError, ValueError):
        return None
    c = Case(src, kind)
    c.tree = tree
    conv = Conv()
    c.tokens = conv.cond(tree)
    c.mexpr = real.mypy_expr(src)
    if c.mexpr is None:
        return None
    with warnings.catch_warnings():
        warnings.simplefilter("ignore", SyntaxWarning)
        c.opaque = [compile(ast.fix_missing_locations(ast.Expression(body=n)), "<opq>", "eval") for n in conv.opaque]
        c.names = {k: compile(ast.fix_missing_locations(ast.Expression(body=n)), "<name>", "eval") for k, n in conv.names.items()}
        c.code_sub = compile(src, "<cond>", "eval")
    return c


def model_line(real: Real, c: Case, platform: str, targets_micros, at, af) -> str:
    entries = []
    for (ma, mi), mc in targets_micros:
        # the run-time truth of names / opaque leaves is measured, per target
        if c.names or c.opaque:
            g = real.globals(ma, mi, mc, platform, False)
            g2 = real.globals(ma, mi, mc, platform, True)
            names = " ".join(f"{k}={real.truth(code, g).replace('raise', 'x')}" for k, code in c.names.items())
            names2 = " ".join(f"{k}={real.truth(code, g2).replace('raise', 'x')}" for k, code in c.names.items())
            opq = " ".join(f"{i}={real.truth(code, g).replace('raise', 'x')}" for i, code in enumerate(c.opaque))
            opq2 = " ".join(f"{i}={real.truth(code, g2).replace('raise', 'x')}" for i, code in enumerate(c.opaque))
        else:
            names = names2 = opq = opq2 = ""
        entries.append(f"{ma}.{mi}.{mc[0]}.{mc[1]}.{mc[2]} ~ {names} ~ {names2} ~ {opq} ~ {opq2}")
    return (f"{platform or '%'} {','.join(at) or '-'} {','.join(af) or '-'} fix={int(OPEN_SLICE_FIX)} | {' '.join(c.tokens)} | "
            + " ; ".join(entries))


def run_driver(ctx: Ctx, lines: list[str]) -> list[str]:
    if not lines:
        return []
    shards = max(1, min(6, (len(lines) + 9999) // 10000))
    size = (len(lines) + shards - 1) // shards
    parts = [lines[i:i + size] for i in range(0, len(lines), size)]
    with ThreadPoolExecutor(max_workers=len(parts)) as ex:
        outs = list(ex.map(lambda p: ctx.lean_driver(DRIVER, p), parts))
    out = [x for o in outs for x in o]
    if len(out) != len(lines):
        raise ToolFailure(f"{DRIVER} returned {len(out)} lines for {len(lines)} cases")
    return out


def f4_shape(tree, major: int, minor: int):
    """Is this single comparison the recorded F4 shape for this target?  -> normalised operator or None.
    (an open-ended slice of sys.version_info starting at 0 or 1 — incl. the bare name — against the tuple
    equal to the target's (major, minor)[lo:], under ==, !=, <=, > once the version is on the left)"""
    if not (isinstance(tree, ast.Compare) and len(tree.ops) == 1 and type(tree.ops[0]) in OPNAME):
        return None

    def version_side(n):
        if Conv._sys_attr(n, "version_info"):
            return 0
        if isinstance(n, ast.Subscript) and Conv._sys_attr(n.value, "version_info") and isinstance(n.slice, ast.Slice):
            s = n.slice
            if s.upper is not None:
                return None
            if s.step is not None and not (isinstance(s.step, ast.Constant) and type(s.step.value) is int and s.step.value == 1):
                return None
            if s.lower is None:
                return 0
            if isinstance(s.lower, ast.Constant) and type(s.lower.value) is int and s.lower.value in (0, 1):
                return s.lower.value
        return None

    def tuple_side(n):
        if isinstance(n, ast.Tuple) and all(isinstance(e, ast.Constant) and type(e.value) is int for e in n.elts):
            return tuple(e.value for e in n.elts)
        return None
    l, r, op = tree.left, tree.comparators[0], OPNAME[type(tree.ops[0])]
    lo, t = version_side(l), tuple_side(r)
    if lo is None or t is None:
        lo, t, op = version_side(r), tuple_side(l), REV[op]
    if lo is None or t is None:
        return None
    if t == (major, minor)[lo:] and op in ("eq", "ne", "le", "gt"):
        return op
    return None


def open_equal_shape(tree, major: int, minor: int) -> bool:
    """an open-ended slice of sys.version_info against the tuple equal to the target's (major, minor)[lo:], any operator
    (F4 is this shape under ==, !=, <=, >)"""
    if not (isinstance(tree, ast.Compare) and len(tree.ops) == 1 and type(tree.ops[0]) in OPNAME):
        return False
    for op in (ast.Eq, ast.Lt):
        probe = ast.Compare(left=tree.left, ops=[op()], comparators=tree.comparators)
        if f4_shape(probe, major, minor) is not None:
            return True
    return False


class Checker:
    def __init__(self, ctx: Ctx, real: Real):
        self.ctx, self.real = ctx, real
        self.ndiff = 0
        self.reported: set = set()
        self.nviol = 0          # concrete failures reported as VIOLATION
        self.nnfi = 0           # correspondence differences without a failing input
        self.pending_nfi: list = []

    # -- the property on one condition, one target: returns a list of (clause, variant, claimed, got)
    def oracle(self, c: Case, static: str, ma, mi, platform) -> list:
        bad = []
        if static == "U":
            return bad
        if static.startswith("CRASH"):
            return [("crash", MICROS[0], None, static)]
        for micro in MICROS:
            g = self.real.globals(ma, mi, micro, platform, False)
            got = self.real.truth(c.code_sub, g)
            if got != "raise" and (got == "1") != RT_CLAIM[static]:
                bad.append(("run-time", micro, RT_CLAIM[static], got))
            g = self.real.globals(ma, mi, micro, platform, True)
            got = self.real.truth(c.code_sub, g)
            if got != "raise" and (got == "1") != MT_CLAIM[static]:
                bad.append(("mypy-time", micro, MT_CLAIM[static], got))
        return bad

    def classify_and_report(self, c: Case, ma, mi, platform, at, af) -> bool:
        """Shrink to the smallest failing sub-condition and report it.  False if nothing fails."""
        o = self.real.options(ma, mi, platform, at, af)
        failing = None
        for sub in subconditions(c.tree):
            src = ast.unparse(sub)
            sc = prepare(self.real, src, c.kind)
            if sc is None:
                continue
            st = self.real.static(sc.mexpr, o)
            bad = self.oracle(sc, st, ma, mi, platform)
            if bad:
                failing = (sc, st, bad, sub)
        if failing is None:
            return False
        sc, st, bad, sub = failing
        clause, micro, claimed, got = bad[0]
        observed = {"sub": "reach", "class": "static-value-wrong", "clause": clause}
        op = f4_shape(sc.tree, ma, mi)
        if clause == "crash":
            observed = {"sub": "reach", "class": "infer-condition-value-crashes", "exception": got}
        elif op is not None:
            observed = {"sub": "reach", "class": "version-tuple-vs-whole-version_info", "op": OPSYM[op]}
        elif isinstance(sub, ast.BoolOp) and clause == "run-time" and all(b[0] == "run-time" for b in bad):
            table = "and" if isinstance(sub.op, ast.And) else "or"
            lsrc = ast.unparse(sub.values[0])
            rsrc = ast.unparse(sub.values[1]) if len(sub.values) == 2 else ast.unparse(ast.BoolOp(op=sub.op, values=sub.values[1:]))
            lc, rc = prepare(self.real, lsrc, c.kind), prepare(self.real, rsrc, c.kind)
            if lc is not None and rc is not None:
                pair = (table, self.real.static(lc.mexpr, o), self.real.static(rc.mexpr, o))
                if KNOWN_BAD_TABLE.get(pair) == st:
                    observed = {"sub": "reach", "class": "bool-table-runtime-component", "table": table,
                                "pair": f"{pair[1]},{pair[2]}", "claims": st}
                else:
                    observed = {"sub": "reach", "class": "bool-table-wrong", "table": table, "pair": f"{pair[1]},{pair[2]}", "claims": st}
        key = json.dumps(observed, sort_keys=True)
        if key in self.reported and self.ctx.match_known(observed) is not None:
            return True
        if self.ctx.match_known(observed) is None:
            if self.nviol >= 6:
                return True
            self.nviol += 1
        self.reported.add(key)
        what = (f"`{sc.src}` for target {ma}.{mi}/{platform}: infer_condition_value raises {got[6:]}" if clause == "crash" else
                f"`{sc.src}` for target {ma}.{mi}/{platform}: infer_condition_value says {st} "
                f"({clause} value {claimed}); eval with version_info={(ma, mi) + tuple(micro)} gives {got}")
        self.ctx.report(observed, what,
                        {"sub": "reach", "src": sc.src, "whole_condition": c.src, "target": [ma, mi], "platform": platform,
                         "always_true": list(at), "always_false": list(af), "micro": list(micro), "static": st, "clause": clause, "eval": got})
        return True

    def compare(self, c: Case, platform, targets, at, af, mline: str) -> None:
        ctx, real = self.ctx, self.real
        res = mline.split(";")
        if len(res) != len(targets) * len(MICROS) or "bad" in mline:
            raise ToolFailure(f"driver answered {mline!r} for {c.src!r} ({' '.join(c.tokens)})")
        k = 0
        for (ma, mi) in targets:
            o = real.options(ma, mi, platform, at, af)
            static = real.static(c.mexpr, o)
            ctx.dist("reach_static", static)
            first = True
            for micro in MICROS:
                m_static, m_rt, m_mt = res[k].split("/")
                k += 1
                g = real.globals(ma, mi, micro, platform, False)
                rt = real.truth(c.code_sub, g)
                g2 = real.globals(ma, mi, micro, platform, True)
                mt = real.truth(c.code_sub, g2)
                ok_prop = static == "U" or (not static.startswith("CRASH")
                                            and (rt == "raise" or (rt == "1") == RT_CLAIM[static])
                                            and (mt == "raise" or (mt == "1") == MT_CLAIM[static]))
                if m_static == static and m_rt == rt and m_mt == mt and ok_prop:
                    continue
                if not first:
                    continue
                first = False
                # ---- a difference or a failing claim: decide from the property itself
                found = self.classify_and_report(c, ma, mi, platform, at, af)
                if m_static != static or m_rt != rt or m_mt != mt:
                    self.ndiff += 1
                    ctx.count("disagreements_checked")
                    if not found and len(self.pending_nfi) < 4:
                        # held back until the whole enumeration is done: concrete failing inputs are reported first
                        side = "mypy (infer_condition_value)" if m_static != static else "run-time (eval)"
                        self.pending_nfi.append((
                            f"reachability correspondence broken on the {side} side for `{c.src}` target {ma}.{mi}/{platform}: "
                            f"real static {static} / model {m_static}; eval {rt} / model {m_rt}; mypy-time eval {mt} / model {m_mt}; "
                            "no statically decided (sub-)condition has a wrong value",
                            {"sub": "reach", "broken": f"correspondence {DRIVER} vs {side}", "src": c.src, "target": [ma, mi],
                             "platform": platform, "always_true": list(at), "always_false": list(af), "tokens": " ".join(c.tokens)}))

    def flush_nfi(self) -> None:
        """Correspondence differences for which the search found no failing input: all of them if nothing concrete
        was found, one (as a pointer to the broken tie) otherwise."""
        keep = self.pending_nfi[:1] if self.nviol else self.pending_nfi
        for what, det in keep:
            self.nnfi += 1
            self.ctx.violation(what, det, found_input=False)
        self.pending_nfi = []


def block_flags(ctx: Ctx, real: Real, cases: list[Case], target, platform, native: bool) -> list[tuple[bool, bool]] | None:
    """(if-body unreachable, else-body unreachable) for every case after a real build of one module."""
    from mypy import build
    from mypy.fscache import FileSystemCache
    from mypy.modulefinder import BuildSource
    o = real.Options()
    o.python_version = target
    o.platform = platform
    o.incremental = False
    o.cache_dir = os.devnull
    o.preserve_asts = True
    if native:
        try:
            import ast_serialize  # noqa: F401
        except ImportError:
            return None
        o.native_parser = True
    # every name the generators use is defined (an undefined name costs a "did you mean" search per use)
    text = ("import sys, typing\nfrom typing import TYPE_CHECKING\nMYPY = False\nPY2 = False\nPY3 = True\nXT = True\nXF = False\n"
            "ATN = True\nAFN = False\ndef f(*a: object) -> bool: ...\n"
            "class six:\n    PY2 = False\n    PY3 = True\nclass m:\n    XT = True\n    XF = False\n"
            "class os:\n    version_info = (9, 9)\n    platform = 'zz'\n") + \
        "".join(f"if {c.src}:\n    a{i} = 1\nelse:\n    b{i} = 1\n" for i, c in enumerate(cases))
    try:
        res = build.build([BuildSource("blk.py", "blk", text)], o, flush_errors=lambda f, m, s: None, fscache=FileSystemCache())
    except BaseException as e:          # mypy turns an internal error into SystemExit
        if isinstance(e, KeyboardInterrupt):
            raise
        if type(e).__name__ == "CompileError":          # a blocking (syntax) error in the generated module: ours
            raise ToolFailure("generated module of if statements does not compile: " + str(e)[:300])
        return "crash: " + type(e).__name__ + " " + str(e)[:200]      # type: ignore[return-value]
    tree = res.files["blk"]
    ifs = [d for d in tree.defs if type(d).__name__ == "IfStmt"]
    if len(ifs) != len(cases):
        raise ToolFailure(f"expected {len(cases)} if statements in the built module, found {len(ifs)}")
    return [(bool(s.body[0].is_unreachable), bool(s.else_body.is_unreachable) if s.else_body is not None else False) for s in ifs]


# -------------------------------------------------------------------------------------------------- main
def run(ctx: Ctx) -> None:
    t0 = time.time()
    global OPEN_SLICE_FIX
    from translate import reach_tables
    translator_error = ""
    try:                                   # fail closed: a translator that cannot read the tree is a broken tie, not a tool failure
        reach_tables.main()
        OPEN_SLICE_FIX = reach_tables.open_slice_fix()
    except Exception as e:
        translator_error = f"translate/reach_tables.py cannot read this tree: {type(e).__name__}: {e}"
        OPEN_SLICE_FIX = False
    if reach_tables.MISSING:
        ctx.coverage["reach_translator_missing"] = list(reach_tables.MISSING)
    ctx.coverage["reach_open_slice_rule_in_tree"] = OPEN_SLICE_FIX
    proved = ctx.prove("MypyVerif.Props.C12Reach", MODEL_FILES + ["MypyVerif/Gen/ReachTables.lean"])
    if translator_error:
        proved = False
        ctx.broken_ties.append(translator_error)
    elif not proved and reach_tables.MISSING:
        ctx.broken_ties.append("translate/reach_tables.py: " + "; ".join(reach_tables.MISSING))
    ctx.trusted("translator translate/reach_tables.py (inverted_truth_mapping, reverse_op read from the module; and/or branches, "
                "fixed_comparison and special names tabulated by running the real functions) → theorem tables_match_source",
                "reachability models: mypy/reachability.py infer_condition_value, consider_sys_version_info, consider_sys_platform, "
                "fixed_comparison, contains_* transcribed by hand; CPython tuple/int/str comparison, indexing and positive-step slicing",
                "reachability correspondence harness harness/c12/reach.py (source → model tokens via CPython's ast; eval with a fake sys)",
                "assumed at run time: TYPE_CHECKING = MYPY = PY2 = False, PY3 = True, --always-true/--always-false names have the promised value",
                "not modelled: match-statement patterns (infer_pattern_value), assert/else-branch bookkeeping, import priorities, "
                "the reachability pass inside the ast_serialize extension (only its resulting Block.is_unreachable is compared)")
    real = Real()
    rng = ctx.rng
    all_targets = [(3, m) for m in range(0, 16)]
    if ctx.quick():
        mids = rng.sample(range(1, 15), 3)
        targets = sorted({(3, 0), (3, 15)} | {(3, m) for m in mids})
    else:
        targets = all_targets
    ctx.coverage["reach_rule"] = (
        f"every left-hand form (whole, [i], [lo:hi], [lo:hi:1], other strides) × 6 operators × both operand orders × int / tuple literals "
        f"of length 0–3 around the targets, on targets {['%d.%d' % t for t in targets]} × 2 micro/releaselevel variants; every "
        f"sys.platform form × {len(PLATFORMS)} platforms; all pairs of (negated) leaves of every truth class under and/or plus random deeper "
        "trees; hand-written and random forms at the edge of the supported grammar; a case is non-trivial when mypy decides it")
    streams = [("version", version_cases(ctx, targets), "linux", targets, (), ()),
               ("boolean", boolean_cases(ctx), "linux", [targets[len(targets) // 2], targets[-1]], AT_NAMES, AF_NAMES),
               ("malformed", malformed_cases(ctx), "linux", [(3, 8), targets[1]], (), ())]
    for p in PLATFORMS:
        streams.append(("platform", platform_cases(), p, [(3, 12)], (), ()))
    chk = Checker(ctx, real)
    prepared_for_blocks: list[Case] = []
    n_unparsable = 0
    for kind, srcs, platform, tgs, at, af in streams:
        cases = []
        for s in dict.fromkeys(srcs):
            c = prepare(real, s, kind)
            if c is None:
                n_unparsable += 1
                ctx.dist("reach_stream", kind + "-unparsable")
                continue
            cases.append(c)
        tm = [(t, mc) for t in tgs for mc in MICROS]
        model = run_driver(ctx, [model_line(real, c, platform, tm, at, af) for c in cases])
        for c, mline in zip(cases, model):
            decided = "U" not in {x.split("/")[0] for x in mline.split(";")}
            ctx.case(f"reach|{platform}|{c.src}", nontrivial=decided)
            ctx.dist("reach_stream", kind)
            chk.compare(c, platform, tgs, at, af, mline)
        ctx.count("traces_validated_against_impl", 2 * len(cases) * len(tm))
        ctx.coverage["evaluations"] += len(cases) * (len(tm) - 1)
        if kind in ("version", "boolean", "malformed") and platform == "linux":
            k = ctx.pick(1200, 6000)
            prepared_for_blocks += cases if len(cases) <= k else rng.sample(cases, k)
        if kind == "version":
            mid = cases[len(cases) // 2]
            ctx.sample({"reach_condition": mid.src, "tokens": " ".join(mid.tokens), "model": model[len(cases) // 2]})

    # observation point: Block.is_unreachable after a real build
    # a target new enough for every piece of syntax the generators use (f-strings, 1_0)
    btarget = rng.choice([t for t in targets if t[1] >= 8] or [(3, 12)])
    # always include the open-ended-slice shapes for this very target (F4 / the rule of proposed_fix_F4)
    have = {c.src for c in prepared_for_blocks}
    for src in [f"sys.version_info {op} ({btarget[0]}, {btarget[1]})" for op in OPSYM.values()] + \
               [f"({btarget[0]}, {btarget[1]}) {op} sys.version_info" for op in ("<", ">=")] + \
               [f"sys.version_info[1:] {op} ({btarget[1]},)" for op in ("==", ">")] + [f"sys.version_info[0:] != ({btarget[0]}, {btarget[1]})"]:
        if src not in have:
            c = prepare(real, src, "version")
            if c is not None:
                prepared_for_blocks.append(c)
    blk_lines = [model_line(real, c, "linux", [(btarget, MICROS[0])], (), ()) for c in prepared_for_blocks]
    blk_model = run_driver(ctx, blk_lines)
    for native in (False, True):
        flags = block_flags(ctx, real, prepared_for_blocks, btarget, "linux", native)
        if flags is None:
            ctx.coverage["reach_native_parser"] = "ast_serialize not installed — skipped"
            continue
        if isinstance(flags, str):
            ctx.violation(f"a build of a module of {len(prepared_for_blocks)} generated `if` statements ({'native' if native else 'default'} parser, "
                          f"target {btarget}) ends with {flags}", {"sub": "reach", "broken": "build of generated if statements crashes",
                                                                     "target": list(btarget), "native_parser": native, "error": flags},
                          found_input=False)
            continue
        bdiff = 0
        for c, ml, (bu, eu) in zip(prepared_for_blocks, blk_model, flags):
            st = ml.split("/")[0]
            want = (st in ("AF", "MF"), st in ("AT", "MT"))
            ctx.dist("reach_block_flags" + ("_native" if native else ""), f"if={int(bu)} else={int(eu)}")
            if (bu, eu) != want:
                bdiff += 1
                ctx.count("disagreements_checked")
                if bdiff <= 2:
                    o = real.options(btarget[0], btarget[1], "linux")
                    if not chk.classify_and_report(c, btarget[0], btarget[1], "linux", (), ()):
                        # the flags say which branch mypy analyses: decide from the run-time value
                        g = real.globals(btarget[0], btarget[1], MICROS[0], "linux", True)
                        mt = real.truth(c.code_sub, g)
                        if (bu and mt == "1") or (eu and mt == "0"):
                            cls = "live-branch-marked-unreachable"
                            if native and open_equal_shape(c.tree, btarget[0], btarget[1]):
                                # the reachability pass inside ast_serialize (Rust) has its own version rule
                                cls = "native-parser-keeps-old-open-slice-rule"
                            ctx.report({"sub": "reach", "class": cls, "parser": "native" if native else "default"},
                                       f"`if {c.src}:` target {btarget}: body unreachable={bu}, else unreachable={eu}, but the condition is {mt} "
                                       "when evaluated with TYPE_CHECKING=True",
                                       {"sub": "reach", "src": c.src, "target": list(btarget), "platform": "linux", "native_parser": native,
                                        "flags": [bu, eu], "static": real.static(c.mexpr, o)})
                        else:
                            ctx.violation(f"Block.is_unreachable after a build ({'native' if native else 'default'} parser) differs from the model for "
                                          f"`if {c.src}:` target {btarget}: flags {(bu, eu)}, model {st}; the live branch is not marked unreachable",
                                          {"sub": "reach", "broken": "correspondence Block.is_unreachable vs model infer", "src": c.src,
                                           "target": list(btarget), "platform": "linux", "native_parser": native}, found_input=False)
        ctx.count("traces_validated_against_impl", len(prepared_for_blocks))
        ctx.coverage["reach_block_disagreements" + ("_native" if native else "")] = bdiff
    chk.flush_nfi()
    ctx.coverage["reach_disagreements"] = chk.ndiff
    ctx.coverage["reach_unparsable_sources_skipped"] = n_unparsable
    ctx.coverage["reach_wall_s"] = round(time.time() - t0, 1)
    if not proved and not any("reach" in w.lower() or "infer_condition_value" in w for w, _ in ctx.violations):
        ctx.violation("Lean development for C12/reachability no longer builds; the enumeration found no new statically decided "
                      "condition with a wrong value", {"sub": "reach", "broken": ctx.broken_ties}, found_input=False)


def replay(ctx: Ctx, det: dict) -> int:
    global OPEN_SLICE_FIX
    from translate import reach_tables
    try:
        OPEN_SLICE_FIX = reach_tables.open_slice_fix()
    except Exception:
        OPEN_SLICE_FIX = False
    real = Real()
    src = det["src"]
    ma, mi = det["target"]
    platform = det.get("platform", "linux")
    at, af = tuple(det.get("always_true", ())), tuple(det.get("always_false", ()))
    c = prepare(real, src, "replay")
    if c is None:
        print("source does not parse:", src)
        return 2
    o = real.options(ma, mi, platform, at, af)
    st = real.static(c.mexpr, o)
    tm = [((ma, mi), mc) for mc in MICROS]
    print(f"condition: {src}\n target {ma}.{mi} platform {platform} always_true={list(at)} always_false={list(af)}")
    print(" tokens:", " ".join(c.tokens))
    print(" real infer_condition_value:", st)
    mres = ctx.lean_driver(DRIVER, [model_line(real, c, platform, tm, at, af)])[0]
    print(" model (static/run-time/mypy-time per micro variant):", mres)
    rc = 0
    for mc, mr in zip(MICROS, mres.split(";")):
        rt = real.truth(c.code_sub, real.globals(ma, mi, mc, platform, False))
        mt = real.truth(c.code_sub, real.globals(ma, mi, mc, platform, True))
        if mr != f"{st}/{rt}/{mt}":
            print(f" correspondence: BROKEN (real {st}/{rt}/{mt}, model {mr})")
            rc = 1
        print(f" eval with version_info={(ma, mi) + tuple(mc)}: run-time {rt}, with TYPE_CHECKING=True {mt}")
        if st.startswith("CRASH"):
            rc = 1
        elif st != "U" and ((rt != "raise" and (rt == "1") != RT_CLAIM[st]) or (mt != "raise" and (mt == "1") != MT_CLAIM[st])):
            rc = 1
    print(" property:", "FAILS" if rc else "holds")
    return rc
