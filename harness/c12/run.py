"""C12 — static models of Python's runtime rules agree exactly with CPython.

Four independent sub-checks, each a full slice (Lean theorems + correspondence + failing-input search):

  mro    harness/c12/mro.py    Props/C12Mro    C3 linearisation: mypy/mro.py + semanal vs. typeobject.c
  reach  harness/c12/reach.py  Props/C12Reach  sys.version_info / sys.platform tests: mypy/reachability.py
                                               vs. the run-time value with a 5-tuple version_info
  bind   harness/c12/bind.py   Props/C12Bind   call binding / arity diagnostics            (part B)
  fold   harness/c12/fold.py   Props/C12Fold   constant folding                              (part B)

Every replay detail carries "sub": one of the names above.  `VERIF_C12_ONLY=mro,reach` restricts a run to
some sub-checks (for development; the manifest command runs all).
"""
from __future__ import annotations

import importlib
import importlib.util
import json
import os
import time

from harness.vlib.core import Ctx

SUBS = ["mro", "reach", "bind", "fold"]


def _load(name: str):
    """The sub-check module, or None when its file does not exist (a slice delivered separately)."""
    if importlib.util.find_spec(f"harness.c12.{name}") is None:
        return None
    return importlib.import_module(f"harness.c12.{name}")


def main(ctx: Ctx) -> None:
    ctx.level = "proof"
    only = [s for s in os.environ.get("VERIF_C12_ONLY", "").split(",") if s]
    ran = []
    for name in SUBS:
        if only and name not in only:
            continue
        mod = _load(name)
        if mod is None:
            continue
        t0 = time.time()
        mod.run(ctx)
        ctx.coverage.setdefault("sub_wall_s", {})[name] = round(time.time() - t0, 1)
        ran.append(name)
    ctx.coverage["subchecks_run"] = ran
    # mro / reach describe their enumeration in *_rule; bind / fold append " | bind: …" / " | fold: …" to "rule"
    mine = " | ".join(f"{k}: {ctx.coverage[k + '_rule']}" for k in ("mro", "reach") if ctx.coverage.get(k + "_rule"))
    if mine:
        ctx.coverage["rule"] = mine + (ctx.coverage.get("rule") or "")


def replay(ctx: Ctx, path: str) -> int:
    body = json.load(open(path))
    det = body["replay"].get("detail", body["replay"])
    sub = det.get("sub") if isinstance(det, dict) else None
    if sub not in SUBS:
        print("replay file does not name a C12 sub-check ('sub'); content:")
        print(json.dumps(body, indent=1)[:4000])
        return 2
    mod = _load(sub)
    if mod is None:
        print(f"sub-check {sub} is not present in this tree")
        return 2
    return int(mod.replay(ctx, det) or 0)
