"""C12 / MRO — mypy's C3 linearisation (mypy/mro.py, semanal.configure_base_classes) is CPython's.

1. Lean: Props/C12Mro (pmerge = merge on every input; mro_eq for every hierarchy; termination; structure).
2. Tie:
   a. CPython side — real ``type(name, bases, {})`` / TypeError for every class statement vs. the model's
      `pyTable`;
   b. mypy side — the same class statements type-checked in-process (many hierarchies per build, one class
      name per statement): ``TypeInfo.mro`` / ``bad_mro`` / the diagnostic on the statement's line vs. the
      model's `myTable`;
   c. ``mypy.mro.merge`` itself on raw sequences (incl. malformed ones: repeated members, empty lists)
      vs. the model's `merge`.
3. Search / the property's own oracle: real mypy vs. real CPython for every generated class statement
   (same list, or both reject).  A model difference without such a concrete disagreement is a broken
   correspondence (no failing input).

Hierarchies: classes are numbered in definition order (0 = object); a hierarchy is the list of written
base lists.  Exhaustive part = the trie of all hierarchies with ≤ N classes whose bases are ordered subsets
of the earlier classes (every prefix of a hierarchy is a hierarchy, so one class statement per trie node),
cut below a class whose creation fails at run time (later statements could not name it).
"""
from __future__ import annotations

import itertools
import json
import os
import re
import subprocess
import sys
import time
from concurrent.futures import ThreadPoolExecutor

from harness.vlib.core import Ctx, PY, VERIF, ToolFailure, repo_env

MODEL_FILES = ["MypyVerif/Model/Mro.lean", "MypyVerif/Proofs/Mro.lean"]
DRIVER = "Driver/C12Mro.lean"


# ------------------------------------------------------------------------------------------- CPython side
def py_create(name: str, bases: tuple, index: dict, k: int) -> tuple[str, object]:
    """Really create the class.  -> (canonical outcome, class object | None)"""
    try:
        cls = type(name, bases, {})
    except TypeError as e:
        msg = str(e)
        if "duplicate base class" in msg:
            return "dup", None
        if "consistent method resolution" in msg:
            return "mro", None
        return "other:" + msg.replace("\n", " ")[:80], None
    index[cls] = k
    return "ok " + " ".join(str(index[c]) for c in cls.__mro__), cls


class Node:
    __slots__ = ("id", "path", "written", "py", "kind")

    def __init__(self, id, path, written, py, kind):
        self.id = id              # unique: the class is named K<id>
        self.path = path          # ids of classes 1..k-1 of this hierarchy (this node is class k)
        self.written = written    # tuple of class numbers as written (0 = object)
        self.py = py              # real CPython outcome
        self.kind = kind          # generator stream

    def hierarchy(self, nodes):
        return [list(nodes[i].written) for i in self.path] + [list(self.written)]


def base_choices(k: int, with_object: bool):
    pool = list(range(0 if with_object else 1, k))
    for m in range(0, len(pool) + 1):
        for p in itertools.permutations(pool, m):
            yield p


def enumerate_trie(nodes: dict, maxn: int, with_object: bool, kind: str, sample_last=None, rng=None):
    """All hierarchies with ≤ maxn classes (cut below failing classes); `sample_last` = keep only that
    fraction of the deepest level (thorough-tier budget)."""
    def rec(path, classes, index):
        k = len(path) + 1
        for w in base_choices(k, with_object):
            if sample_last is not None and k == maxn and rng.random() >= sample_last:
                continue
            nid = len(nodes) + 1
            bases = tuple(classes[b] for b in w) or (object,)
            idx = dict(index)
            out, cls = py_create(f"K{nid}", bases, idx, k)
            nodes[nid] = Node(nid, tuple(path), w, out, kind)
            if cls is not None and k < maxn:
                rec(path + [nid], classes + [cls], idx)
    rec([], [object], {object: 0})


def random_hierarchies(nodes: dict, ctx: Ctx, count: int):
    """Malformed / larger stream: up to 8 classes, explicit `object` anywhere, duplicate bases, and classes
    that go on after a failed one (a later statement naming a failed class is a NameError at run time)."""
    rng = ctx.rng
    for _ in range(count):
        n = rng.randint(2, 8)
        path, classes, index = [], [object], {object: 0}
        alive = [True]
        for k in range(1, n + 1):
            pool = list(range(0, k))
            m = min(len(pool), rng.choice([0, 1, 1, 2, 2, 2, 3, 3, 4]))
            w = rng.sample(pool, m)
            if 0 in w and rng.random() < 0.7:
                w.remove(0)
                if rng.random() < 0.6:
                    w.append(0)          # object last is the only consistent place
                else:
                    w.insert(rng.randint(0, len(w)), 0)
            if w and rng.random() < 0.08:
                w.insert(rng.randint(0, len(w)), rng.choice(w))     # duplicate base
            w = tuple(w)
            nid = len(nodes) + 1
            if any(not alive[b] for b in w):
                out, cls = "name", None
            else:
                idx = dict(index)
                out, cls = py_create(f"K{nid}", tuple(classes[b] for b in w) or (object,), idx, k)
                if cls is not None:
                    index = idx
            nodes[nid] = Node(nid, tuple(path), w, out, "random")
            path.append(nid)
            classes.append(cls)
            alive.append(cls is not None)
            if cls is None and rng.random() < 0.5:
                break


# ---------------------------------------------------------------------------------------------- mypy side
def render_modules(nodes: dict, per_module: int) -> list[dict]:
    """Python modules holding the class statements.  Ids are handed out in depth-first order, so a run of
    consecutive ids is a bundle of neighbouring hierarchies; the classes of their shared prefixes are
    repeated in every module that needs them (bases are always local names)."""
    ids = sorted(nodes)
    out = []
    for i in range(0, len(ids), per_module):
        chunk = ids[i:i + per_module]
        need = set(chunk)
        for nid in chunk:
            need.update(nodes[nid].path)
        lines, where, every = [], {}, {}
        for nid in sorted(need):
            nd = nodes[nid]
            names = ["object" if b == 0 else f"K{nd.path[b - 1]}" for b in nd.written]
            lines.append(f"class K{nid}({', '.join(names)}): pass" if names else f"class K{nid}: pass")
            every[len(lines)] = nid
            if nid >= chunk[0]:
                where[len(lines)] = nid
        out.append({"name": f"mro_m{len(out)}", "text": "\n".join(lines) + "\n", "where": where, "every": every})
    return out


_MRO_MSG = re.compile(r"^[^:]+:(\d+): error: (.*?)(?:  \[[a-z-]+\])?$")


def mypy_worker(inp: str, outp: str) -> None:
    """Subprocess body: type-check the modules, write {class id: [mro names, bad_mro, [messages]]}."""
    from mypy import build
    from mypy.fscache import FileSystemCache
    from mypy.modulefinder import BuildSource
    from mypy.options import Options
    mods = json.load(open(inp))
    o = Options()
    o.incremental = False
    o.cache_dir = os.devnull
    o.show_traceback = True
    msgs: list[str] = []
    res = build.build([BuildSource(m["name"] + ".py", m["name"], m["text"]) for m in mods], o,
                      flush_errors=lambda f, new, serious: msgs.extend(new), fscache=FileSystemCache())
    per_line: dict[tuple[str, int], list[str]] = {}
    for m in msgs:
        mm = _MRO_MSG.match(m)
        if not mm:
            continue
        per_line.setdefault((m.split(":", 1)[0], int(mm.group(1))), []).append(mm.group(2))
    out = {}
    for m in mods:
        names = res.files[m["name"]].names
        for line, nid in m["where"].items():
            info = names[f"K{nid}"].node
            out[str(nid)] = [[t.fullname for t in info.mro], bool(info.bad_mro),
                             per_line.get((m["name"] + ".py", int(line)), [])]
    json.dump(out, open(outp, "w"))


class MypyCrash(Exception):
    """mypy itself failed on generated class statements: (class id, error text)"""

    def __init__(self, nid, text):
        super().__init__(text)
        self.nid, self.text = nid, text


def _worker(ctx: Ctx, mods: list[dict], tag: str):
    """-> (results | None, error text)"""
    inp, outp = os.path.join(ctx.tmp, f"mro_in{tag}.json"), os.path.join(ctx.tmp, f"mro_out{tag}.json")
    json.dump(mods, open(inp, "w"))
    try:
        p = subprocess.run([PY, "-c", "import sys; from harness.c12.mro import mypy_worker; mypy_worker(sys.argv[1], sys.argv[2])",
                            inp, outp], cwd=VERIF, env=repo_env(), capture_output=True, text=True, timeout=3000)
    except subprocess.TimeoutExpired:
        raise ToolFailure("mypy worker timed out")
    try:
        if p.returncode != 0 or not os.path.exists(outp):
            return None, (p.stdout + p.stderr)[-3000:]
        return json.load(open(outp)), ""
    finally:
        for f in (inp, outp):
            if os.path.exists(f):
                os.remove(f)


def locate_crash(ctx: Ctx, mods: list[dict], err: str) -> MypyCrash:
    """mypy failed on this bundle: find the first class statement with which it fails (every prefix of a module
    is self-contained), or give up with a ToolFailure if the failure does not reproduce on a single module."""
    for m in mods:
        r, e = _worker(ctx, [m], "loc")
        if r is not None:
            continue
        lines = m["text"].split("\n")[:-1]
        lo, hi = 0, len(lines)            # prefix of length lo is fine (0 lines), hi fails
        while hi - lo > 1:
            mid = (lo + hi) // 2
            r2, e2 = _worker(ctx, [{"name": m["name"], "text": "\n".join(lines[:mid]) + "\n", "where": {}}], "loc")
            if r2 is None:
                hi, e = mid, e2
            else:
                lo = mid
        return MypyCrash(int(m["every"][hi] if hi in m["every"] else m["every"][str(hi)]), e)
    raise ToolFailure("mypy worker failed, but not on any single module:\n" + err)


def run_mypy(ctx: Ctx, mods: list[dict], workers: int) -> dict[int, list]:
    if not mods:
        return {}
    workers = max(1, min(workers, len(mods)))
    # balance by size
    bins: list[list[dict]] = [[] for _ in range(workers)]
    for m in sorted(mods, key=lambda m: -len(m["where"])):
        min(bins, key=lambda b: sum(len(x["where"]) for x in b)).append(m)
    res: dict[int, list] = {}
    with ThreadPoolExecutor(max_workers=workers) as ex:
        outs = list(ex.map(lambda i: _worker(ctx, bins[i], str(i)), range(workers)))
    for i, (r, err) in enumerate(outs):
        if r is None:
            raise locate_crash(ctx, bins[i], err)
        res.update({int(k): v for k, v in r.items()})
    return res


def canon_mypy(nd: Node, raw: list) -> str:
    """real mypy outcome in the driver's `my=` format: <mro numbers>/<none|dup|mro|other>/<bad 0|1>"""
    names, bad, msgs = raw
    mine = {f"K{i}": n + 1 for n, i in enumerate(nd.path)}
    mine[f"K{nd.id}"] = len(nd.path) + 1
    nums = []
    for full in names:
        short = full.rsplit(".", 1)[-1]
        nums.append("0" if full == "builtins.object" else str(mine.get(short, "?" + short)))
    err = "none"
    for m in msgs:
        if m.startswith("Cannot determine consistent method resolution order (MRO)"):
            err = "mro" if err == "none" else "other"
        elif m.startswith("Duplicate base class"):
            err = "dup" if err == "none" else "other"
        else:
            err = "other"
    return f"{' '.join(nums)}/{err}/{int(bad)}"


# ------------------------------------------------------------------------------------------------- model
def run_model(ctx: Ctx, lines: list[str], shards: int) -> list[str]:
    if not lines:
        return []
    shards = max(1, min(shards, (len(lines) + 19999) // 20000))
    size = (len(lines) + shards - 1) // shards
    parts = [lines[i:i + size] for i in range(0, len(lines), size)]
    with ThreadPoolExecutor(max_workers=len(parts)) as ex:
        outs = list(ex.map(lambda p: ctx.lean_driver(DRIVER, p), parts))
    out = [x for o in outs for x in o]
    if len(out) != len(lines):
        raise ToolFailure(f"{DRIVER} returned {len(out)} lines for {len(lines)} cases")
    return out


def hier_line(h: list[list[int]]) -> str:
    return "H " + "".join(" ".join(str(b) for b in w) + ";" for w in h)


def split_model(line: str) -> tuple[str, str]:
    last = line.split(" | ")[-1]
    m = re.match(r"^py=(.*) my=(.*)$", last)
    if not m:
        raise ToolFailure("unparsable driver line: " + line[:200])
    return m.group(1), m.group(2)


# ------------------------------------------------------------------------------------- property's oracle
def property_verdict(py: str, my: str) -> str | None:
    """The property itself on one class statement: real CPython outcome vs. real mypy outcome.
    None = holds (or outside: the statement cannot name its bases at run time)."""
    if py == "name":
        return None
    mro, err, _bad = my.split("/")
    if py.startswith("ok "):
        if err != "none":
            return "mypy-rejects-runtime-accepts"
        if mro != py[3:]:
            return "mro-differs"
        return None
    if py in ("dup", "mro"):
        return None if err != "none" else "mypy-accepts-runtime-rejects"
    return "unexpected-runtime-error"


def class_source(nd: Node, nodes: dict) -> str:
    h = nd.hierarchy(nodes)
    out = []
    for i, w in enumerate(h, 1):
        out.append(f"class C{i}({', '.join('object' if b == 0 else f'C{b}' for b in w)}): pass" if w else f"class C{i}: pass")
    return "\n".join(out)


# ---------------------------------------------------------------------------------------------- raw merge
def real_merge(seqs: list[list[int]]) -> str:
    from mypy.mro import MroError, merge
    objs: dict[int, object] = {}

    class T:                                   # stands in for TypeInfo: identity equality
        def __init__(self, n): self.n = n
    conv = [[objs.setdefault(x, T(x)) for x in s] for s in seqs]
    snapshot = [list(s) for s in conv]
    try:
        r = merge(conv)                        # type: ignore[arg-type]
        out = " ".join(str(t.n) for t in r) if r else ""
    except MroError:
        out = "fail"
    if [list(s) for s in conv] != snapshot:
        out += " INPUT-MUTATED"
    return out


def merge_cases(ctx: Ctx, n: int) -> list[list[list[int]]]:
    rng = ctx.rng
    cases = [[], [[]], [[1]], [[1, 1]], [[1, 2], [2, 1]], [[1, 0], [2, 0], [1, 2]], [[], [1], []]]
    for _ in range(n):
        k = rng.randint(1, 5)
        univ = rng.randint(1, 6)
        seqs = []
        for _ in range(k):
            ln = rng.choice([0, 1, 2, 2, 3, 3, 4, 5])
            if rng.random() < 0.75:
                s = rng.sample(range(univ + 3), min(ln, univ + 3))      # duplicate-free
            else:
                s = [rng.randrange(univ) for _ in range(ln)]              # may repeat members
            seqs.append(s)
        cases.append(seqs)
    return cases


# -------------------------------------------------------------------------------------------------- main
def run(ctx: Ctx) -> None:
    t0 = time.time()
    proved = ctx.prove("MypyVerif.Props.C12Mro", MODEL_FILES)
    ctx.trusted("MRO models: mypy.mro.merge/linearize_hierarchy + semanal.configure_base_classes (duplicate check, "
                "dummy MRO) and CPython 3.12 typeobject.c mro_implementation/pmerge/tail_contains transcribed by hand",
                "MRO correspondence harness harness/c12/mro.py (real type(); in-process mypy builds; mypy.mro.merge on raw lists)",
                "not modelled: metaclass mro() overrides, plugin MRO hooks, layout/metaclass conflicts, inheritance cycles "
                "(impossible at run time), linearize_hierarchy recomputing a base whose mro is unset")
    nodes: dict[int, Node] = {}
    maxn = ctx.pick(5, 6)
    frac = None
    if not ctx.quick():
        frac = float(os.environ.get("VERIF_C12_MRO_L6_FRACTION", "1.0"))
        frac = None if frac >= 1.0 else frac
    enumerate_trie(nodes, maxn, False, "exhaustive", sample_last=frac, rng=ctx.rng)
    n_exh = len(nodes)
    enumerate_trie(nodes, ctx.pick(3, 4), True, "exhaustive-explicit-object")
    if not ctx.quick():
        before = len(nodes)
        enumerate_trie(nodes, 5, True, "sampled-explicit-object-5", sample_last=0.02, rng=ctx.rng)
        ctx.coverage["mro_explicit_object_5_sampled"] = len(nodes) - before
    random_hierarchies(nodes, ctx, ctx.pick(250, 3000))
    ctx.coverage["mro_rule"] = (f"every hierarchy with ≤ {maxn} classes (bases = ordered subsets of earlier classes; trie cut below "
                                f"a class that fails at run time): {n_exh} class statements"
                                + (f" (deepest level sampled at {frac})" if frac else "")
                                + f"; with explicit `object` among the bases ≤ {ctx.pick(3, 4)} classes; random ≤ 8 classes incl. "
                                "duplicate bases and statements after a failed class; raw sequences for merge")

    # model
    ids = sorted(nodes)
    model = run_model(ctx, [hier_line(nodes[i].hierarchy(nodes)) for i in ids], 6)
    mpy, mmy = {}, {}
    for i, line in zip(ids, model):
        mpy[i], mmy[i] = split_model(line)
    # mypy
    mods = render_modules(nodes, ctx.pick(1500, 2500))
    try:
        raw = run_mypy(ctx, mods, ctx.pick(4, 6))
    except MypyCrash as e:
        nd = nodes[e.nid]
        tail = [ln for ln in e.text.strip().splitlines() if ln.strip()][-6:]
        ctx.report({"sub": "mro", "class": "mypy-crashes-on-class-statement", "nbases": len(nd.written)},
                   f"mypy fails (no result) on class statement {len(nd.path) + 1} of\n{class_source(nd, nodes)}\n  CPython: {nd.py}\n  "
                   + "\n  ".join(tail),
                   {"sub": "mro", "hierarchy": nd.hierarchy(nodes), "source": class_source(nd, nodes), "cpython": nd.py,
                    "mypy_error": e.text[-1500:]})
        return
    missing = [i for i in ids if i not in raw]
    if missing:
        raise ToolFailure(f"mypy results missing for {len(missing)} classes, e.g. K{missing[0]}")

    ndiff = nreported = 0
    for i in ids:
        nd = nodes[i]
        real_my = canon_mypy(nd, raw[i])
        k = len(nd.path) + 1
        ctx.case(("mro", nd.hierarchy(nodes)), nontrivial=len(nd.written) >= 2)
        ctx.dist("mro_stream", nd.kind)
        ctx.dist("mro_classes", str(k))
        ctx.dist("mro_runtime_outcome", nd.py.split(" ")[0].split(":")[0])
        ctx.dist("mro_nbases", str(len(nd.written)))
        verdict = property_verdict(nd.py, real_my)
        same_py = nd.py == mpy[i]
        same_my = real_my == mmy[i]
        if verdict is None and same_py and same_my:
            continue
        ndiff += 1
        ctx.count("disagreements_checked")
        if nreported >= 5:
            continue
        nreported += 1
        detail = {"sub": "mro", "hierarchy": nd.hierarchy(nodes), "source": class_source(nd, nodes),
                  "cpython": nd.py, "mypy": real_my, "model_cpython": mpy[i], "model_mypy": mmy[i]}
        if verdict is not None:
            ctx.report({"sub": "mro", "class": verdict, "nbases": len(nd.written)},
                       f"class statement {k} of\n{class_source(nd, nodes)}\n  CPython: {nd.py}; mypy: {real_my}", detail)
        else:
            side = "CPython (type())" if not same_py else "mypy (TypeInfo.mro / diagnostics)"
            ctx.violation(f"MRO correspondence broken on the {side} side: model ≠ real on\n{class_source(nd, nodes)}\n"
                          f"  real CPython {nd.py} / model {mpy[i]}; real mypy {real_my} / model {mmy[i]}; "
                          "real mypy and real CPython still agree with each other",
                          dict(detail, broken=f"correspondence {DRIVER} `H` vs " + side), found_input=False)
    ctx.count("traces_validated_against_impl", 2 * len(ids))
    mid = ids[len(ids) // 3]
    ctx.sample({"mro_hierarchy": nodes[mid].hierarchy(nodes), "cpython": nodes[mid].py, "mypy": canon_mypy(nodes[mid], raw[mid]),
                "model": model[ids.index(mid)].split(" | ")[-1]})

    # raw merge
    cases = merge_cases(ctx, ctx.pick(1500, 20000))
    mm = run_model(ctx, ["M " + "".join(" ".join(map(str, s)) + ";" for s in c) for c in cases], 2)
    mdiff = 0
    for c, line in zip(cases, mm):
        m = re.match(r"^merge=(.*) pmerge=(.*)$", line)
        if not m:
            raise ToolFailure("unparsable driver line: " + line)
        real = real_merge(c)
        ctx.case(("merge", c), nontrivial=len(c) >= 2)
        ctx.dist("merge_outcome", "fail" if real == "fail" else "ok")
        dupfree = all(len(set(s)) == len(s) for s in c)
        ctx.dist("merge_input", "duplicate-free" if dupfree else "repeated-members")
        if real != m.group(1) or m.group(1) != m.group(2):
            mdiff += 1
            ctx.count("disagreements_checked")
            if mdiff <= 2:
                # search: is there a hierarchy-shaped witness?  The sequences are raw, so all we can say is that
                # the model of merge no longer matches; the class-level comparison above is the property's oracle.
                ctx.violation(f"mypy.mro.merge({c}) = {real!r}, model merge = {m.group(1)!r}, model pmerge = {m.group(2)!r}",
                              {"sub": "mro", "broken": f"correspondence {DRIVER} `M` vs mypy.mro.merge", "seqs": c,
                               "real": real, "model_merge": m.group(1), "model_pmerge": m.group(2)}, found_input=False)
    ctx.count("traces_validated_against_impl", len(cases))
    ctx.coverage["mro_disagreements"] = ndiff + mdiff
    ctx.coverage["mro_wall_s"] = round(time.time() - t0, 1)
    if not proved and not any("MRO" in w or "mro" in w for w, _ in ctx.violations):
        ctx.violation("Lean development for C12/MRO no longer builds (mro_eq / pmerge_eq unproved); the exhaustive "
                      "comparison of real mypy with real CPython found no disagreement",
                      {"sub": "mro", "broken": ctx.broken_ties}, found_input=False)


def replay(ctx: Ctx, det: dict) -> int:
    if "seqs" in det:
        c = det["seqs"]
        print("mypy.mro.merge:", real_merge(c))
        print("model:", ctx.lean_driver(DRIVER, ["M " + "".join(" ".join(map(str, s)) + ";" for s in c)])[0])
        return 0
    h = det["hierarchy"]
    nodes: dict[int, Node] = {}
    path, classes, index, alive = [], [object], {object: 0}, [True]
    for k, w in enumerate(h, 1):
        nid = k
        if any(b >= len(alive) or not alive[b] for b in w):
            out, cls = "name", None
        else:
            idx = dict(index)
            out, cls = py_create(f"K{nid}", tuple(classes[b] for b in w) or (object,), idx, k)
            if cls is not None:
                index = idx
        nodes[nid] = Node(nid, tuple(path), tuple(w), out, "replay")
        path.append(nid); classes.append(cls); alive.append(cls is not None)
    try:
        raw = run_mypy(ctx, render_modules(nodes, 10 ** 9), 1)
    except MypyCrash as e:
        print(class_source(nodes[len(h)], nodes))
        print(f"mypy fails on class statement {e.nid}:\n" + e.text[-1500:])
        return 1
    model = ctx.lean_driver(DRIVER, [hier_line(h)])[0].split(" | ")
    print(class_source(nodes[len(h)], nodes))
    rc = 0
    for k in range(1, len(h) + 1):
        real_my = canon_mypy(nodes[k], raw[k])
        v = property_verdict(nodes[k].py, real_my)
        same = model[k - 1] == f"py={nodes[k].py} my={real_my}"
        print(f"class {k}: CPython {nodes[k].py} | mypy {real_my} | model {model[k - 1]} | property: {v or 'holds'}"
              + ("" if same else " | correspondence: BROKEN"))
        rc = rc or (1 if v or not same else 0)
    return rc
